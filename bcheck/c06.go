package bcheck

import (
	"io"
	"reflect"
	"bytes"
	"fmt"
	"os"
	"strconv"
	"strings"

	"github.com/fiorix/go-diameter/v4/diam"
	"github.com/fiorix/go-diameter/v4/diam/avp"
	"github.com/fiorix/go-diameter/v4/diam/datatype"
	"github.com/fiorix/go-diameter/v4/diam/dict"
	"verif/internal/atoms"
	"verif/internal/refcodec"
	"verif/internal/refdict"
	"verif/vnet"
	vs "verif/vsched"
	"verif/vsched/vsync"
)

// C06 — a decoded message never changes after it has been returned.

func init() {
	Registry["C06"] = &Check{
		Scenarios: c06Scenarios,
		Rule: "retained groups of 15 / 16 / 17 / 32 members; every other later message carries its bytes inside a Grouped AVP of three members (a decode that builds member lists of its own); a retained message followed by a second message (the same wire image, or one with member-less groups) that is then edited in every ordinary way (a member added to each of its groups at every depth, a top-level AVP added, header changed): the retained one must not change; retained AVPs of an application-defined data type whose name is registered without a decoder (kept, if at all, as a copy); a message read while a 1.1 / 4 / 70 KB message is in flight on another connection (suspended at its header/body border, 8 and 600 bytes into the body), then retained across later reads; retained groups nested 40 / 64 / 65 / 100 deep; histories: a retained first message M1 (one per slice-backed representation: Address IPv4 / IPv6 / other family, undefined AVP, IPv4, IPv6, OctetString, UTF8String, a grouped AVP containing each, nested groups; and one AVP of every declared type carrying payloads of 15 unexpected lengths / shapes, i.e. the lenient decode paths) followed by every sequence of <=3 further reads drawn from {same size with other content, larger but pooled, larger than the 1 KiB pooled buffer} x {same reader, another reader}, and by later messages of the retained message's own shape (same codes, lengths and nesting, every leaf octet different) on either reader; the pool shim reuses buffers deterministically (LIFO), so nothing depends on sync.Pool's luck; the same with the exported tuning variable diam.MessageBufferLength raised to 4096 and retained payloads of 1000..3000 bytes. schedules: two connections served by the real reader loops, a handler that retains the first message of connection A, a concurrent writer; Pool.Get is an explored choice (any pooled buffer, or a fresh one); every schedule up to preemption bound 2 (thorough: 4 on all fifteen retained shapes). Oracle: Serialize() bytes and String() of M1 taken when the reader returned it equal those taken at quiescence. Plus: M1 is unmarshalled into a struct and two later messages of the same shape are unmarshalled into the SAME struct value (field shapes *diam.AVP, diam.AVP, []*diam.AVP, the datatype, a pointer to it; 8 data types).",
		Assume: []string{"data-race freedom between visible operations (audited separately with -race)", "sync.Pool is modelled as: Get returns any previously Put object or allocates"},
		QuickBudget: 100, ThoroughBudget: 2400,
	}
}

var c06Dict *atoms.Dict
var c06Alpha *atoms.Alphabet

func c06Setup() {
	if c06Dict != nil {
		return
	}
	d, err := atoms.NewDict("generated", atoms.GeneratedXML())
	if err != nil {
		panic(err)
	}
	c06Dict = d
	c06Alpha = atoms.BuildAlphabet(d, 0)
}

func c06leaf(k atoms.Kind, v atoms.Val) refcodec.Node {
	d := c06Alpha.Plain[k]
	return refcodec.Node{Code: d.Code, Flags: 0x40, Payload: v.Ref()}
}

// c06Firsts returns the retained-message variants (name, wire image).
func c06Firsts() (names []string, wires [][]byte) {
	c06Setup()
	leaves := map[string]refcodec.Node{
		"addr-ipv4":   c06leaf(atoms.KAddr, atoms.Val{K: atoms.KAddr, Fam: 1, S: []byte{10, 1, 2, 3}}),
		"addr-ipv6":   c06leaf(atoms.KAddr, atoms.Val{K: atoms.KAddr, Fam: 2, S: []byte{0x20, 1, 0xd, 0xb8, 0, 0, 0, 0, 0, 0, 0, 0, 0, 0, 0, 1}}),
		"addr-e164":   c06leaf(atoms.KAddr, atoms.Val{K: atoms.KAddr, Fam: 8, S: []byte("48602007060")}),
		"unknown":     {Code: c06Alpha.Undef[0], Payload: []byte("opaque-data-1")},
		"unknown-v":   {Code: c06Alpha.Undef[1], Flags: 0x80, Vendor: 4242, Payload: []byte("opaque2")},
		"ipv4":        c06leaf(atoms.KIPv4, atoms.Val{K: atoms.KIPv4, S: []byte{192, 168, 7, 9}}),
		"ipv6":        c06leaf(atoms.KIPv6, atoms.Val{K: atoms.KIPv6, S: []byte{0x20, 1, 0xd, 0xb8, 1, 2, 3, 4, 5, 6, 7, 8, 9, 10, 11, 12}}),
		"octetstring": c06leaf(atoms.KOctet, atoms.Val{K: atoms.KOctet, S: []byte("octets-abcdef")}),
		"utf8":        c06leaf(atoms.KUTF8, atoms.Val{K: atoms.KUTF8, S: []byte("utf8-string")}),
		"ident":       c06leaf(atoms.KIdent, atoms.Val{K: atoms.KIdent, S: []byte("host.example")}),
		"time":        c06leaf(atoms.KTime, atoms.Val{K: atoms.KTime, U: 1700000000}),
		"u64":         c06leaf(atoms.KU64, atoms.Val{K: atoms.KU64, U: 0x0102030405060708}),
	}
	order := []string{"addr-ipv4", "addr-ipv6", "addr-e164", "unknown", "unknown-v", "ipv4", "ipv6", "octetstring", "utf8", "ident", "time", "u64"}
	g := c06Alpha.Groups[0]
	g2 := c06Alpha.Groups[1]
	hdr := refcodec.Header{Version: 1, Flags: 0x80, Code: 777, App: 0, HbH: 1, E2E: 1}
	for _, n := range order {
		names = append(names, n)
		wires = append(wires, refcodec.EncodeMessage(hdr, []refcodec.Node{leaves[n]}))
	}
	var all []refcodec.Node
	for _, n := range order {
		all = append(all, leaves[n])
	}
	names = append(names, "group-of-all")
	wires = append(wires, refcodec.EncodeMessage(hdr, []refcodec.Node{{Code: g.Code, Flags: 0x40, Group: true, Children: all}}))
	names = append(names, "nested-group")
	wires = append(wires, refcodec.EncodeMessage(hdr, []refcodec.Node{{Code: g2.Code, Flags: 0x40, Group: true, Children: []refcodec.Node{
		leaves["ipv4"], {Code: g.Code, Flags: 0x40, Group: true, Children: []refcodec.Node{leaves["addr-e164"], leaves["unknown"]}}, leaves["addr-ipv4"]}}}))
	names = append(names, "all-top-level")
	wires = append(wires, refcodec.EncodeMessage(hdr, all))
	// groups nested 40, 64, 65 and 100 deep (alternating the two group codes) around one leaf, all
	// inside a body below 1 KiB
	for _, depth := range []int{40, 64, 65, 100} {
		n := leaves["unknown"]
		for d := 0; d < depth; d++ {
			code := g.Code
			if d%2 == 1 {
				code = g2.Code
			}
			n = refcodec.Node{Code: code, Flags: 0x40, Group: true, Children: []refcodec.Node{n}}
		}
		names = append(names, fmt.Sprintf("group-nested-%d-deep", depth))
		wires = append(wires, refcodec.EncodeMessage(hdr, []refcodec.Node{n}))
	}
	// groups of 15, 16, 17 and 32 members (around the sizes at which small fixed tables end)
	for _, width := range []int{15, 16, 17, 32} {
		var kids []refcodec.Node
		for i := 0; i < width; i++ {
			kids = append(kids, leaves[[]string{"u64", "time", "ipv4"}[i%3]])
		}
		names = append(names, fmt.Sprintf("group-of-%d-members", width))
		wires = append(wires, refcodec.EncodeMessage(hdr, []refcodec.Node{{Code: g.Code, Flags: 0x40, Group: true, Children: kids}, leaves["ident"]}))
	}
	// the same code twice at one level, not adjacent (top level and inside a group)
	names = append(names, "repeated-code-top-level")
	wires = append(wires, refcodec.EncodeMessage(hdr, []refcodec.Node{leaves["addr-ipv4"], leaves["utf8"], leaves["addr-ipv6"], leaves["ident"], leaves["addr-e164"]}))
	names = append(names, "repeated-code-in-group")
	wires = append(wires, refcodec.EncodeMessage(hdr, []refcodec.Node{{Code: g.Code, Flags: 0x40, Group: true, Children: []refcodec.Node{leaves["u64"], leaves["utf8"], leaves["u64"], leaves["time"], leaves["u64"]}}, leaves["ident"]}))
	return
}

// c06OddFirsts: one AVP of every declared type carrying payloads of unexpected lengths (the
// lenient decode paths), including the IPv4-mapped 16-byte and family-prefixed shapes.
func c06OddFirsts() (names []string, wires [][]byte, parsers []*dict.Parser) {
	c06Setup()
	defer func() {
		for len(parsers) < len(wires) {
			parsers = append(parsers, nil)
		}
		gn, gw, gp := c06OddGroups()
		names, wires, parsers = append(names, gn...), append(wires, gw...), append(parsers, gp...)
	}()
	hdr := refcodec.Header{Version: 1, Flags: 0x80, Code: 777, App: 0, HbH: 1, E2E: 1}
	// an application-defined data type: its name is registered (datatype.Available, so that the
	// private dictionary loads) but no decoder is - whether the library rejects such an AVP or
	// keeps it as opaque data, what it keeps must be a copy
	if cp := c06CustomTypeDict(); cp != nil {
		chdr := refcodec.Header{Version: 1, Flags: 0x80, Code: 778, App: 0, HbH: 1, E2E: 1}
		for _, l := range []int{4, 12, 200, 1000} {
			pl := make([]byte, l)
			for i := range pl {
				pl[i] = 0x11
			}
			leaf := refcodec.Node{Code: 9800, Flags: 0x40, Payload: pl}
			for len(parsers) < len(wires) {
				parsers = append(parsers, nil)
			}
			names = append(names, fmt.Sprintf("odd/custom-type-without-decoder/len%d", l), fmt.Sprintf("odd/custom-type-without-decoder/in-group/len%d", l))
			wires = append(wires, refcodec.EncodeMessage(chdr, []refcodec.Node{leaf}), refcodec.EncodeMessage(chdr, []refcodec.Node{{Code: 9801, Flags: 0x40, Group: true, Children: []refcodec.Node{leaf}}}))
			parsers = append(parsers, cp, cp)
		}
	}
	mapped := []byte{0, 0, 0, 0, 0, 0, 0, 0, 0, 0, 0xff, 0xff, 10, 1, 2, 3}
	for k := atoms.Kind(0); k < atoms.NKinds; k++ {
		d, ok := c06Alpha.Plain[k]
		if !ok || k == atoms.KGroup {
			continue
		}
		var payloads [][]byte
		for _, l := range []int{0, 1, 3, 4, 5, 6, 8, 12, 16, 18, 20} {
			p := make([]byte, l)
			for i := range p {
				p[i] = byte(0x21 + i)
			}
			payloads = append(payloads, p)
		}
		payloads = append(payloads, mapped, append([]byte{0, 2}, mapped...), append([]byte{0, 1}, 10, 1, 2, 3), append([]byte{0, 1}, mapped...))
		for _, p := range payloads {
			names = append(names, fmt.Sprintf("odd/%s/len%d:%x", k, len(p), p[:min(len(p), 4)]))
			wires = append(wires, refcodec.EncodeMessage(hdr, []refcodec.Node{{Code: d.Code, Flags: 0x40, Payload: p}}))
		}
	}
	return
}

var c06CustomParser *dict.Parser
var c06CustomTried bool

func c06CustomTypeDict() *dict.Parser {
	if c06CustomTried {
		return c06CustomParser
	}
	c06CustomTried = true
	datatype.Available["Verif-Custom-Type"] = datatype.TypeID(200)
	p, err := dict.NewParser()
	if err == nil {
		err = p.Load(strings.NewReader(`<?xml version="1.0" encoding="UTF-8"?>
<diameter><application id="0" name="Custom">
<command code="778" short="CT" name="Custom-Type"><request><rule avp="Custom-Blob" required="false"/><rule avp="Custom-Group" required="false"/></request><answer><rule avp="Custom-Blob" required="false"/></answer></command>
<avp name="Custom-Blob" code="9800" must="M"><data type="Verif-Custom-Type"/></avp>
<avp name="Custom-Group" code="9801" must="M"><data type="Grouped"><rule avp="Custom-Blob" required="false"/></data></avp>
</application></diameter>`))
	}
	if err == nil {
		c06CustomParser = p
	}
	return c06CustomParser
}

// c06OddGroups: every Grouped AVP of the base application of the default dictionary (and the
// generated dictionary's groups) carrying member data that does not parse as AVPs, or parses
// only partly - if the decoder accepts such a message, what it keeps must still be a copy.
func c06OddGroups() (names []string, wires [][]byte, parsers []*dict.Parser) {
	emb, err := refdict.LoadEmbedded(repoRoot())
	if err != nil {
		panic(err)
	}
	model := refdict.NewModel()
	for _, e := range emb {
		model.Load(e.XML)
	}
	type gdef struct {
		code, vendor uint32
		p            *dict.Parser
		hdr          refcodec.Header
		name         string
	}
	var groups []gdef
	for _, v := range model.All {
		if v.App == 0 && v.Data.Type == "Grouped" && model.FindCode(0, v.Code, v.Vendor) == v {
			groups = append(groups, gdef{v.Code, v.Vendor, dict.Default, refcodec.Header{Version: 1, Flags: 0x80, Code: 257, App: 0, HbH: 1, E2E: 1}, v.Name})
		}
	}
	for _, g := range c06Alpha.Groups {
		groups = append(groups, gdef{g.Code, g.Vendor, c06Dict.P, refcodec.Header{Version: 1, Flags: 0x80, Code: 777, App: 0, HbH: 1, E2E: 1}, g.Name})
	}
	valid := refcodec.EncodeAVP(refcodec.Node{Code: 60001, Payload: []byte("opaque-1")})
	shapes := []struct {
		name string
		b    []byte
	}{
		{"member-length-5", []byte{0, 0, 1, 0x16, 0x40, 0, 0, 5, 0xDE, 0xAD, 0xBE, 0xEF, 0xCA, 0xFE, 0xBA, 0xBE}},
		{"member-length-0", []byte{0, 0, 1, 0x16, 0x40, 0, 0, 0, 0xDE, 0xAD, 0xBE, 0xEF}},
		{"member-overstated", []byte{0, 0, 1, 0x16, 0x40, 0, 0, 64, 1, 2, 3, 4}},
		{"seven-bytes", []byte{1, 2, 3, 4, 5, 6, 7}},
		{"valid-then-3-bytes", append(append([]byte{}, valid...), 9, 9, 9)},
		{"valid-then-truncated-header", append(append([]byte{}, valid...), 0, 0, 1, 8, 0x40, 0)},
		{"valid-member", valid},
		{"empty", nil},
	}
	for _, g := range groups {
		for _, sh := range shapes {
			n := refcodec.Node{Code: g.code, Flags: 0x40, Payload: sh.b}
			if g.vendor != 0 {
				n.Flags, n.Vendor = 0xC0, g.vendor
			}
			names = append(names, fmt.Sprintf("odd-group/%s(%d)/%s", g.name, g.code, sh.name))
			wires = append(wires, refcodec.EncodeMessage(g.hdr, []refcodec.Node{n}))
			parsers = append(parsers, g.p)
			if sh.name == "valid-member" || sh.name == "empty" {
				// the same with the deprecated P flag (and a reserved bit) set on the grouped AVP
				for _, extra := range []uint8{0x20, 0x08} {
					n2 := n
					n2.Flags |= extra
					names = append(names, fmt.Sprintf("odd-group/%s(%d)/%s/flags%#x", g.name, g.code, sh.name, n2.Flags))
					wires = append(wires, refcodec.EncodeMessage(g.hdr, []refcodec.Node{n2}))
					parsers = append(parsers, g.p)
				}
			}
		}
	}
	return
}

func min(a, b int) int {
	if a < b {
		return a
	}
	return b
}

// c06SameShape returns the wire image w with other identifiers and every octet of every leaf
// payload changed (codes, flags, lengths and nesting as in w).
func c06SameShape(w []byte, seq int) []byte {
	o := append([]byte{}, w...)
	o[19] ^= byte(seq + 1)
	isGroup := map[uint32]bool{}
	for _, g := range c06Alpha.Groups {
		isGroup[g.Code] = true
	}
	var walk func(lo, hi int)
	walk = func(lo, hi int) {
		for off := lo; off+8 <= hi; {
			code := uint32(o[off])<<24 | uint32(o[off+1])<<16 | uint32(o[off+2])<<8 | uint32(o[off+3])
			l := int(o[off+5])<<16 | int(o[off+6])<<8 | int(o[off+7])
			hl := 8
			if o[off+4]&0x80 != 0 {
				hl = 12
			}
			if l < hl || off+l > hi {
				return
			}
			if isGroup[code] && o[off+4]&0x80 == 0 {
				walk(off+hl, off+l)
			} else {
				for i := off + hl; i < off+l; i++ {
					o[i] ^= 0x5A + byte(seq)
				}
			}
			off += (l + 3) &^ 3
		}
	}
	walk(20, len(o))
	return o
}

// c06Follow builds a follow-up message: kind 0 same size as ref, 1 larger pooled, 2 unpooled.
func c06Follow(refLen, kind, seq int) []byte {
	body := refLen - 20
	switch kind {
	case 1:
		body = 900
	case 2:
		body = 1500
	}
	if body < 8 {
		body = 8
	}
	p := make([]byte, body-8)
	for i := range p {
		p[i] = 0xEE ^ byte(seq*16+i%5)
	}
	hdr := refcodec.Header{Version: 1, Flags: 0x80, Code: 777, App: 0, HbH: 2, E2E: uint32(seq + 10)}
	if seq%2 == 1 && len(p) >= 40 {
		// every other follow-up carries its bytes inside a Grouped AVP of three members (same total
		// size): a later decode that builds member lists of its own
		q := p[:len(p)-36]
		k := (len(q) / 2) &^ 3
		return refcodec.EncodeMessage(hdr, []refcodec.Node{{Code: c06Alpha.Groups[0].Code, Flags: 0x40, Group: true, Children: []refcodec.Node{
			{Code: c06Alpha.Undef[0], Payload: q[:k]}, {Code: c06Alpha.Undef[1], Flags: 0x80, Vendor: 4242, Payload: q[k : len(q)-4]}, {Code: c06Alpha.Undef[0], Payload: p[len(p)-12:]}}}})
	}
	return refcodec.EncodeMessage(hdr, []refcodec.Node{{Code: c06Alpha.Undef[0], Payload: p}})
}

type c06Snap struct {
	wire []byte
	str  string
}

func c06Take(m *diam.Message) (s c06Snap, err string) {
	defer func() {
		if r := recover(); r != nil {
			err = fmt.Sprint("panic while inspecting the retained message: ", r)
		}
	}()
	// render first, then forward: re-serialising (what a relay does with a message it keeps) must
	// not change the message either - in particular not the header it arrived with
	str := fmt.Sprintf("%s | header %+v", m.String(), *m.Header)
	b, e := m.Serialize()
	if e != nil {
		return s, e.Error()
	}
	// ... and an answer is built from it (a deferred answer, composed while the connection goes on
	// receiving): that must not change the request either
	if a := m.Answer(2001); a != nil {
		_, _ = a.Serialize()
	}
	// ... and it is dumped for a log (the multi-line rendering)
	_ = m.PrettyDump()
	// ... and it is searched (read-only lookups by the handler or by whoever it was handed to)
	for _, a := range m.AVP {
		_, _ = m.FindAVP(a.Code, a.VendorID)
		_, _ = m.FindAVPs(a.Code, a.VendorID)
		_, _ = m.FindAVPsWithPath([]interface{}{a.Code}, a.VendorID)
		if g, ok := a.Data.(*diam.GroupedAVP); ok {
			for _, k := range g.AVP {
				_, _ = m.FindAVPsWithPath([]interface{}{a.Code, k.Code}, 0)
			}
		}
	}
	if after := fmt.Sprintf("%s | header %+v", m.String(), *m.Header); after != str {
		return s, fmt.Sprintf("the retained message changed when it was re-serialised / answered / dumped / searched: before %q, after %q", clip(str), clip(after))
	}
	return c06Snap{wire: b, str: str}, ""
}

func c06Scenarios(tier string) []*Scenario {
	c06Setup()
	bound := 2
	if tier == "thorough" {
		bound = 4 // the unbounded space does not finish in 25 minutes (2.3e8 executions explored, then cut off)
	}
	if v := os.Getenv("C06_BOUND"); v != "" {
		bound, _ = strconv.Atoi(v)
	}
	out := []*Scenario{{Name: "histories", Seq: func(r *SeqResult) { c06Histories(r, tier == "thorough") }},
		{Name: "histories/unmarshal-into-a-reused-struct", Seq: c06Unmarshal},
		{Name: "histories/a-later-message-is-edited", Seq: c06EditLater},
		{Name: "histories/retained-while-a-large-message-is-in-flight", Seq: c06InFlight},
		{Name: "histories/MessageBufferLength=4096", Seq: c06BigBuffer}}
	names, wires := c06Firsts()
	for i, n := range names {
		if tier != "thorough" && !(n == "addr-e164" || n == "unknown" || n == "ipv4" || n == "group-of-all" || n == "utf8") {
			continue
		}
		b := bound
		if tier == "thorough" {
			// the schedule space does not depend on the retained shape (3.06e6 executions each at
			// bound 4): the shapes added later for the sequential histories - deep nestings, whose
			// renderings are cubic in depth, and the group widths - are scheduled at a lower bound
			switch {
			case strings.HasPrefix(n, "group-nested-"):
				b = 2
			case strings.HasPrefix(n, "group-of-") && n != "group-of-all" && n != "group-of-16-members":
				b = 3
			}
		}
		out = append(out, c06Sched(n, wires[i], b))
	}
	return out
}

// c06Histories: sequential histories under the deterministic (always reusing) pool.
func c06Histories(r *SeqResult, thorough bool) {
	names, wires := c06Firsts()
	maxLen := 3
	type step struct{ kind, reader int }
	var seqs [][]step
	var rec func(cur []step)
	rec = func(cur []step) {
		if len(cur) > 0 {
			seqs = append(seqs, append([]step{}, cur...))
		}
		if len(cur) == maxLen {
			return
		}
		for k := 0; k < 3; k++ {
			for rd := 0; rd < 2; rd++ {
				rec(append(cur, step{k, rd}))
			}
		}
	}
	rec(nil)
	oddNames, oddWires, oddParsers := c06OddFirsts()
	nReg := len(names)
	names = append(names, oddNames...)
	wires = append(wires, oddWires...)
	parsers := append(make([]*dict.Parser, nReg), oddParsers...)
	shortSeqs := [][]step{{{0, 0}}, {{0, 1}}, {{1, 0}}, {{0, 0}, {0, 1}}, {{3, 0}}, {{3, 1}}, {{3, 1}, {3, 0}}}
	// kind 3: a later message of the SAME shape as the retained one (same codes, same lengths) whose
	// leaf payloads differ in every octet - state a type's decoder keeps between calls shows here
	seqs = append(append([][]step{}, seqs...), []step{{3, 0}}, []step{{3, 1}}, []step{{3, 1}, {3, 0}}, []step{{0, 0}, {3, 1}})
	for i, name := range names {
		w := wires[i]
		use := seqs
		if i >= nReg {
			use = shortSeqs
		}
		for _, sq := range use {
			sq := sq
			var viol string
			s := vs.Run(nil, false, 0, false, func() {
				// two independent byte streams ("readers")
				var streams [2][]byte
				streams[0] = append(streams[0], w...)
				for j, st := range sq {
					if st.kind == 3 && parsers[i] == nil {
						streams[st.reader] = append(streams[st.reader], c06SameShape(w, j)...)
						continue
					}
					streams[st.reader] = append(streams[st.reader], c06Follow(len(w), st.kind%3, j)...)
				}
				rd := [2]*bytes.Reader{bytes.NewReader(streams[0]), bytes.NewReader(streams[1])}
				p1 := c06Dict.P
				if parsers[i] != nil {
					p1 = parsers[i]
				}
				m1, err := diam.ReadMessage(rd[0], p1)
				if err != nil && m1 == nil {
					if i >= nReg {
						return // an odd payload the decoder rejects is never retained
					}
					viol = "first message unreadable: " + err.Error()
					return
				}
				// (a message handed out TOGETHER with an error is handed out all the same: retained)
				snap, e := c06Take(m1)
				if e != "" {
					viol = e
					return
				}
				if i < nReg && !bytes.Equal(snap.wire, w) {
					viol = "first message does not re-serialise to its wire image"
					return
				}
				for j, st := range sq {
					if _, err := diam.ReadMessage(rd[st.reader], c06Dict.P); err != nil && !(st.kind == 3 && parsers[i] == nil) {
						// (a same-shape follow-up carries arbitrary octets under typed codes: its decoder may
						// refuse them - the retained message must not change either way)
						viol = fmt.Sprintf("follow-up read %d failed: %v", j, err)
						return
					}
					now, e := c06Take(m1)
					if e != "" {
						viol = e
						return
					}
					if !bytes.Equal(now.wire, snap.wire) || now.str != snap.str {
						viol = fmt.Sprintf("the retained message changed after later read %d (kind %d on reader %d): String() before %q, after %q", j+1, st.kind, st.reader, clip(snap.str), clip(now.str))
						return
					}
				}
			})
			s.Teardown()
			r.Cases++
			r.Distinct++
			if r.Sample == "" {
				r.Sample = fmt.Sprintf("retain %s, then reads %v (kind 0 same size / 1 larger pooled / 2 unpooled; reader 0 same / 1 other)", name, sq)
			}
			if viol != "" && r.Violation == "" {
				r.Violation = fmt.Sprintf("retained message %q: %s", name, viol)
				r.Case = map[string]interface{}{"first": name, "steps": fmt.Sprint(sq)}
			}
		}
	}
}

// c06Unmarshal: the application unmarshals the retained message into a struct and later
// unmarshals a message of the same shape (other values) into the SAME struct value, without
// zeroing it - for every slice- or pointer-carrying field shape (*diam.AVP, diam.AVP, []*diam.AVP,
// the datatype itself, a pointer to it). The retained message must not change.
func c06Unmarshal(r *SeqResult) {
	c06Setup()
	hdr := refcodec.Header{Version: 1, Flags: 0x80, Code: 777, App: 0, HbH: 1, E2E: 1}
	type variant struct {
		k    atoms.Kind
		a, b atoms.Val
	}
	vars := []variant{
		{atoms.KAddr, atoms.Val{K: atoms.KAddr, Fam: 1, S: []byte{10, 1, 2, 3}}, atoms.Val{K: atoms.KAddr, Fam: 1, S: []byte{10, 9, 9, 9}}},
		{atoms.KOctet, atoms.Val{K: atoms.KOctet, S: []byte("octets-abcdef")}, atoms.Val{K: atoms.KOctet, S: []byte("OCTETS-UVWXYZ")}},
		{atoms.KUTF8, atoms.Val{K: atoms.KUTF8, S: []byte("utf8-string")}, atoms.Val{K: atoms.KUTF8, S: []byte("UTF8-STRING")}},
		{atoms.KIdent, atoms.Val{K: atoms.KIdent, S: []byte("host.example")}, atoms.Val{K: atoms.KIdent, S: []byte("peer.example")}},
		{atoms.KTime, atoms.Val{K: atoms.KTime, U: 1700000000}, atoms.Val{K: atoms.KTime, U: 1800000000}},
		{atoms.KU64, atoms.Val{K: atoms.KU64, U: 0x0102030405060708}, atoms.Val{K: atoms.KU64, U: 0x1112131415161718}},
		{atoms.KU32, atoms.Val{K: atoms.KU32, U: 7}, atoms.Val{K: atoms.KU32, U: 2222}},
		{atoms.KIPv4, atoms.Val{K: atoms.KIPv4, S: []byte{192, 168, 7, 9}}, atoms.Val{K: atoms.KIPv4, S: []byte{172, 16, 1, 1}}},
	}
	avpT := reflect.TypeOf(diam.AVP{})
	for _, v := range vars {
		d, ok := c06Alpha.Plain[v.k]
		if !ok {
			continue
		}
		mk := func(val atoms.Val, hbh uint32) []byte {
			h := hdr
			h.HbH = hbh
			return refcodec.EncodeMessage(h, []refcodec.Node{{Code: d.Code, Flags: 0x40, Payload: val.Ref()}})
		}
		holder := reflect.TypeOf(v.a.Lib())
		shapes := []struct {
			name string
			t    reflect.Type
		}{
			{"*diam.AVP", reflect.PtrTo(avpT)}, {"diam.AVP", avpT}, {"[]*diam.AVP", reflect.SliceOf(reflect.PtrTo(avpT))},
			{holder.String(), holder}, {"*" + holder.String(), reflect.PtrTo(holder)},
		}
		for _, sh := range shapes {
			st := reflect.StructOf([]reflect.StructField{{Name: "F", Type: sh.t, Tag: reflect.StructTag(fmt.Sprintf(`avp:"%s"`, d.Name))}})
			var viol string
			s := vs.Run(nil, false, 0, false, func() {
				stream := append(append(mk(v.a, 1), mk(v.b, 2)...), mk(v.b, 3)...)
				rd := bytes.NewReader(stream)
				m1, err := diam.ReadMessage(rd, c06Dict.P)
				if err != nil {
					viol = "first message unreadable: " + err.Error()
					return
				}
				snap, e := c06Take(m1)
				if e != "" {
					viol = e
					return
				}
				dst := reflect.New(st)
				if err := m1.Unmarshal(dst.Interface()); err != nil {
					return // this holder shape is not supported for this type: nothing to retain
				}
				for j := 0; j < 2; j++ {
					mk2, err := diam.ReadMessage(rd, c06Dict.P)
					if err != nil {
						viol = "follow-up unreadable: " + err.Error()
						return
					}
					_ = mk2.Unmarshal(dst.Interface()) // the same struct value, not zeroed
					now, e := c06Take(m1)
					if e != "" {
						viol = e
						return
					}
					if !bytes.Equal(now.wire, snap.wire) || now.str != snap.str {
						viol = fmt.Sprintf("the retained message changed after later message %d was unmarshalled into the struct value the retained one had been unmarshalled into: String() before %q, after %q", j+1, clip(snap.str), clip(now.str))
						return
					}
				}
			})
			s.Teardown()
			r.Cases++
			r.Distinct++
			if r.Sample == "" {
				r.Sample = fmt.Sprintf("retain a message with %s, Unmarshal it into struct{ F %s }, then Unmarshal two later messages into the same struct value", d.Name, sh.name)
			}
			if viol != "" && r.Violation == "" {
				r.Violation = fmt.Sprintf("retained message with %s, struct{ F %s `avp:%q` }: %s", d.Name, sh.name, d.Name, viol)
				r.Case = map[string]interface{}{"avp": d.Name, "field": sh.name}
			}
		}
	}
}

// c06BigBuffer: the exported tuning variable diam.MessageBufferLength raised to 4 KiB; retained
// messages carry 1000..3000-byte payloads of every slice-backed kind, i.e. bodies that are pooled
// only under the enlarged setting.
func c06BigBuffer(r *SeqResult) {
	c06Setup()
	old := diam.MessageBufferLength
	diam.MessageBufferLength = 4096
	defer func() { diam.MessageBufferLength = old }()
	hdr := refcodec.Header{Version: 1, Flags: 0x80, Code: 777, App: 0, HbH: 1, E2E: 1}
	mk := func(n refcodec.Node) []byte { return refcodec.EncodeMessage(hdr, []refcodec.Node{n}) }
	fill := func(l int, b byte) []byte { return bytes.Repeat([]byte{b}, l) }
	type first struct {
		name string
		wire func(fillByte byte) []byte
	}
	var firsts []first
	for _, l := range []int{1000, 1023, 1024, 1025, 1500, 3000} {
		l := l
		firsts = append(firsts,
			first{fmt.Sprintf("unknown/%d", l), func(b byte) []byte { return mk(refcodec.Node{Code: c06Alpha.Undef[0], Payload: fill(l, b)}) }},
			first{fmt.Sprintf("octetstring/%d", l), func(b byte) []byte {
				return mk(refcodec.Node{Code: c06Alpha.Plain[atoms.KOctet].Code, Flags: 0x40, Payload: fill(l, b)})
			}},
			first{fmt.Sprintf("address-other-family/%d", l), func(b byte) []byte {
				return mk(refcodec.Node{Code: c06Alpha.Plain[atoms.KAddr].Code, Flags: 0x40, Payload: append([]byte{0, 8}, fill(l, b)...)})
			}},
			first{fmt.Sprintf("group-of-unknown/%d", l), func(b byte) []byte {
				return mk(refcodec.Node{Code: c06Alpha.Groups[0].Code, Flags: 0x40, Group: true, Children: []refcodec.Node{{Code: c06Alpha.Undef[0], Payload: fill(l, b)}}})
			}})
	}
	for _, f := range firsts {
		for _, other := range []bool{false, true} {
			f, other := f, other
			var viol string
			s := vs.Run(nil, false, 0, false, func() {
				a, b := f.wire(0xAA), f.wire(0x55)
				streams := [2][]byte{a, nil}
				idx := 0
				if other {
					idx = 1
				}
				streams[idx] = append(streams[idx], b...)
				streams[idx] = append(streams[idx], b...)
				rd := [2]*bytes.Reader{bytes.NewReader(streams[0]), bytes.NewReader(streams[1])}
				m1, err := diam.ReadMessage(rd[0], c06Dict.P)
				if err != nil {
					viol = "first message unreadable: " + err.Error()
					return
				}
				snap, e := c06Take(m1)
				if e != "" {
					viol = e
					return
				}
				for j := 0; j < 2; j++ {
					if _, err := diam.ReadMessage(rd[idx], c06Dict.P); err != nil {
						viol = "follow-up unreadable: " + err.Error()
						return
					}
					now, e := c06Take(m1)
					if e != "" {
						viol = e
						return
					}
					if !bytes.Equal(now.wire, snap.wire) || now.str != snap.str {
						viol = fmt.Sprintf("with diam.MessageBufferLength = 4096 the retained message changed after later read %d (other reader: %v)", j+1, other)
						return
					}
				}
			})
			s.Teardown()
			r.Cases++
			r.Distinct++
			if r.Sample == "" {
				r.Sample = "MessageBufferLength=4096, retain " + f.name + ", then two same-size reads"
			}
			if viol != "" && r.Violation == "" {
				r.Violation = fmt.Sprintf("retained message %q: %s", f.name, viol)
				r.Case = map[string]interface{}{"first": f.name, "other": other}
			}
		}
	}
}

func clip(s string) string {
	s = strings.ReplaceAll(s, "\n", " ")
	if len(s) > 220 {
		return s[:220] + "..."
	}
	return s
}

type c06State struct {
	retained *diam.Message
	snap     c06Snap
	err      string
	handled  int
}

var c06st *c06State

// c06Sched: the real reader loops of two connections, a retaining handler, a writer.
func c06Sched(name string, first []byte, bound int) *Scenario {
	body := func() {
		vsync.PoolChoice = true
		st := &c06State{}
		c06st = st
		mux := diam.NewServeMux()
		mux.HandleFunc("ALL", func(c diam.Conn, m *diam.Message) {
			st.handled++
			if m.Header.HopByHopID == 1 && st.retained == nil {
				st.retained = m
				st.snap, st.err = c06Take(m)
				vs.Event("handler retains the first message of connection A")
			}
		})
		a, b := vnet.NewConn("A"), vnet.NewConn("B")
		a.Pieces, b.Pieces = 1, 1
		a.Deliver(first)
		a.Deliver(c06Follow(len(first), 0, 1))
		b.Deliver(c06Follow(len(first), 0, 2))
		b.Deliver(c06Follow(len(first), 1, 3))
		ca, _ := diam.NewConn(a, "peerA", mux, c06Dict.P)
		diam.NewConn(b, "peerB", mux, c06Dict.P)
		vs.GoNamed("writer", false, func() {
			m := diam.NewMessage(777, 0x80, 0, 9, 9, c06Dict.P)
			m.NewAVP(c06Alpha.Undef[0], 0, 0, atoms.Val{K: atoms.KUnknown, S: bytes.Repeat([]byte{0xAA}, len(first))}.Lib())
			m.WriteTo(ca)
		})
	}
	check := func(s *vs.Sched) string {
		vsync.PoolChoice = false
		st := c06st
		if st.err != "" {
			return st.err
		}
		if st.retained == nil || st.handled != 4 {
			return fmt.Sprintf("harness: %d of 4 messages handled, retained=%v, panics %v", st.handled, st.retained != nil, s.Panics())
		}
		now, e := c06Take(st.retained)
		if e != "" {
			return e
		}
		if !bytes.Equal(st.snap.wire, first) {
			return "the first message did not re-serialise to its wire image when the handler received it"
		}
		if !bytes.Equal(now.wire, st.snap.wire) || now.str != st.snap.str {
			return fmt.Sprintf("the message retained by the handler changed while the connections went on receiving: String() when returned %q, at quiescence %q", clip(st.snap.str), clip(now.str))
		}
		return ""
	}
	return &Scenario{Name: "schedules/retain-" + name, Body: body, Check: check, Bound: bound,
		Outcome: func(s *vs.Sched) string { return fmt.Sprintf("handled=%d", c06st.handled) }}
}

var _ = dict.Default

// c06EditLater: the retained message is followed by a second message (same wire image, or one
// with member-less groups) which the application then EDITS in every ordinary way - a member
// added to each of its groups at every depth (member-less ones included), a top-level AVP added,
// its header changed. Two decoded messages share nothing: the retained one must not change.
func c06EditLater(r *SeqResult) {
	names, wires := c06Firsts()
	parsers := make([]*dict.Parser, len(names))
	for i := range parsers {
		parsers[i] = c06Dict.P
	}
	empty := func(code uint32) refcodec.Node { return refcodec.Node{Code: code, Flags: 0x40, Group: true} }
	hdr := refcodec.Header{Version: 1, Flags: 0x80, Code: 257, App: 0, HbH: 1, E2E: 1}
	for _, x := range []struct {
		name  string
		nodes []refcodec.Node
	}{
		{"empty-group", []refcodec.Node{ident(264, "h"), empty(279)}},
		{"empty-group-in-group", []refcodec.Node{ident(264, "h"), {Code: 284, Flags: 0x40, Group: true, Children: []refcodec.Node{empty(279), ident(280, "p")}}}},
		{"two-empty-groups", []refcodec.Node{empty(279), empty(284), {Code: 260, Flags: 0xC0, Vendor: 10415, Group: true}}},
	} {
		names = append(names, x.name)
		wires = append(wires, refcodec.EncodeMessage(hdr, x.nodes))
		parsers = append(parsers, dict.Default)
	}
	var edit func(avps []*diam.AVP, n *int)
	edit = func(avps []*diam.AVP, n *int) {
		for _, a := range avps {
			if g, ok := a.Data.(*diam.GroupedAVP); ok {
				edit(g.AVP, n)
				g.AddAVP(diam.NewAVP(avp.ResultCode, avp.Mbit, 0, datatype.Unsigned32(5012)))
				*n++
			}
		}
	}
	for i, name := range names {
		for _, other := range []int{i, len(names) - 1, len(names) - 3} {
			w, w2 := wires[i], wires[other]
			var viol string
			s := vs.Run(nil, false, 0, false, func() {
				m1, err := diam.ReadMessage(bytes.NewReader(w), parsers[i])
				if err != nil {
					return
				}
				snap, e := c06Take(m1)
				if e != "" {
					viol = e
					return
				}
				m2, err := diam.ReadMessage(bytes.NewReader(w2), parsers[other])
				if err != nil {
					return
				}
				groups := 0
				edit(m2.AVP, &groups)
				m2.NewAVP(avp.ResultCode, avp.Mbit, 0, datatype.Unsigned32(2001))
				m2.Header.HopByHopID, m2.Header.CommandFlags = 0xdead, 0
				_, _ = m2.Serialize()
				now, e := c06Take(m1)
				if e != "" {
					viol = e
					return
				}
				if !bytes.Equal(now.wire, snap.wire) || now.str != snap.str {
					viol = fmt.Sprintf("the retained message changed when a message read after it (%s) was edited (%d groups got a member, one top-level AVP added, header changed): String() before %q, after %q", names[other], groups, clip(snap.str), clip(now.str))
				}
			})
			s.Teardown()
			r.Cases++
			r.Distinct++
			if viol != "" && r.Violation == "" {
				r.Violation = fmt.Sprintf("retained message %q: %s", name, viol)
				r.Case = map[string]interface{}{"first": name, "second": names[other]}
			}
		}
	}
	if r.Sample == "" {
		r.Sample = "retain a message, read another one (the same image / one with member-less groups), edit the second in every ordinary way"
	}
}

// c06InFlight: the message that will be retained is read on one connection WHILE another
// connection is in the middle of reading a large message (its header has arrived, its body is
// still trickling in): the second read runs at the one point where the first is suspended inside
// its source. The large read then completes, further messages are read on either connection, and
// the retained message must still be what it was.
type c06Suspend struct {
	data  []byte
	pos   int
	at    int // offset at which the source suspends the read once
	fired bool
	f     func()
}

func (r *c06Suspend) Read(p []byte) (int, error) {
	if r.pos >= len(r.data) {
		return 0, io.EOF
	}
	if !r.fired && r.pos >= r.at {
		r.fired = true
		r.f()
	}
	end := len(r.data)
	if !r.fired && r.at < end {
		end = r.at
	}
	if end-r.pos > len(p) {
		end = r.pos + len(p)
	}
	n := copy(p, r.data[r.pos:end])
	r.pos += n
	return n, nil
}

func c06InFlight(r *SeqResult) {
	names, wires := c06Firsts()
	for i, name := range names {
		for _, bigBody := range []int{1100, 4096, 70000} {
			for _, at := range []int{20, 20 + 8, 20 + 600} {
				for _, follow := range [][]int{{0}, {1}, {0, 0}, {2, 0}} {
					w := wires[i]
					var viol string
					s := vs.Run(nil, false, 0, false, func() {
						big := c06Follow(0, 2, 7)
						if bigBody != 1500 {
							p := make([]byte, bigBody-8)
							big = refcodec.EncodeMessage(refcodec.Header{Version: 1, Flags: 0x80, Code: 777, App: 0, HbH: 9, E2E: 9}, []refcodec.Node{{Code: c06Alpha.Undef[0], Payload: p}})
						}
						var m1 *diam.Message
						var snap c06Snap
						var streamB []byte
						streamB = append(streamB, w...)
						for j, k := range follow {
							streamB = append(streamB, c06Follow(len(w), k, j)...)
						}
						rdB := bytes.NewReader(streamB)
						src := &c06Suspend{data: big, at: at}
						src.f = func() {
							var err error
							if m1, err = diam.ReadMessage(rdB, c06Dict.P); err != nil {
								viol = "first message unreadable: " + err.Error()
								return
							}
							var e string
							if snap, e = c06Take(m1); e != "" {
								viol = e
							}
						}
						if _, err := diam.ReadMessage(src, c06Dict.P); err != nil && viol == "" {
							viol = "the large message cannot be read: " + err.Error()
						}
						if viol != "" || m1 == nil {
							return
						}
						// the later reads happen both ways: plainly, and again while another large message is in
						// flight (so that they draw a different buffer from the pool than the large read holds)
						readFollow := func(j int) {
							if _, err := diam.ReadMessage(rdB, c06Dict.P); err != nil {
								viol = fmt.Sprintf("follow-up read %d failed: %v", j, err)
								return
							}
							now, e := c06Take(m1)
							if e != "" {
								viol = e
								return
							}
							if !bytes.Equal(now.wire, snap.wire) || now.str != snap.str {
								viol = fmt.Sprintf("the message was read while a %d-byte message was in flight on another connection (suspended %d bytes in); it changed after later read %d: String() before %q, after %q", 20+bigBody, at, j+1, clip(snap.str), clip(now.str))
							}
						}
						for j := range follow {
							if j%2 == 0 {
								src2 := &c06Suspend{data: big, at: at}
								src2.f = func() { readFollow(j) }
								if _, err := diam.ReadMessage(src2, c06Dict.P); err != nil && viol == "" {
									viol = "the second large message cannot be read: " + err.Error()
								}
							} else {
								readFollow(j)
							}
							if viol != "" {
								return
							}
						}
					})
					s.Teardown()
					r.Cases++
					r.Distinct++
					if viol != "" && r.Violation == "" {
						r.Violation = fmt.Sprintf("retained message %q: %s", name, viol)
						r.Case = map[string]interface{}{"first": name, "big": bigBody, "at": at, "follow": follow}
					}
				}
			}
		}
	}
	if r.Sample == "" {
		r.Sample = "retain a message read while a large message is in flight on another connection"
	}
}
