package bcheck

import (
	"time"
	"bytes"
	"errors"
	"fmt"
	"sort"
	"strings"

	"github.com/fiorix/go-diameter/v4/diam"
	"github.com/fiorix/go-diameter/v4/diam/avp"
	"github.com/fiorix/go-diameter/v4/diam/datatype"
	"github.com/fiorix/go-diameter/v4/diam/dict"
	"verif/internal/refcodec"
	"verif/vnet"
	vs "verif/vsched"
)

// C07 — concurrent and retried writes deliver each message whole, exactly once.

func init() {
	Registry["C07"] = &Check{
		Scenarios: c07Scenarios,
		Rule: "Messages of 36..1100 bytes whose last AVP takes 1..3 padding octets, written after a longer message of another shape through the same connection: the transport holds exactly the serialisation. A multistream association serving requests on streams 3 and 5 while an application goroutine sends a stream-less request with retries through a transport that takes 10 octets and reports a temporary error (per stream, the octets written are whole messages). A Server with ReadTimeout 500 ms and no WriteTimeout whose handler answers through a transport that stalls 900 ms mid-write, an application goroutine writing behind it (384 B and 5 KiB messages, virtual clock). schedules: W in {2,3} writer threads, 1-2 messages each with sizes from {200 B, 2 KiB, 5 KiB} (below/above the 1 KiB pooled serialisation buffer and the 4 KiB bufio buffer) written to one diam.Conn through Message.WriteTo, Conn.Write with caller-serialised bytes and Message.WriteToStreamWithRetry (rotating per writer and message) over an in-memory transport whose Write stalls between two pieces; every schedule up to the preemption bound (W=2: bound 2 quick / unbounded thorough; W=3: bound 2 / 3), happens-before state caching. faults: every sequence of write outcomes (bytes accepted k in {0,1,n/2,n-1,n} x {temporary - alternately a plain one and one that is also a timeout -, permanent, nil}) of length <= retries+1 for retries 0..3, and of length <=3 for the retry budgets 2^31, 2^32, 2^63, 2^64-2 and 2^64-1 (what a caller passes to mean 'keep retrying'), against writeRetry (io.Writer) and writeStreamRetry (MultistreamWriter), and through a diam.Conn over a faulting transport with two messages of sizes {200+2048, 5000+200, 200+5000, 4116+6000} (below and above the connection's 4 KiB write buffer): the wire must hold every message whose write returned nil, whole, once and in order, a failed write contributes a prefix of its message, and nothing may follow a torn message. write-timeout: two writers on a connection served with WriteTimeout 800 ms over a transport that stalls the first write 600 ms and the second 400 ms (virtual clock, preemption bound 3): both succeed, both messages whole. stale-connection: a write to a connection that has ended, after a new connection was created, never reaches the new connection's transport. close-during-write: one writer (200 / 4096 / 5120 bytes) whose transport write stalls half way and an application goroutine closing the connection at every instant (preemption bound 3): the transport never receives more than a prefix of the message. sizes: every message size 32..8300 (multiples of four) through WriteTo / Conn.Write / WriteToWithRetry on a fault-free connection: the transport holds exactly the message as soon as the write has returned.",
		Assume: []string{"data-race freedom between visible operations (audited separately with -race)", "the source rewriter and shims preserve Go semantics (shim unit tests)"},
		QuickBudget: 100, ThoroughBudget: 1500,
	}
}

type c07State struct {
	conn *vnet.Conn
	errs []string
}

var c07st *c07State

func c07msg(w, seq, size int) *diam.Message {
	m := diam.NewMessage(280, 0x80, 0, uint32(w+1), uint32(seq+1), dict.Default)
	m.NewAVP(avp.OriginHost, avp.Mbit, 0, datatype.DiameterIdentity(strings.Repeat(string(rune('a'+w)), size-28)))
	return m
}

func c07Scenarios(tier string) []*Scenario {
	var out []*Scenario
	thorough := tier == "thorough"
	type plan [][]int // per writer: sizes of its messages
	plans := []plan{
		{{200, 2048}, {5120, 200}},
		{{2048, 5120}, {2048, 200}},
		{{5120, 5120}, {200, 200}},
		{{200}, {2048}, {5120}},
		{{5120}, {5120}, {200, 200}},
	}
	for pi, pl := range plans {
		pl := pl
		bound := 2
		if thorough {
			bound = vs.Unbounded
			if len(pl) == 3 {
				bound = 3
			}
		}
		name := fmt.Sprintf("writers/%d:%v/pieces2", pi, pl)
		out = append(out, c07Sched(name, pl, 2, bound, len(pl) == 3 || thorough, false, ""))
	}
	// cache validation (thorough): the smallest plan with and without state caching
	if thorough {
		small := plan{{200}, {2048}}
		out = append(out, c07Sched("writers/validate-cached", small, 2, vs.Unbounded, false, false, "writers/validate-uncached"))
		out = append(out, c07Sched("writers/validate-uncached", small, 2, vs.Unbounded, false, true, ""))
	}
	out = append(out, &Scenario{Name: "faults/writeRetry", Seq: func(r *SeqResult) { c07Faults(r, false) }})
	out = append(out, &Scenario{Name: "faults/writeStreamRetry", Seq: func(r *SeqResult) { c07Faults(r, true) }})
	out = append(out, &Scenario{Name: "faults/through-conn", Seq: c07ConnFaults})
	out = append(out, &Scenario{Name: "sizes/single-writer", Seq: c07Sizes})
	out = append(out, &Scenario{Name: "sizes/padding-after-another-message", Seq: c07Padding})
	out = append(out, &Scenario{Name: "stale-connection-write", Seq: c07StaleConn})
	out = append(out, c07WriteTimeout(3))
	for _, size := range []int{384, 5120} {
		out = append(out, c07ReadTimeoutStall(size, 3))
	}
	out = append(out, c07StreamRetry(2))
	for _, size := range []int{200, 4096, 5120} {
		out = append(out, c07CloseDuringWrite(size, 3))
	}
	return out
}

func c07Sched(name string, pl [][]int, pieces, bound int, split, nocache bool, pair string) *Scenario {
	// expected wire images, computed once outside the scheduler
	expect := map[[2]int][]byte{}
	for w, sizes := range pl {
		for seq, sz := range sizes {
			b, _ := c07msg(w, seq, sz).Serialize()
			expect[[2]int{w, seq}] = b
		}
	}
	body := func() {
		st := &c07State{}
		c07st = st
		conn := vnet.NewConn("C")
		conn.Pieces = pieces
		st.conn = conn
		c, err := diam.NewConn(conn, "peer", diam.NewServeMux(), dict.Default)
		if err != nil {
			st.errs = append(st.errs, "NewConn: "+err.Error())
			return
		}
		for w := range pl {
			w := w
			vs.GoNamed(fmt.Sprintf("writer%d", w), false, func() {
				for seq, sz := range pl[w] {
					m := c07msg(w, seq, sz)
					var n int64
					var err error
					switch (w + seq) % 3 {
					case 0:
						n, err = m.WriteTo(c)
					case 1: // the Conn's own Write with a message serialised by the caller
						b, _ := m.Serialize()
						var k int
						k, err = c.Write(b)
						n = int64(k)
					default: // the explicit-stream and retry entry points
						var k int
						k, err = m.WriteToStreamWithRetry(c, 0, 1)
						n = int64(k)
					}
					if err != nil || int(n) != m.Len() {
						st.errs = append(st.errs, fmt.Sprintf("writer %d message %d: WriteTo returned (%d, %v), expected (%d, nil)", w, seq, n, err, m.Len()))
					}
				}
			})
		}
	}
	check := func(s *vs.Sched) string {
		st := c07st
		if len(st.errs) > 0 {
			return strings.Join(st.errs, "; ")
		}
		if p := s.Panics(); len(p) > 0 {
			return "panic: " + strings.Join(p, "; ")
		}
		msgs, tail := refcodec.SplitStream(st.conn.Out)
		if tail != "eof" {
			return fmt.Sprintf("recorded stream does not frame into whole messages (%s after %d messages): writes were interleaved or truncated", tail, len(msgs))
		}
		next := make([]int, len(pl))
		total := 0
		for _, sizes := range pl {
			total += len(sizes)
		}
		if len(msgs) != total {
			return fmt.Sprintf("%d messages on the wire, %d were written", len(msgs), total)
		}
		for i, m := range msgs {
			h, _ := refcodec.DecodeHeader(m)
			w := int(h.HbH) - 1
			if w < 0 || w >= len(pl) {
				return fmt.Sprintf("message %d on the wire has an unknown writer id %d (corrupted)", i, h.HbH)
			}
			seq := int(h.E2E) - 1
			if seq != next[w] {
				return fmt.Sprintf("writer %d: message %d on the wire where message %d was expected (order / duplicate / loss)", w, seq, next[w])
			}
			next[w]++
			if !bytes.Equal(m, expect[[2]int{w, seq}]) {
				return fmt.Sprintf("writer %d message %d arrived corrupted (bytes differ from what was serialised)", w, seq)
			}
		}
		return ""
	}
	outcome := func(s *vs.Sched) string {
		msgs, _ := refcodec.SplitStream(c07st.conn.Out)
		var o []string
		for _, m := range msgs {
			h, _ := refcodec.DecodeHeader(m)
			o = append(o, fmt.Sprintf("%d.%d", h.HbH, h.E2E))
		}
		return "wire order " + strings.Join(o, " ")
	}
	return &Scenario{Name: name, Body: body, Check: check, Outcome: outcome, Bound: bound, Split: split, NoCache: nocache, Pair: pair, Horizon: 0}
}

// ---- fault enumeration -----------------------------------------------------------

// tempErr is a transient write error; every other one handed out is also a timeout (EAGAIN on a
// send timeout, an expired write deadline) - still transient, still to be retried.
type tempErr struct{ timeout bool }

func (e tempErr) Error() string {
	if e.timeout {
		return "temporary write error (also a timeout)"
	}
	return "temporary write error"
}
func (e tempErr) Timeout() bool { return e.timeout }
func (tempErr) Temporary() bool { return true }

var errPermanent = errors.New("permanent write error")

type wOutcome struct {
	K    int // 0:0 1:1 2:n/2 3:n-1 4:n (of the bytes offered to this call)
	Kind int // 0 nil (only with K=4), 1 temporary, 2 permanent
}

// scriptWriter applies one scripted outcome per call.
type scriptWriter struct {
	script   []wOutcome
	calls    int
	accepted []byte
	offered  [][]byte
	streams  []uint
}

func (w *scriptWriter) apply(p []byte) (int, error) {
	w.offered = append(w.offered, append([]byte{}, p...))
	o := wOutcome{K: 4, Kind: 0}
	if w.calls < len(w.script) {
		o = w.script[w.calls]
	}
	w.calls++
	n := len(p)
	k := []int{0, 1, n / 2, n - 1, n}[o.K]
	if k > n {
		k = n
	}
	if k < 0 {
		k = 0
	}
	if o.Kind == 0 {
		k = n
	}
	w.accepted = append(w.accepted, p[:k]...)
	switch o.Kind {
	case 1:
		return k, tempErr{timeout: (w.calls+len(w.script))%2 == 1}
	case 2:
		return k, errPermanent
	}
	return k, nil
}

func (w *scriptWriter) Write(p []byte) (int, error) { return w.apply(p) }

type scriptStreamWriter struct{ scriptWriter }

func (w *scriptStreamWriter) WriteStream(p []byte, stream uint) (int, error) {
	w.streams = append(w.streams, stream)
	return w.apply(p)
}
func (w *scriptStreamWriter) CurrentWriterStream() uint { return 0 }
func (w *scriptStreamWriter) ResetWriterStream()        {}
func (w *scriptStreamWriter) SetWriterStream(uint) uint { return 0 }

func allScripts(maxLen int) [][]wOutcome {
	var alpha []wOutcome
	alpha = append(alpha, wOutcome{4, 0})
	for k := 0; k <= 4; k++ {
		alpha = append(alpha, wOutcome{k, 1}, wOutcome{k, 2})
	}
	var out [][]wOutcome
	var rec func(cur []wOutcome)
	rec = func(cur []wOutcome) {
		out = append(out, append([]wOutcome{}, cur...))
		if len(cur) == maxLen {
			return
		}
		for _, o := range alpha {
			rec(append(cur, o))
		}
	}
	rec(nil)
	return out
}

func c07Faults(r *SeqResult, stream bool) {
	seen := map[string]bool{}
	for _, size := range []int{200, 2048} {
		m := c07msg(0, 0, size)
		want, _ := m.Serialize()
		// retry budgets 0..3 with every outcome script up to the budget, and the large budgets a
		// caller passes to mean "keep retrying" (2^31, 2^32, 2^63, the maximum) with scripts of <=3
		for _, retries := range []uint{0, 1, 2, 3, 1 << 31, 1 << 32, 1 << 63, ^uint(0) - 1, ^uint(0)} {
			scriptLen := 3
			if retries <= 3 {
				scriptLen = int(retries) + 2
			}
			for _, sc := range allScripts(scriptLen) {
				var n int64
				var err error
				var sw *scriptWriter
				panicked := ""
				func() {
					defer func() {
						if p := recover(); p != nil {
							panicked = fmt.Sprint(p)
						}
					}()
					if stream {
						w := &scriptStreamWriter{scriptWriter{script: sc}}
						sw = &w.scriptWriter
						var nn int
						nn, err = m.WriteToStreamWithRetry(w, 5, retries)
						n = int64(nn)
					} else {
						w := &scriptWriter{script: sc}
						sw = w
						n, err = m.WriteToWithRetry(w, retries)
					}
				}()
				r.Cases++
				key := fmt.Sprintf("%d/%d/%v", size, retries, sc)
				if !seen[key] {
					seen[key] = true
					r.Distinct++
				}
				if r.Sample == "" && len(sc) == 2 {
					r.Sample = fmt.Sprintf("size=%d retries=%d script(K,Kind)=%v -> n=%d err=%v, %d calls", size, retries, sc, n, err, sw.calls)
				}
				v := ""
				if panicked != "" {
					v = "PANIC in the retry loop: " + panicked
				} else {
					v = c07FaultOracle(want, sc, retries, n, err, sw)
				}
				if v != "" && r.Violation == "" {
					r.Violation = fmt.Sprintf("%s (message of %d bytes, retries=%d, write outcomes (K,Kind)=%v; K indexes {0,1,n/2,n-1,n} bytes accepted, Kind 0 nil 1 temporary 2 permanent)", v, len(want), retries, sc)
					r.Case = map[string]interface{}{"size": size, "retries": retries, "script": sc, "stream": stream}
				}
			}
		}
	}
}

func c07FaultOracle(want []byte, sc []wOutcome, retries uint, n int64, err error, sw *scriptWriter) string {
	// reference model of the retry loop, from the property statement
	pos, calls := 0, 0
	var finalErr error
	for {
		o := wOutcome{4, 0}
		if calls < len(sc) {
			o = sc[calls]
		}
		rem := len(want) - pos
		k := []int{0, 1, rem / 2, rem - 1, rem}[o.K]
		if k > rem {
			k = rem
		}
		if k < 0 {
			k = 0
		}
		if o.Kind == 0 {
			k = rem
		}
		calls++
		pos += k
		if o.Kind == 0 {
			finalErr = nil
			break
		}
		if o.Kind == 2 {
			finalErr = errPermanent
			break
		}
		finalErr = tempErr{}
		if uint(calls) > retries { // budget: at most retries+1 calls
			break
		}
	}
	if !bytes.Equal(sw.accepted, want[:len(sw.accepted)]) {
		return "bytes accepted by the transport are not a prefix of the message (a byte was repeated or skipped on retry)"
	}
	if sw.calls != calls {
		return fmt.Sprintf("%d write calls, the retry contract allows exactly %d (no retry after a permanent error or beyond the budget)", sw.calls, calls)
	}
	if len(sw.accepted) != pos {
		return fmt.Sprintf("%d bytes reached the transport, expected %d", len(sw.accepted), pos)
	}
	if (err == nil) != (finalErr == nil) {
		return fmt.Sprintf("returned error %v, expected %v", err, finalErr)
	}
	if err == nil && !bytes.Equal(sw.accepted, want) {
		return "nil returned but the transport did not receive the whole message"
	}
	if int(n) != pos {
		return fmt.Sprintf("returned n=%d, but %d bytes were accepted", n, pos)
	}
	for i, s := range sw.streams {
		if s != 5 {
			return fmt.Sprintf("call %d went to stream %d, expected 5", i, s)
		}
	}
	return ""
}

// c07ConnFaults: the same outcome sequences through a real diam.Conn over a faulting
// transport (single default schedule: the quantifier is over fault sequences).
func c07ConnFaults(r *SeqResult) {
	scripts := allScripts(3)
	sort.Slice(scripts, func(i, j int) bool { return len(scripts[i]) < len(scripts[j]) })
	// message sizes below and above the 4 KiB write buffer of a connection
	for _, sizes := range [][2]int{{200, 2048}, {5000, 200}, {200, 5000}, {4096 + 20, 6000}} {
		m1 := c07msg(0, 0, sizes[0])
		m2 := c07msg(0, 1, sizes[1])
		b1, _ := m1.Serialize()
		b2, _ := m2.Serialize()
		for retries := uint(0); retries <= 2; retries++ {
			for _, sc := range scripts {
				sc := sc
				var res []error
				var conn *vnet.Conn
				s := vs.Run(nil, false, 0, false, func() {
					conn = vnet.NewConn("C")
					conn.Pieces = 1
					for _, o := range sc {
						var e error
						switch o.Kind {
						case 1:
							e = tempErr{timeout: len(conn.WScript)%2 == 1}
						case 2:
							e = errPermanent
						}
						conn.WScript = append(conn.WScript, vnet.WOutcome{N: -(o.K + 1), Err: e})
					}
					c, _ := diam.NewConn(conn, "peer", diam.NewServeMux(), dict.Default)
					_, e1 := m1.WriteToWithRetry(c, retries)
					_, e2 := m2.WriteToWithRetry(c, retries)
					res = []error{e1, e2}
				})
				out := append([]byte{}, conn.Out...)
				s.Teardown()
				r.Cases++
				r.Distinct++
				if r.Sample == "" && len(sc) == 2 {
					r.Sample = fmt.Sprintf("retries=%d transport outcomes=%v -> errors %v, %d bytes on the wire", retries, sc, res, len(out))
				}
				if r.Violation != "" {
					continue
				}
				viol := ""
				if len(res) != 2 {
					viol = "harness did not complete"
				} else {
					// the wire must be: every message whose write returned nil, whole, exactly once and in
					// order; a message whose write failed contributes a prefix of itself (possibly empty),
					// and once a torn message (a non-empty strict prefix) is on the wire nothing follows it
					// (every message starts with the same two bytes, so a failed write that put nothing on
					// the wire must not be mistaken for a torn one: both readings are tried)
					msgs := [][]byte{b1, b2}
					var parse func(i, pos int) string
					parse = func(i, pos int) string {
						if i == len(msgs) {
							if pos != len(out) {
								return fmt.Sprintf("%d bytes on the wire that belong to no message at offset %d", len(out)-pos, pos)
							}
							return ""
						}
						b, rest := msgs[i], out[pos:]
						if res[i] == nil {
							if !bytes.HasPrefix(rest, b) {
								return fmt.Sprintf("write %d returned nil but the wire does not hold the whole message at offset %d", i+1, pos)
							}
							return parse(i+1, pos+len(b))
						}
						k := 0
						for k < len(rest) && k < len(b) && rest[k] == b[k] {
							k++
						}
						first := ""
						for _, kk := range []int{k, 0} {
							var v string
							if kk > 0 && kk < len(b) && pos+kk != len(out) {
								v = fmt.Sprintf("write %d failed after %d of its %d bytes had reached the transport, and %d more bytes were written behind that torn message", i+1, kk, len(b), len(out)-pos-kk)
							} else {
								v = parse(i+1, pos+kk)
							}
							if v == "" {
								return ""
							}
							if first == "" {
								first = v
							}
						}
						return first
					}
					viol = parse(0, 0)
				}
				if viol != "" {
					r.Violation = fmt.Sprintf("%s (message sizes %v, retries=%d, transport outcomes=%v, errors=%v, wire=%d bytes)", viol, sizes, retries, sc, res, len(out))
					r.Case = map[string]interface{}{"sizes": sizes, "retries": retries, "script": sc}
				}
			}
		}
	}
}

// c07Sizes: one writer, a fault-free transport, every message size that is a multiple of four from
// 32 to 8300 bytes (so every size around the 1 KiB pooled serialisation buffer and the 4 KiB
// bufio buffer, the boundaries themselves included), written through Message.WriteTo,
// Conn.Write with caller-serialised bytes and WriteToWithRetry on a fresh diam.Conn each: when the
// write has returned nil the transport holds exactly the message - before anything else is written.
func c07Sizes(r *SeqResult) {
	for size := 32; size <= 8300; size += 4 {
		for route := 0; route < 3; route++ {
			size, route := size, route
			var viol string
			s := vs.Run(nil, false, 0, false, func() {
				conn := vnet.NewConn("S")
				conn.Pieces = 1
				c, err := diam.NewConn(conn, "peer", diam.NewServeMux(), dict.Default)
				if err != nil {
					viol = err.Error()
					return
				}
				m := c07msg(0, 0, size)
				want, _ := m.Serialize()
				if len(want) != size {
					viol = fmt.Sprintf("harness: message has %d bytes, wanted %d", len(want), size)
					return
				}
				switch route {
				case 0:
					_, err = m.WriteTo(c)
				case 1:
					_, err = c.Write(want)
				case 2:
					_, err = m.WriteToWithRetry(c, 2)
				}
				if err != nil {
					viol = fmt.Sprintf("write failed on a fault-free transport: %v", err)
					return
				}
				if !bytes.Equal(conn.Out, want) {
					viol = fmt.Sprintf("the write returned nil but the transport holds %d of the message's %d bytes", len(conn.Out), len(want))
				}
			})
			s.Teardown()
			r.Cases++
			r.Distinct++
			if r.Sample == "" && size == 4096 {
				r.Sample = "a 4096-byte message through WriteTo / Conn.Write / WriteToWithRetry: the transport holds exactly the message when the write returns"
			}
			if viol != "" && r.Violation == "" {
				r.Violation = fmt.Sprintf("single writer, message of %d bytes through %s: %s", size, []string{"Message.WriteTo", "Conn.Write", "Message.WriteToWithRetry"}[route], viol)
				r.Case = map[string]interface{}{"size": size, "route": route}
			}
		}
	}
}

// c07Padding: messages whose last AVP needs 1..3 padding octets, written after a longer message of
// another shape went through the same connection (and the same pooled serialisation buffer): the
// transport holds exactly the message's serialisation - padding octets are zero, not leftovers.
func c07Padding(r *SeqResult) {
	for size := 36; size <= 1100; size += 4 {
		for pad := 1; pad <= 3; pad++ {
			for route := 0; route < 2; route++ {
				size, pad, route := size, pad, route
				var viol string
				s := vs.Run(nil, false, 0, false, func() {
					conn := vnet.NewConn("S")
					conn.Pieces = 1
					c, err := diam.NewConn(conn, "peer", diam.NewServeMux(), dict.Default)
					if err != nil {
						viol = err.Error()
						return
					}
					dirty := c07msg(25, 0, size+16) // 'z' all over the buffer, 16 octets longer
					if _, err := dirty.WriteTo(c); err != nil {
						viol = err.Error()
						return
					}
					conn.Out = nil
					m := diam.NewMessage(280, 0x80, 0, 1, 1, dict.Default)
					m.NewAVP(avp.OriginHost, avp.Mbit, 0, datatype.DiameterIdentity(strings.Repeat("a", size-28-pad)))
					want, _ := m.Serialize()
					if route == 0 {
						_, err = m.WriteTo(c)
					} else {
						_, err = m.WriteToWithRetry(c, 2)
					}
					if err != nil {
						viol = fmt.Sprintf("write failed on a fault-free transport: %v", err)
						return
					}
					if !bytes.Equal(conn.Out, want) {
						i := 0
						for i < len(want) && i < len(conn.Out) && conn.Out[i] == want[i] {
							i++
						}
						viol = fmt.Sprintf("the transport holds %d bytes that differ from the message's serialisation (%d bytes) at offset %d", len(conn.Out), len(want), i)
					}
				})
				s.Teardown()
				r.Cases++
				r.Distinct++
				if viol != "" && r.Violation == "" {
					r.Violation = fmt.Sprintf("message of %d bytes whose last AVP takes %d padding octets, written through %s after a longer message of another shape: %s", size, pad, []string{"Message.WriteTo", "Message.WriteToWithRetry"}[route], viol)
					r.Case = map[string]interface{}{"size": size, "pad": pad, "route": route}
				}
			}
		}
	}
	if r.Sample == "" {
		r.Sample = "messages of 36..1100 bytes with 1..3 padding octets behind the last AVP, after a longer message through the same connection"
	}
}

// c07CloseDuringWrite: one writer whose transport write stalls half way, and an application
// goroutine that closes the connection at any instant. Whatever reaches the transport is a prefix
// of the one message - never more than one copy of any of its bytes.
var c07cw struct {
	conn *vnet.Conn
	want []byte
	err  error
	done bool
}

func c07CloseDuringWrite(size int, bound int) *Scenario {
	body := func() {
		conn := vnet.NewConn("S")
		conn.Pieces = 2
		c07cw.conn, c07cw.done, c07cw.err = conn, false, nil
		c, err := diam.NewConn(conn, "peer", diam.NewServeMux(), dict.Default)
		if err != nil {
			panic(err)
		}
		m := c07msg(0, 0, size)
		c07cw.want, _ = m.Serialize()
		vs.GoNamed("writer", false, func() {
			_, c07cw.err = m.WriteTo(c)
			c07cw.done = true
		})
		vs.GoNamed("closer", true, func() { c.Close() })
	}
	check := func(s *vs.Sched) string {
		var v []string
		out := c07cw.conn.Out
		if len(out) > len(c07cw.want) || !bytes.Equal(out, c07cw.want[:len(out)]) {
			v = append(v, fmt.Sprintf("a %d-byte message written once while the connection was being closed: the transport received %d bytes that are not a prefix of the message (bytes of it were sent twice)", len(c07cw.want), len(out)))
		}
		if !c07cw.done {
			v = append(v, "the write never returned")
		}
		if !c07cw.conn.Closed {
			v = append(v, "Close did not close the transport")
		}
		for _, p := range s.Panics() {
			v = append(v, "panic: "+p)
		}
		return strings.Join(v, " | ")
	}
	return &Scenario{Name: fmt.Sprintf("close-during-write/%d-bytes", size), Body: body, Check: check, Bound: bound, Horizon: 5 * time.Second,
		Outcome: func(s *vs.Sched) string { return fmt.Sprint(len(c07cw.conn.Out), c07cw.err != nil) }}
}

// c07WriteTimeout: a connection accepted by a Server with WriteTimeout 800 ms; the transport
// stalls the first write 600 ms and the second 400 ms (virtual clock). Two application goroutines
// write one message each at the same time. Each write, taken alone, stays inside its timeout -
// the time a writer spends queued behind the other is not part of its write: both messages
// arrive whole, both writes succeed.
var c07wt struct {
	conn *vnet.Conn
	errs [2]error
	done [2]bool
}

func c07WriteTimeout(bound int) *Scenario {
	mA, mB := c07msg(0, 0, 384), c07msg(1, 0, 384)
	bA, _ := mA.Serialize()
	bB, _ := mB.Serialize()
	body := func() {
		st := &c07wt
		st.errs, st.done = [2]error{}, [2]bool{}
		conn := vnet.NewConn("S")
		conn.Pieces = 1
		conn.WriteDelays = []time.Duration{600 * time.Millisecond, 400 * time.Millisecond}
		st.conn = conn
		var dc diam.Conn
		lis := vnet.NewListener()
		mux := diam.NewServeMux()
		mux.HandleFunc("ALL", func(c diam.Conn, m *diam.Message) {
			dc = c
			vs.Touch(conn, "conn-known")
		})
		srv := &diam.Server{Handler: mux, Dict: dict.Default, WriteTimeout: 800 * time.Millisecond}
		hello, _ := diam.NewMessage(280, 0x80, 0, 5, 5, dict.Default).Serialize()
		conn.Deliver(hello)
		lis.Offer(vnet.AcceptItem{Conn: conn})
		vs.GoNamed("serve", false, func() { srv.Serve(lis) })
		for i, m := range []*diam.Message{mA, mB} {
			i, m := i, m
			vs.GoNamed(fmt.Sprintf("writer%d", i), false, func() {
				vs.BlockObj("wait-conn", conn, func() bool { return dc != nil })
				_, st.errs[i] = m.WriteTo(dc)
				st.done[i] = true
			})
		}
	}
	check := func(s *vs.Sched) string {
		st := &c07wt
		var v []string
		for i := range st.errs {
			if !st.done[i] {
				v = append(v, fmt.Sprintf("writer %d never returned", i))
			} else if st.errs[i] != nil {
				v = append(v, fmt.Sprintf("writer %d got %v although its own transport write stalled for less than WriteTimeout (the time it spent queued behind the other writer was charged to it)", i, st.errs[i]))
			}
		}
		out := st.conn.Out
		ab, ba := append(append([]byte{}, bA...), bB...), append(append([]byte{}, bB...), bA...)
		if !bytes.Equal(out, ab) && !bytes.Equal(out, ba) {
			v = append(v, fmt.Sprintf("the transport received %d bytes that are not the two messages back to back (%d expected)", len(out), len(ab)))
		}
		for _, p := range s.Panics() {
			v = append(v, "panic: "+p)
		}
		return strings.Join(v, " | ")
	}
	return &Scenario{Name: "write-timeout/two-writers-queued-behind-a-slow-transport", Body: body, Check: check, Bound: bound, Horizon: 5 * time.Second,
		Outcome: func(s *vs.Sched) string { return fmt.Sprint(c07wt.errs, len(c07wt.conn.Out)) }}
}

// c07ReadTimeoutStall: a connection accepted by a Server with ReadTimeout 500 ms and no
// WriteTimeout. The handler answers the request; the transport stalls 900 ms in the middle of that
// write (virtual clock), and an application goroutine writes a second message behind it. The idle
// timeout of the reader is no business of the writers: both messages arrive whole, both writes succeed.
func c07ReadTimeoutStall(size, bound int) *Scenario {
	mA, mB := c07msg(0, 0, size), c07msg(1, 0, size)
	bA, _ := mA.Serialize()
	bB, _ := mB.Serialize()
	body := func() {
		st := &c07wt
		st.errs, st.done = [2]error{}, [2]bool{}
		conn := vnet.NewConn("S")
		conn.Pieces = 1
		conn.WriteDelays = []time.Duration{900 * time.Millisecond}
		st.conn = conn
		var dc diam.Conn
		lis := vnet.NewListener()
		mux := diam.NewServeMux()
		mux.HandleFunc("ALL", func(c diam.Conn, m *diam.Message) {
			dc = c
			vs.Touch(conn, "conn-known")
			_, st.errs[0] = mA.WriteTo(c)
			st.done[0] = true
		})
		srv := &diam.Server{Handler: mux, Dict: dict.Default, ReadTimeout: 500 * time.Millisecond}
		hello, _ := diam.NewMessage(280, 0x80, 0, 5, 5, dict.Default).Serialize()
		conn.Deliver(hello)
		lis.Offer(vnet.AcceptItem{Conn: conn})
		vs.GoNamed("serve", false, func() { srv.Serve(lis) })
		vs.GoNamed("writer1", false, func() {
			vs.BlockObj("wait-conn", conn, func() bool { return dc != nil })
			_, st.errs[1] = mB.WriteTo(dc)
			st.done[1] = true
		})
	}
	check := func(s *vs.Sched) string {
		st := &c07wt
		var v []string
		for i, who := range []string{"the handler's answer", "the application goroutine's message"} {
			if !st.done[i] {
				v = append(v, who+": WriteTo never returned")
			} else if st.errs[i] != nil {
				v = append(v, fmt.Sprintf("%s: WriteTo reported %v although no WriteTimeout is configured and the transport only stalled", who, st.errs[i]))
			}
		}
		out := st.conn.Out
		ab, ba := append(append([]byte{}, bA...), bB...), append(append([]byte{}, bB...), bA...)
		if !bytes.Equal(out, ab) && !bytes.Equal(out, ba) {
			v = append(v, fmt.Sprintf("the transport received %d bytes that are not the two messages back to back (%d expected)", len(out), len(ab)))
		}
		for _, p := range s.Panics() {
			v = append(v, "panic: "+p)
		}
		return strings.Join(v, " | ")
	}
	return &Scenario{Name: fmt.Sprintf("read-timeout/answer-written-through-a-stalled-transport/%d", size), Body: body, Check: check, Bound: bound, Horizon: 5 * time.Second,
		Outcome: func(s *vs.Sched) string { return fmt.Sprint(c07wt.errs, len(c07wt.conn.Out)) }}
}

// c07StreamRetry: a multistream association serves requests arriving on streams 3 and 5 while an
// application goroutine sends a request of its own (built with NewRequest: no stream of its own)
// with a retry budget; the transport takes 10 octets of it and reports a temporary error. The rest
// follows the head: on every stream the octets written, in order, are whole messages.
var c07sr struct {
	be   *vnet.SCTP
	err  error
	n    int64
	done bool
}

func c07StreamRetry(bound int) *Scenario {
	body := func() {
		st := &c07sr
		st.err, st.n, st.done = nil, 0, false
		be := vnet.NewSCTP("M")
		st.be = be
		hit := false
		be.WHook = func(b []byte, stream uint16) (int, bool) {
			if !hit && len(b) >= 20 && b[12] == 0 && b[13] == 0 && b[14] == 0xAB && b[15] == 0xCD {
				hit = true
				return 10, true
			}
			return 0, false
		}
		mux := diam.NewServeMux()
		mux.HandleFunc("ALL", func(c diam.Conn, m *diam.Message) {
			vs.Yield("handler-work")
			m.Answer(2001).WriteTo(c)
		})
		dc, err := diam.NewConn(diam.NewSCTPConnBackend(be), "peer", mux, dict.Default)
		if err != nil {
			panic(err)
		}
		vs.GoNamed("app-writer", false, func() {
			m := diam.NewRequest(258, 0, dict.Default)
			m.Header.HopByHopID = 0xABCD
			m.NewAVP(avp.OriginHost, avp.Mbit, 0, datatype.DiameterIdentity("app.example"))
			st.n, st.err = m.WriteToWithRetry(dc, 2)
			st.done = true
		})
		vs.GoNamed("peer", true, func() {
			for i, stream := range []uint16{3, 5} {
				be.Deliver(stream, refcodec.EncodeMessage(refcodec.Header{Version: 1, Flags: 0x80, Code: 258, HbH: uint32(i + 1), E2E: 9}, []refcodec.Node{ident(264, "c")}))
				vs.Yield("env")
			}
		})
	}
	check := func(s *vs.Sched) string {
		st := &c07sr
		var v []string
		if !st.done {
			v = append(v, "the application's WriteToWithRetry never returned")
		} else if st.err != nil {
			v = append(v, fmt.Sprintf("the application's WriteToWithRetry(2 retries) reported %v after one temporary error", st.err))
		}
		per := map[uint16][]byte{}
		var order []uint16
		for _, w := range st.be.Writes {
			if _, ok := per[w.Stream]; !ok {
				order = append(order, w.Stream)
			}
			per[w.Stream] = append(per[w.Stream], w.Data...)
		}
		seen := 0
		for _, stream := range order {
			msgs, rest := refcodec.SplitStream(per[stream])
			if rest != "eof" {
				v = append(v, fmt.Sprintf("the octets written to stream %d (%d in all) are not a sequence of whole messages (%s): a message was continued on another stream after a partial write", stream, len(per[stream]), rest))
			}
			for _, m := range msgs {
				if h, err := refcodec.DecodeHeader(m); err == nil && h.HbH == 0xABCD {
					seen++
				}
			}
		}
		if st.done && st.err == nil && seen != 1 {
			v = append(v, fmt.Sprintf("the application's message reached the transport whole %d times, expected once", seen))
		}
		for _, p := range s.Panics() {
			v = append(v, "panic: "+p)
		}
		return strings.Join(v, " | ")
	}
	return &Scenario{Name: "multistream/retry-after-a-partial-write-while-requests-are-served", Body: body, Check: check, Bound: bound,
		Outcome: func(s *vs.Sched) string {
			var x []string
			for _, w := range c07sr.be.Writes {
				x = append(x, fmt.Sprintf("%d:%d", w.Stream, len(w.Data)))
			}
			return strings.Join(x, ",")
		}}
}

// c07StaleConn: a connection whose peer has gone away is followed by a new connection; a goroutine
// that still holds the first connection's diam.Conn writes to it. That write fails - and under no
// circumstances does the message show up on the new connection's transport.
func c07StaleConn(r *SeqResult) {
	for _, size := range []int{200, 4096, 5120} {
		for _, how := range []string{"peer-eof", "local-close"} {
			size, how := size, how
			var viol string
			s := vs.Run(nil, false, 0, false, func() {
				a := vnet.NewConn("A")
				a.Pieces = 1
				ca, err := diam.NewConn(a, "peerA", diam.NewServeMux(), dict.Default)
				if err != nil {
					viol = err.Error()
					return
				}
				if how == "peer-eof" {
					a.PeerEOF()
				} else {
					ca.Close()
				}
				vs.BlockObj("wait-A-gone", a, func() bool { return a.Closed })
				// let the serve goroutine of A finish its teardown before the next connection is made
				for i := 0; i < 8; i++ {
					vs.Yield("settle")
				}
				b := vnet.NewConn("B")
				b.Pieces = 1
				cb, err := diam.NewConn(b, "peerB", diam.NewServeMux(), dict.Default)
				if err != nil {
					viol = err.Error()
					return
				}
				m := c07msg(0, 0, size)
				_, werr := m.WriteTo(ca)
				if len(b.Out) != 0 {
					viol = fmt.Sprintf("a %d-byte message written to the finished connection A (write returned %v) put %d bytes on the transport of the NEW connection B", size, werr, len(b.Out))
					return
				}
				if werr == nil && len(a.Out) == 0 {
					viol = fmt.Sprintf("a %d-byte message written to the finished connection A was reported as written but reached no transport", size)
					return
				}
				// B itself works
				mb := c07msg(1, 0, 200)
				wantB, _ := mb.Serialize()
				if _, err := mb.WriteTo(cb); err != nil || !bytes.Equal(b.Out, wantB) {
					viol = fmt.Sprintf("the new connection B does not deliver its own message whole (err %v, %d bytes on its transport, message has %d)", err, len(b.Out), len(wantB))
				}
			})
			s.Teardown()
			r.Cases++
			r.Distinct++
			if r.Sample == "" {
				r.Sample = "connection A ends (peer EOF / local Close), connection B is created, a holder of A's Conn writes to it"
			}
			if viol != "" && r.Violation == "" {
				r.Violation = viol + " (A ended by " + how + ")"
				r.Case = map[string]interface{}{"size": size, "how": how}
			}
		}
	}
}
