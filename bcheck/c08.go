package bcheck

import (
	"errors"
	"crypto/tls"
	"fmt"
	"os"
	"sort"
	"strconv"
	"strings"
	"time"

	"github.com/fiorix/go-diameter/v4/diam"
	"github.com/fiorix/go-diameter/v4/diam/datatype"
	"github.com/fiorix/go-diameter/v4/diam/dict"
	"verif/internal/refcodec"
	"verif/vnet"
	vs "verif/vsched"
)

// C08 — on one connection handlers run one at a time, in arrival order; a blocked handler
// does not delay other connections.
// C15 — faults on one connection stay on that connection.

func init() {
	Registry["C08"] = &Check{
		Scenarios: c08Scenarios,
		Rule: "two application goroutines registering names, an index, the catch-all and one common key on one ServeMux at the same time, at every relative instant (a registration that has returned is in force when traffic arrives afterwards); Registrations with a nil handler (refused with a panic the application recovers) before traffic and a valid one after; another ServeMux set up by a goroutine while a handler of this one is blocked: dispatch goes on (preemption bound 2). 1101 connections on one ServeMux with the handlers of 1100 blocked for ever, and with 1100 closed by their peers before the last one is made (one schedule each). The peer hangs up right behind a burst of three requests whose first handler requested CloseNotify (one segment, one segment per request, the first request alone and the other two in one segment). Run-time registrations at every instant of the dispatch of three messages (by name, by index, catch-all; the RWMutex shim gives a waiting writer precedence over new readers, as sync.RWMutex does). A handler of connection A blocked inside Parser.Load of a private dictionary (package dict is part of the instrumented build) while connection B receives. Two connections send requests no handler matches while nobody reads ErrorReports, then a handled one each. Two relay scenarios with a multistream (SCTP) connection B, forwarded to with Message.WriteTo and with the raw Conn.Write adaptor. Two relay scenarios: a handler of connection A blocks inside a Write to connection B (whose peer has stopped reading) while B keeps receiving - under a Server with and without ReadTimeout / WriteTimeout. In the blocked-handler mode (two of the six arrival patterns) an application goroutine polls ServeMux.ErrorReports() at every instant. Server.Serve on a scripted listener with two connections (both accepted, or one accepted and one attached with diam.NewConn); three requests per connection (re-auth, device-watchdog, capabilities-exchange, in that order) delivered as {one segment, one segment per message, split at the header/body border, first message in 10-byte pieces, first message one byte at a time}; instrumented handlers record enter/exit around a scheduling point and answer; variants: plain, and the first handler on connection A blocked for ever; in one arrival pattern the first handler of connection B requests CloseNotify (so the rest of B's messages pass through the reader switch); one arrival pattern runs on a zero Server{} (DefaultServeMux, default dictionary); every schedule up to preemption bound 3 (thorough 6). The environment is eager (all fragments queued before the server starts; a Read never crosses a fragment boundary), because the arrival instant of a fragment is unobservable to a per-connection single-threaded reader; what is explored is every interleaving of the accept loop, the per-connection readers and the handlers.",
		Assume: []string{"data-race freedom between visible operations (audited separately with -race)"},
		QuickBudget: 120, ThoroughBudget: 2400,
	}
	Registry["C15"] = &Check{
		Scenarios: c15Scenarios,
		Rule: "The value of an injected handler panic rotates with its position over {string, a slice-typed error, a struct holding a slice, a map}: values that can be neither hashed nor compared. An application error reporter that blocks for ever on the report of undecodable input (the faulty connection is closed all the same). Faults (undecodable input, EOF inside a message, handler panic) on an accepted connection whose transport reports no peer address (RemoteAddr() == nil) next to a healthy one. Server.Serve with three connections plus a fourth offered after the fault; accept script: every placement of <=2 temporary accept errors among the offers (temporary errors alternate between temporary-only, like EMFILE, and temporary-and-timeout, like EAGAIN); connection A suffers one fault from {handler panic (raised in the handler itself or, at even positions, 80 calls below it), undecodable input (by position: a header naming an unknown command with trailing bytes / a complete message whose AVP Length overruns it / stray octets behind the last AVP), disconnect in the middle of a message} at every position 1..3 of its three-message sequence; connections B, C and D exchange two request/answer pairs each with bodies that name their connection (the handler checks that the body belongs to the header); after A's fault the application registers a further handler on the running ServeMux, and the first handler of D also writes to A's (failed) diam.Conn, which must simply return an error; C and D are offered only after that, and C's first message is held inside its body until D has been served completely (so a read buffer shared across connections is overwritten); every ordering of environment steps, timers and blocking hand-overs at preemption bound 0 (quick: each accept placement with three of the nine fault/position pairs; thorough: the full product, and preemption bound 1 for the placement without accept errors); back-off sleeps run on the virtual clock. Four scenarios put 9, 10, 12 and 40 consecutive temporary accept errors between two connections. One scenario accepts a connection as TLS whose peer sends 7 bytes of a handshake record and falls silent (later connections must be accepted and served). One scenario accepts a connection as TLS while its peer sends plain Diameter (the handshake fails: the transport must be closed, the other connection served). Three scenarios (bound 1 / 2) put the fault {panic, undecodable header, cut} on a connection whose peer has stopped reading while the handler of a healthy connection is blocked inside a Write to it: the faulty transport is closed all the same, the blocked handler is released with an error and its connection goes on being served. Two scenarios use an application Handler that implements ErrorReporter itself and panics in Error (undecodable input / cut message on A). Five scenarios (bound 0 / 1) make the faulty connection a multistream (SCTP) association {handler panic, undecodable header, association ending inside a header / inside a body by EOF / by reset}. A runtime fatal error (unlock of an unlocked mutex) is modelled as unrecoverable and reported. Three further scenarios (preemption bound 1, thorough 2) put the fault at the third message of a connection whose first handler has requested CloseNotify, so that the notifier goroutine is running when the connection fails.",
		Assume: []string{"data-race freedom between visible operations (audited separately with -race)"},
		QuickBudget: 150, ThoroughBudget: 2400,
	}
}

type srvState struct {
	events  []string
	conns   map[string]*vnet.Conn
	lis     *vnet.Listener
	served  bool // Serve returned
	reports int
	release *vs.Chan[struct{}]
	mux     *diam.ServeMux
	corrupt []string
	registered bool
	relayConn  diam.Conn
	relayed    bool
	relayErr   error
}

var srvSt *srvState

// srvReq builds request seq of connection conn; the body names both, so that a handler can
// tell whether the bytes it was given belong to the message the header announces.
// The command rotates with the sequence number (re-auth, device-watchdog, capabilities-exchange),
// so that a dispatch rule specific to one command cannot hide.
var srvCodes = []uint32{258, 280, 257}

func srvReq(conn, seq int) []byte {
	return refcodec.EncodeMessage(refcodec.Header{Version: 1, Flags: 0x80, Code: srvCodes[seq%len(srvCodes)], App: 0, HbH: uint32(conn + 1), E2E: uint32(seq + 1)},
		[]refcodec.Node{ident(264, fmt.Sprintf("conn%d-msg%d.example", conn+1, seq+1)), ident(296, "r")})
}

// deliver sends the request sequence of one connection with the given segmentation.
func srvDeliver(c *vnet.Conn, ci, n int, pattern string) {
	var all []byte
	var msgs [][]byte
	for s := 0; s < n; s++ {
		m := srvReq(ci, s)
		msgs = append(msgs, m)
		all = append(all, m...)
	}
	switch pattern {
	case "one":
		c.Deliver(all)
	case "each":
		for _, m := range msgs {
			c.Deliver(m)
		}
	case "split":
		// two messages in one segment, the third split at the header/body border
		c.Deliver(append(append([]byte{}, msgs[0]...), msgs[1]...))
		c.Deliver(msgs[2][:20])
		c.Deliver(msgs[2][20:])
	case "bytes":
		// the first message one byte at a time, the second split in the middle of its header
		for _, x := range msgs[0] {
			c.Deliver([]byte{x})
		}
		c.Deliver(msgs[1][:7])
		c.Deliver(msgs[1][7:])
		for _, m := range msgs[2:] {
			c.Deliver(m)
		}
	case "pieces":
		m := msgs[0]
		for off := 0; off < len(m); off += 10 {
			end := off + 10
			if end > len(m) {
				end = len(m)
			}
			c.Deliver(m[off:end])
		}
		for _, m := range msgs[1:] {
			c.Deliver(m)
		}
	}
}

// srvHarness builds the server, its handler and the connections.
type srvOpts struct {
	names     []string       // connection names, in offer order
	attach    map[string]bool // connections attached with diam.NewConn instead of being accepted
	pattern   map[string]string
	nmsg      int
	blockFirst string        // connection whose first handler blocks for ever
	panicAt   map[string]int // connection -> sequence number (1-based) whose handler panics
	tempBefore map[int]int   // offer index -> number of temporary accept errors offered before it
	fault     func(name string, c *vnet.Conn, ci int) bool // custom delivery for a faulty connection
	late      string         // connection offered only after `lateAfter` is closed
	lateAfter string
	reports   bool           // start the error-report observer
	defaultMux bool          // Server.Handler is nil: the package-level DefaultServeMux dispatches
	notifyOn  string         // connection whose first handler requests CloseNotify (starts the pipe copier)
	tlsOn     string         // this connection is accepted as a *tls.Conn (server side); its peer sends plain Diameter, so the TLS handshake fails
	relayTo   string         // the late connection's first handler also writes to this (by then failed) connection's diam.Conn
	registerLate bool        // a handler is registered at run time after the fault, before the late connection is offered
	held      string         // late connection whose first message is cut inside its body; the rest follows only after heldAfter was fully answered
	heldAfter string
}

func srvBody(o srvOpts) func() {
	return func() {
		st := &srvState{conns: map[string]*vnet.Conn{}}
		srvSt = st
		st.release = vs.NewChan[struct{}](0)
		lis := vnet.NewListener()
		st.lis = lis
		mux := diam.NewServeMux()
		if o.defaultMux {
			// a fresh package-level mux per execution: library state must not leak from one explored
			// execution into the next (replays have to be deterministic)
			diam.DefaultServeMux = diam.NewServeMux()
			mux = diam.DefaultServeMux
		}
		st.mux = mux
		var handler diam.HandlerFunc
		handler = func(c diam.Conn, m *diam.Message) {
			id := fmt.Sprintf("%d.%d", m.Header.HopByHopID, m.Header.EndToEndID)
			st.events = append(st.events, "enter "+id)
			vs.Event("handler enter %s", id)
			if a, err := m.FindAVP(264, 0); err != nil || fmt.Sprint(a.Data) != fmt.Sprint(datatype.DiameterIdentity(fmt.Sprintf("conn%d-msg%d.example", m.Header.HopByHopID, m.Header.EndToEndID))) {
				st.corrupt = append(st.corrupt, fmt.Sprintf("message %s was delivered with a body that is not its own (Origin-Host %v)", id, a))
			}
			vs.Yield("handler-work")
			name := o.names[int(m.Header.HopByHopID)-1]
			if o.relayTo != "" {
				if name == o.relayTo && st.relayConn == nil {
					st.relayConn = c
				}
				if name == o.late && st.relayConn != nil && m.Header.EndToEndID == 1 {
					// the handler of a healthy connection forwards something to the peer whose connection
					// has failed: the write must fail with an error, nothing else
					vs.Event("handler of %s relays to the failed connection %s", name, o.relayTo)
					_, err := m.Answer(2001).WriteTo(st.relayConn)
					st.relayErr, st.relayed = err, true
				}
			}
			if o.notifyOn == name && m.Header.EndToEndID == 1 {
				c.(diam.CloseNotifier).CloseNotify()
			}
			if o.blockFirst == name && m.Header.EndToEndID == 1 {
				st.release.Recv() // never released
			}
			if o.panicAt[name] == int(m.Header.EndToEndID) {
				st.events = append(st.events, "panic "+id)
				// the panic is raised directly in the handler or, for faults at an even position, 80
				// calls below it (application code calls through layers; the trace is long)
				// and its value rotates with the position: a string, a slice-typed error and a map (values
				// that cannot be hashed or compared), a struct holding a slice
				c15PanicKind = o.panicAt[name] % 4
				panicDeep(80 * (1 - o.panicAt[name]%2))
			}
			a := m.Answer(2001)
			a.Header.HopByHopID, a.Header.EndToEndID = m.Header.HopByHopID, m.Header.EndToEndID
			a.WriteTo(c)
			st.events = append(st.events, "exit "+id)
			vs.Event("handler exit %s", id)
		}
		mux.HandleFunc("ALL", handler)
		srv := &diam.Server{Handler: mux, Dict: dict.Default}
		if o.defaultMux {
			srv = &diam.Server{} // nil handler and nil dictionary: the package defaults
		}
		if o.reports {
			// error report observer (capacity-1 channel: count what is offered)
			vs.GoNamed("reports", true, func() {
				for {
					if _, ok := mux.ErrorReports().Recv2(); !ok {
						return
					}
					st.reports++
					vs.Event("error report received")
				}
			})
		}
		// The environment is eager: every connection's bytes are queued fragment by fragment
		// before the server starts (a Read never crosses a fragment boundary, so the reader
		// still sees every segmentation), and the accept queue is filled in offer order.
		// Independent peers need no interleaving of their own: when a fragment arrives is
		// unobservable to a reader that is single-threaded per connection.
		for i, n := range o.names {
			c := vnet.NewConn(n)
			c.Pieces = 1
			st.conns[n] = c
			if o.held == n {
				// nothing queued yet: the held peer thread delivers in two instalments
			} else if o.fault == nil || !o.fault(n, c, i) {
				srvDeliver(c, i, o.nmsg, o.pattern[n])
			}
			if o.late == n || o.held == n {
				continue
			}
			if o.attach[n] && o.defaultMux {
				// a connection of the application's own making, served by the package defaults
				if _, err := diam.NewConn(c, "peer", nil, nil); err != nil {
					panic(err)
				}
			} else if o.attach[n] {
				if _, err := diam.NewConn(c, "peer", mux, dict.Default); err != nil {
					panic(err)
				}
			} else {
				for k := 0; k < o.tempBefore[i]; k++ {
					lis.Offer(vnet.AcceptItem{Temp: true})
				}
				if o.tlsOn == n {
					lis.Offer(vnet.AcceptItem{Conn: c, NetConn: tls.Server(c, &tls.Config{MinVersion: tls.VersionTLS12})})
				} else {
					lis.Offer(vnet.AcceptItem{Conn: c})
				}
			}
		}
		if o.late != "" {
			vs.GoNamed("peer"+o.late, true, func() {
				after := st.conns[o.lateAfter]
				vs.BlockObj("wait-fault", after, func() bool { return after.Closed })
				if o.registerLate {
					// the application registers a handler while the server runs (the same function, under
					// the name of one of the commands in use, so dispatch results do not change)
					vs.Event("application registers a handler at run time")
					mux.HandleFunc("DWR", handler)
					st.registered = true
				}
				lis.Offer(vnet.AcceptItem{Conn: st.conns[o.late]})
			})
		}
		if o.held != "" {
			hi := 0
			for i, n := range o.names {
				if n == o.held {
					hi = i
				}
			}
			vs.GoNamed("peer"+o.held, true, func() {
				after := st.conns[o.lateAfter]
				vs.BlockObj("wait-fault", after, func() bool { return after.Closed })
				c := st.conns[o.held]
				lis.Offer(vnet.AcceptItem{Conn: c})
				m := srvReq(hi, 0)
				c.Deliver(m[:len(m)-9]) // header and most of the body: the reader now waits inside the message
				other := st.conns[o.heldAfter]
				vs.BlockObj("wait-other-served", other, func() bool { return len(answersOn(other)) >= o.nmsg || other.Closed })
				c.Deliver(m[len(m)-9:])
				for s := 1; s < o.nmsg; s++ {
					c.Deliver(srvReq(hi, s))
				}
			})
		}
		vs.GoNamed("serve", false, func() { srv.Serve(lis); st.served = true })
	}
}

// srvAnalyse returns per-connection ordering violations and handled counts.
func srvAnalyse(st *srvState, names []string) (viol []string, handled map[string]int) {
	handled = map[string]int{}
	viol = append(viol, st.corrupt...)
	open := map[string]string{}
	last := map[string]int{}
	for _, e := range st.events {
		f := strings.Fields(e)
		var ci, seq int
		fmt.Sscanf(f[1], "%d.%d", &ci, &seq)
		cn := names[ci-1]
		switch f[0] {
		case "enter":
			if o := open[cn]; o != "" {
				viol = append(viol, fmt.Sprintf("connection %s: handler for message %s started while the handler for %s had not returned", cn, f[1], o))
			}
			open[cn] = f[1]
			if seq != last[cn]+1 {
				viol = append(viol, fmt.Sprintf("connection %s: message %d handled after message %d (arrival order is 1,2,3)", cn, seq, last[cn]))
			}
			last[cn] = seq
		case "exit":
			open[cn] = ""
			handled[cn]++
		case "panic":
			open[cn] = ""
		}
	}
	return
}

// answersOn counts the well-formed answers written to a connection.
func answersOn(c *vnet.Conn) []uint32 {
	msgs, _ := refcodec.SplitStream(c.Out)
	var out []uint32
	for _, m := range msgs {
		h, _ := refcodec.DecodeHeader(m)
		out = append(out, h.E2E)
	}
	return out
}

func c08Scenarios(tier string) []*Scenario {
	bound := 3
	if tier == "thorough" {
		bound = 6
	}
	if v := os.Getenv("C08_BOUND"); v != "" {
		bound, _ = strconv.Atoi(v)
	}
	var out []*Scenario
	patterns := [][2]string{{"one", "one"}, {"each", "each"}, {"split", "split"}, {"pieces", "one"}, {"one", "each"}, {"bytes", "split"}}
	for _, mode := range []string{"plain", "blockA"} {
		for _, attach := range []bool{false, true} {
			for _, pt := range patterns {
				mode, attach, pt := mode, attach, pt
				o := srvOpts{names: []string{"A", "B"}, nmsg: 3, pattern: map[string]string{"A": pt[0], "B": pt[1]}, attach: map[string]bool{"B": attach}}
				if pt[0] == "split" {
					o.tempBefore = map[int]int{0: 1} // one temporary accept error before the first connection
				}
				if pt[0] == "each" && !attach {
					o.defaultMux = true // this variant runs on Server{} with the package-level DefaultServeMux
				}
				if pt[0] == "one" && pt[1] == "each" {
					o.notifyOn = "B" // B's first handler requests CloseNotify: the reader switches to the pipe between messages
				}
				if mode == "blockA" {
					o.blockFirst = "A"
					// an application goroutine polls mux.ErrorReports() (the accessor is called again
					// for every receive) while A's handler is blocked
					o.reports = pt[0] == "one" || pt[0] == "pieces"
				}
				check := func(s *vs.Sched) string {
					st := srvSt
					v, handled := srvAnalyse(st, o.names)
					wantA := 3
					if mode == "blockA" {
						wantA = 0
					}
					if handled["A"] != wantA {
						v = append(v, fmt.Sprintf("connection A: %d handlers completed, expected %d", handled["A"], wantA))
					}
					if handled["B"] != 3 {
						v = append(v, fmt.Sprintf("connection B: %d of 3 messages handled while the first handler on A is %s", handled["B"], map[bool]string{true: "blocked", false: "not blocked"}[mode == "blockA"]))
					}
					if got := fmt.Sprint(answersOn(st.conns["B"])); got != "[1 2 3]" {
						v = append(v, "answers on connection B: "+got+", expected [1 2 3]")
					}
					if st.conns["B"].Closed || st.conns["A"].Closed {
						v = append(v, "a healthy transport was closed")
					}
					if st.served {
						v = append(v, "Serve returned")
					}
					if p := s.Panics(); len(p) > 0 {
						v = append(v, "panic: "+strings.Join(p, "; "))
					}
					return strings.Join(v, " | ")
				}
				outcome := func(s *vs.Sched) string { return strings.Join(srvSt.events, ",") }
				out = append(out, &Scenario{Name: fmt.Sprintf("dispatch/%s/attachB=%v/%s+%s", mode, attach, pt[0], pt[1]), Body: srvBody(o), Check: check,
					Outcome: outcome, Bound: bound, Horizon: 10 * time.Second})
			}
		}
	}
	// the peer of connection B hangs up right behind a burst of three requests whose first handler
	// requested CloseNotify: the notifier learns that the peer is gone while two requests are still
	// buffered. They are still dispatched one at a time, in arrival order.
	for _, ptB := range []string{"one", "each", "1+2"} {
		ptB := ptB
		o := srvOpts{names: []string{"A", "B"}, nmsg: 3, pattern: map[string]string{"A": "each", "B": ptB}, notifyOn: "B"}
		o.fault = func(name string, c *vnet.Conn, ci int) bool {
			if name != "B" {
				return false
			}
			if ptB == "1+2" {
				// the first request alone, the other two in one segment: they pass through the notifier
				// together, which then finds the end of the stream while both are still buffered
				c.Deliver(srvReq(ci, 0))
				c.Deliver(append(srvReq(ci, 1), srvReq(ci, 2)...))
			} else {
				srvDeliver(c, ci, 3, ptB)
			}
			c.PeerEOF()
			return true
		}
		check := func(s *vs.Sched) string {
			st := srvSt
			v, handled := srvAnalyse(st, o.names)
			for _, n := range o.names {
				if handled[n] != 3 {
					v = append(v, fmt.Sprintf("connection %s: %d of 3 messages handled", n, handled[n]))
				}
			}
			if got := fmt.Sprint(answersOn(st.conns["A"])); got != "[1 2 3]" {
				v = append(v, "answers on connection A: "+got+", expected [1 2 3]")
			}
			if st.conns["A"].Closed {
				v = append(v, "the healthy transport A was closed")
			}
			if !st.conns["B"].Closed {
				v = append(v, "the transport of the connection whose peer hung up was not closed")
			}
			if got := fmt.Sprint(answersOn(st.conns["B"])); got != "[1 2 3]" {
				// the peer only stopped SENDING: it still reads, and the answers to what it sent are written
				v = append(v, "answers written to connection B (whose peer stopped sending behind its burst): "+got+", expected [1 2 3]")
			}
			if st.served {
				v = append(v, "Serve returned")
			}
			if p := s.Panics(); len(p) > 0 {
				v = append(v, "panic: "+strings.Join(p, "; "))
			}
			return strings.Join(v, " | ")
		}
		hb := bound
		if tier == "thorough" {
			hb = 4 // bound 6 does not finish inside the tier's budget (1.2e7 executions explored, then cut off)
		}
		out = append(out, &Scenario{Name: "dispatch/peer-hangs-up-behind-a-burst/closenotify-active/" + ptB, Body: srvBody(o), Check: check,
			Outcome: func(s *vs.Sched) string { return strings.Join(srvSt.events, ",") }, Bound: hb, Horizon: 10 * time.Second})
	}
	out = append(out, c08RelayBlocked(false, bound), c08RelayBlocked(true, bound))
	out = append(out, c08RelayBlockedMulti(false, bound), c08RelayBlockedMulti(true, bound))
	out = append(out, c08UnmatchedNoReader(bound))
	out = append(out, c08MuxSideEffects("nil-registration", 2), c08MuxSideEffects("unrelated-mux", 2))
	out = append(out, &Scenario{Name: "many-connections", Seq: c08ManyConnections})
	out = append(out, c08HandlerLoadsDictionary(bound))
	out = append(out, c08RegisterWhileDispatching(bound))
	out = append(out, c08ConcurrentRegistrars(bound))
	return out
}

func c15Scenarios(tier string) []*Scenario {
	bound := 0
	if tier == "thorough" {
		bound = 1
	}
	if v := os.Getenv("C15_BOUND"); v != "" {
		bound, _ = strconv.Atoi(v)
	}
	var out []*Scenario
	// placements of <=2 temporary accept errors before offers 0..2 (A, B, C); D is offered late
	var placements []map[int]int
	placements = append(placements, map[int]int{})
	for i := 0; i < 3; i++ {
		placements = append(placements, map[int]int{i: 1}, map[int]int{i: 2})
		for j := i + 1; j < 3; j++ {
			placements = append(placements, map[int]int{i: 1, j: 1})
		}
	}
	faults := []string{"panic", "garbage", "cut"}
	for pi, pl := range placements {
		for _, fault := range faults {
			for pos := 1; pos <= 3; pos++ {
				b := bound
				if tier != "thorough" {
					// quick: each accept placement with three of the nine (fault, position) pairs,
					// rotating so that every pair occurs with at least three placements
					if (pi+3*indexOfStr(faults, fault)+pos)%3 != 0 {
						continue
					}
				} else if pi != 0 {
					b = 0 // thorough: the full product at bound 0, bound 1 without accept errors
				}
				pl, fault, pos := pl, fault, pos
				o := srvOpts{names: []string{"A", "B", "C", "D"}, nmsg: 2, pattern: map[string]string{"B": "one", "C": "each", "D": "one"},
					tempBefore: pl, late: "D", lateAfter: "A", panicAt: map[string]int{}, reports: true, held: "C", heldAfter: "D", registerLate: true, relayTo: "A"}
				if fault == "panic" {
					o.panicAt["A"] = pos
				}
				o.fault = func(name string, c *vnet.Conn, ci int) bool {
					if name != "A" {
						return false
					}
					switch fault {
					case "panic":
						c.Deliver(append(append(srvReq(ci, 0), srvReq(ci, 1)...), srvReq(ci, 2)...))
					case "garbage":
						for s := 0; s < pos-1; s++ {
							c.Deliver(srvReq(ci, s))
						}
						c.Deliver(c15Garbage(pos, uint32(ci+1)))
					case "cut":
						for s := 0; s < pos-1; s++ {
							c.Deliver(srvReq(ci, s))
						}
						m := srvReq(ci, pos-1)
						c.Deliver(m[:len(m)-7])
						c.PeerEOF()
					}
					return true
				}
				check := func(s *vs.Sched) string {
					st := srvSt
					v, handled := srvAnalyse(st, o.names)
					for _, n := range []string{"B", "C", "D"} {
						if handled[n] != 2 {
							v = append(v, fmt.Sprintf("healthy connection %s: %d of 2 requests handled", n, handled[n]))
						}
						if got := fmt.Sprint(answersOn(st.conns[n])); got != "[1 2]" {
							v = append(v, fmt.Sprintf("healthy connection %s received answers %s, expected [1 2]", n, got))
						}
						if st.conns[n].Closed {
							v = append(v, fmt.Sprintf("healthy connection %s was closed", n))
						}
					}
					if !st.conns["A"].Closed {
						v = append(v, "the faulty connection's transport was not closed")
					}
					if handled["A"] != pos-1 {
						v = append(v, fmt.Sprintf("faulty connection: %d handlers completed before the fault at position %d", handled["A"], pos))
					}
					if fault == "garbage" && st.reports == 0 {
						v = append(v, "undecodable input: no error report was offered")
					}
					if st.served {
						v = append(v, "Serve returned")
					}
					if st.relayed && st.relayErr == nil {
					v = append(v, "a write to the failed connection's diam.Conn (from the handler of a healthy connection) reported success")
				}
				if !st.registered {
					v = append(v, "the application's run-time handler registration (ServeMux.HandleFunc after the fault) never returned")
				}
				if st.lis.NAccepted != 4 {
						v = append(v, fmt.Sprintf("%d of 4 connections accepted", st.lis.NAccepted))
					}
					for _, p := range s.Panics() {
						v = append(v, "panic escaped: "+p)
					}
					return strings.Join(v, " | ")
				}
				outcome := func(s *vs.Sched) string {
					st := srvSt
					ev := append([]string{}, st.events...)
					sort.Strings(ev)
					return fmt.Sprintf("events=%d reports=%d end=%v", len(ev), st.reports, s.EndTime)
				}
				out = append(out, &Scenario{Name: fmt.Sprintf("faults/accept%v/%s@%d", fmtPlacement(pl), fault, pos), Body: srvBody(o), Check: check,
					Outcome: outcome, Bound: b, Horizon: 20 * time.Second})
			}
		}
	}
	// CloseNotify active on the faulty connection (its first handler requested it, so the notifier
	// goroutine is running) when the fault happens at the third message; one healthy connection
	for _, fault := range faults {
		fault := fault
		o := srvOpts{names: []string{"A", "B"}, nmsg: 2, pattern: map[string]string{"B": "each"}, panicAt: map[string]int{}, reports: true, notifyOn: "A"}
		if fault == "panic" {
			o.panicAt["A"] = 3
		}
		o.fault = func(name string, c *vnet.Conn, ci int) bool {
			if name != "A" {
				return false
			}
			c.Deliver(srvReq(ci, 0))
			c.Deliver(srvReq(ci, 1))
			switch fault {
			case "panic":
				c.Deliver(srvReq(ci, 2))
			case "garbage":
				bad := make([]byte, 20)
				bad[0], bad[3] = 1, 60
				bad[5], bad[6], bad[7] = 0xff, 0xff, 0xfe
				c.Deliver(append(bad, ghost40(uint32(ci+1))...))
			case "cut":
				m := srvReq(ci, 2)
				c.Deliver(m[:len(m)-7])
				c.PeerEOF()
			}
			return true
		}
		check := func(s *vs.Sched) string {
			st := srvSt
			v, handled := srvAnalyse(st, o.names)
			if handled["B"] != 2 || fmt.Sprint(answersOn(st.conns["B"])) != "[1 2]" {
				v = append(v, fmt.Sprintf("healthy connection B: %d of 2 requests handled, answers %v", handled["B"], answersOn(st.conns["B"])))
			}
			if st.conns["B"].Closed {
				v = append(v, "healthy connection B was closed")
			}
			if !st.conns["A"].Closed {
				v = append(v, "the faulty connection's transport was not closed")
			}
			if st.served {
				v = append(v, "Serve returned")
			}
			for _, p := range s.Panics() {
				v = append(v, "panic escaped (an unrecovered panic in a library goroutine ends the process): "+p)
			}
			return strings.Join(v, " | ")
		}
		b := 1
		if tier == "thorough" {
			b = 2
		}
		out = append(out, &Scenario{Name: "faults/closenotify-active/" + fault + "@3", Body: srvBody(o), Check: check, Bound: b, Horizon: 20 * time.Second, Weight: 5,
			Outcome: func(s *vs.Sched) string { return fmt.Sprintf("events=%d end=%v", len(srvSt.events), s.EndTime) }})
	}
	// the faulty connection's transport does not know its peer's address (RemoteAddr() == nil, as a
	// transport that looks it up lazily reports once the peer is gone)
	for _, fault := range []string{"garbage", "cut", "panic"} {
		fault := fault
		o := srvOpts{names: []string{"A", "B"}, nmsg: 2, pattern: map[string]string{"B": "each"}, panicAt: map[string]int{}, reports: true}
		if fault == "panic" {
			o.panicAt["A"] = 1
		}
		o.fault = func(name string, c *vnet.Conn, ci int) bool {
			if name != "A" {
				return false
			}
			c.NilRemote = true
			switch fault {
			case "panic":
				c.Deliver(srvReq(ci, 0))
			case "garbage":
				c.Deliver(c15Garbage(1, uint32(ci+1)))
			case "cut":
				m := srvReq(ci, 0)
				c.Deliver(m[:len(m)-7])
				c.PeerEOF()
			}
			return true
		}
		check := func(s *vs.Sched) string {
			st := srvSt
			v, handled := srvAnalyse(st, o.names)
			if handled["B"] != 2 || fmt.Sprint(answersOn(st.conns["B"])) != "[1 2]" {
				v = append(v, fmt.Sprintf("healthy connection B: %d of 2 requests handled, answers %v", handled["B"], answersOn(st.conns["B"])))
			}
			if st.conns["B"].Closed {
				v = append(v, "healthy connection B was closed")
			}
			if !st.conns["A"].Closed {
				v = append(v, "the faulty connection's transport was not closed")
			}
			if st.served {
				v = append(v, "Serve returned")
			}
			if st.lis.Closed {
				v = append(v, "the listener was closed")
			}
			for _, p := range s.Panics() {
				v = append(v, "panic escaped (an unrecovered panic in a library goroutine ends the process): "+p)
			}
			return strings.Join(v, " | ")
		}
		b := 1
		if tier == "thorough" {
			b = 2
		}
		out = append(out, &Scenario{Name: "faults/peer-address-unknown/" + fault + "@1", Body: srvBody(o), Check: check, Bound: b, Horizon: 20 * time.Second, Weight: 5,
			Outcome: func(s *vs.Sched) string { return fmt.Sprintf("events=%d end=%v", len(srvSt.events), s.EndTime) }})
	}
	// the package defaults: connection A was handed to diam.NewConn with a nil handler and a nil
	// dictionary, connection B is accepted by a zero Server{}; both are served by DefaultServeMux, and
	// the undecodable input on A is reported on diam.ErrorReports()
	for pos := 1; pos <= 3; pos++ {
		pos := pos
		o := srvOpts{names: []string{"A", "B"}, nmsg: 2, pattern: map[string]string{"B": "each"}, panicAt: map[string]int{}, reports: true,
			attach: map[string]bool{"A": true}, defaultMux: true}
		o.fault = func(name string, c *vnet.Conn, ci int) bool {
			if name != "A" {
				return false
			}
			for s := 0; s < pos-1; s++ {
				c.Deliver(srvReq(ci, s))
			}
			c.Deliver(c15Garbage(pos, uint32(ci+1)))
			return true
		}
		check := func(s *vs.Sched) string {
			st := srvSt
			v, handled := srvAnalyse(st, o.names)
			if handled["B"] != 2 || fmt.Sprint(answersOn(st.conns["B"])) != "[1 2]" {
				v = append(v, fmt.Sprintf("healthy connection B: %d of 2 requests handled, answers %v", handled["B"], answersOn(st.conns["B"])))
			}
			if st.conns["B"].Closed {
				v = append(v, "healthy connection B was closed")
			}
			if !st.conns["A"].Closed {
				v = append(v, "the faulty connection's transport was not closed")
			}
			if handled["A"] != pos-1 {
				v = append(v, fmt.Sprintf("faulty connection: %d handlers completed before the fault at position %d", handled["A"], pos))
			}
			if st.reports == 0 {
				v = append(v, "undecodable input on a connection served by the package defaults (diam.NewConn with a nil handler): no error report was offered on diam.ErrorReports()")
			}
			if st.served {
				v = append(v, "Serve returned")
			}
			for _, p := range s.Panics() {
				v = append(v, "panic escaped: "+p)
			}
			return strings.Join(v, " | ")
		}
		b := 1
		if tier == "thorough" {
			b = 2
		}
		out = append(out, &Scenario{Name: fmt.Sprintf("faults/package-defaults/garbage@%d", pos), Body: srvBody(o), Check: check, Bound: b, Horizon: 20 * time.Second, Weight: 5,
			Outcome: func(s *vs.Sched) string { return fmt.Sprintf("events=%d reports=%d end=%v", len(srvSt.events), srvSt.reports, s.EndTime) }})
	}
	for _, fault := range []string{"panic", "garbage", "cut"} {
		b := 1
		if tier == "thorough" {
			b = 2
		}
		out = append(out, c15FaultWhileWriteStuck(fault, b))
	}
	for _, fault := range []string{"garbage", "cut", "garbage/reporter-blocks"} {
		b := 0
		if tier == "thorough" {
			b = 1
		}
		out = append(out, c15ReporterPanics(fault, b))
	}
	for _, fault := range []string{"panic", "garbage", "cut-header", "cut-body", "reset-body"} {
		b := 0
		if tier == "thorough" {
			b = 1
		}
		out = append(out, c15MultistreamFault(fault, b))
	}
	// a long burst of temporary accept errors (the back-off reaches and stays at its ceiling), with a
	// healthy connection before and one after
	for _, burst := range []int{9, 10, 12, 40} {
		burst := burst
		o := srvOpts{names: []string{"A", "B"}, nmsg: 2, pattern: map[string]string{"A": "one", "B": "each"}, panicAt: map[string]int{}, reports: true,
			tempBefore: map[int]int{1: burst}}
		check := func(s *vs.Sched) string {
			st := srvSt
			v, handled := srvAnalyse(st, o.names)
			for _, n := range o.names {
				if handled[n] != 2 || fmt.Sprint(answersOn(st.conns[n])) != "[1 2]" {
					v = append(v, fmt.Sprintf("connection %s (offered %s %d consecutive temporary accept errors): %d of 2 requests handled, answers %v", n, map[string]string{"A": "before", "B": "after"}[n], burst, handled[n], answersOn(st.conns[n])))
				}
			}
			if st.served {
				v = append(v, "Serve returned")
			}
			if st.lis.Closed {
				v = append(v, "the listener was closed")
			}
			for _, p := range s.Panics() {
				v = append(v, "panic escaped: "+p)
			}
			return strings.Join(v, " | ")
		}
		out = append(out, &Scenario{Name: fmt.Sprintf("faults/accept-burst-%d", burst), Body: srvBody(o), Check: check, Bound: 0, Horizon: 120 * time.Second, Weight: 1,
			Outcome: func(s *vs.Sched) string { return fmt.Sprintf("events=%d end=%v", len(srvSt.events), s.EndTime) }})
	}
	// a connection accepted as TLS whose peer speaks plain Diameter: the handshake fails, the
	// transport must be closed, the other connection is served
	{
		o := srvOpts{names: []string{"A", "B"}, nmsg: 2, pattern: map[string]string{"A": "one", "B": "each"}, panicAt: map[string]int{}, reports: true, tlsOn: "A"}
		check := func(s *vs.Sched) string {
			st := srvSt
			v, handled := srvAnalyse(st, o.names)
			if handled["A"] != 0 {
				v = append(v, "messages of the connection whose TLS handshake failed were handled")
			}
			if handled["B"] != 2 || fmt.Sprint(answersOn(st.conns["B"])) != "[1 2]" {
				v = append(v, fmt.Sprintf("healthy connection B: %d of 2 requests handled, answers %v", handled["B"], answersOn(st.conns["B"])))
			}
			if st.conns["B"].Closed {
				v = append(v, "healthy connection B was closed")
			}
			if !st.conns["A"].Closed {
				v = append(v, "undecodable input (a failed TLS handshake): the connection's transport was not closed")
			}
			if st.served {
				v = append(v, "Serve returned")
			}
			if b := s.BlockedLib(); len(b) > 1 {
				_ = b
			}
			for _, p := range s.Panics() {
				v = append(v, "panic escaped: "+p)
			}
			return strings.Join(v, " | ")
		}
		out = append(out, &Scenario{Name: "faults/tls-handshake-failure", Body: srvBody(o), Check: check, Bound: 1, Horizon: 20 * time.Second, Weight: 1,
			Outcome: func(s *vs.Sched) string { return fmt.Sprintf("events=%d closedA=%v", len(srvSt.events), srvSt.conns["A"].Closed) }})
	}
	// a TLS peer that sends the beginning of a handshake record and then falls silent: its handshake
	// neither completes nor fails - and nobody else may have to wait for it
	{
		o := srvOpts{names: []string{"A", "B", "C"}, nmsg: 2, pattern: map[string]string{"B": "each", "C": "one"}, panicAt: map[string]int{}, reports: true, tlsOn: "A"}
		o.fault = func(name string, c *vnet.Conn, ci int) bool {
			if name != "A" {
				return false
			}
			c.Deliver([]byte{0x16, 0x03, 0x01, 0x02, 0x00, 0x01, 0x00}) // 7 bytes of a 512-byte handshake record
			return true
		}
		check := func(s *vs.Sched) string {
			st := srvSt
			v, handled := srvAnalyse(st, o.names)
			for _, n := range []string{"B", "C"} {
				if handled[n] != 2 || fmt.Sprint(answersOn(st.conns[n])) != "[1 2]" {
					v = append(v, fmt.Sprintf("connection %s, offered after a TLS connection whose peer sent 7 bytes of its handshake and fell silent: %d of 2 requests handled, answers %v", n, handled[n], answersOn(st.conns[n])))
				}
				if st.conns[n].Closed {
					v = append(v, "healthy connection "+n+" was closed")
				}
			}
			if st.lis.NAccepted != 3 {
				v = append(v, fmt.Sprintf("%d of 3 connections accepted", st.lis.NAccepted))
			}
			if st.served {
				v = append(v, "Serve returned")
			}
			for _, p := range s.Panics() {
				v = append(v, "panic escaped: "+p)
			}
			return strings.Join(v, " | ")
		}
		out = append(out, &Scenario{Name: "faults/tls-handshake-stalled", Body: srvBody(o), Check: check, Bound: 1, Horizon: 20 * time.Second, Weight: 1,
			Outcome: func(s *vs.Sched) string { return fmt.Sprintf("events=%d accepted=%d", len(srvSt.events), srvSt.lis.NAccepted) }})
	}
	return out
}

// ghost40 is what follows an undecodable header inside its declared length: 40 bytes that are,
// byte for byte, a complete well-formed request the peer never sent as a message of its own. A
// reader that keeps going after rejecting the header would dispatch it.
func ghost40(hbh uint32) []byte {
	b := refcodec.EncodeMessage(refcodec.Header{Version: 1, Flags: 0x80, Code: 280, App: 0, HbH: hbh, E2E: 99}, []refcodec.Node{ident(264, "ghost.exampl")})
	if len(b) != 40 {
		panic("ghost40")
	}
	return b
}

func indexOfStr(l []string, s string) int {
	for i, x := range l {
		if x == s {
			return i
		}
	}
	return -1
}

func fmtPlacement(p map[int]int) string {
	var s []string
	for i := 0; i < 3; i++ {
		s = append(s, fmt.Sprint(p[i]))
	}
	return "[" + strings.Join(s, "") + "]"
}

// c08RelayBlocked: the handler of a message on connection A forwards it to connection B, whose
// peer has stopped reading - the handler stays blocked inside that Write. Messages that keep
// arriving on B must still be dispatched, one after the other (their handlers do not write).
// With and without Server.ReadTimeout / WriteTimeout (the deadline-arming paths).
var c08rb struct {
	handledB []uint32
	relayed  bool
	b        *vnet.Conn
}

func c08RelayBlocked(withTimeouts bool, bound int) *Scenario {
	body := func() {
		c08rb.handledB, c08rb.relayed = nil, false
		a, b := vnet.NewConn("A"), vnet.NewConn("B")
		a.Pieces, b.Pieces = 1, 1
		c08rb.b = b
		b.WriteBlocked = true
		var connB diam.Conn
		lis := vnet.NewListener()
		mux := diam.NewServeMux()
		mux.HandleFunc("ALL", func(c diam.Conn, m *diam.Message) {
			if m.Header.HopByHopID == 2 {
				if connB == nil {
					connB = c
				}
				// what a state machine does on every dispatch: look at the connection's context
				_ = c.Context()
				c.SetContext(c.Context())
				_ = c.LocalAddr()
				_ = c.RemoteAddr()
				_ = c.Dictionary()
				c08rb.handledB = append(c08rb.handledB, m.Header.EndToEndID)
				vs.Event("handler on B got message %d", m.Header.EndToEndID)
				return
			}
			vs.BlockObj("wait-B-known", b, func() bool { return connB != nil })
			vs.Event("handler on A relays to B (whose peer does not read)")
			c08rb.relayed = true
			m.WriteTo(connB) // blocks for ever
		})
		srv := &diam.Server{Handler: mux, Dict: dict.Default}
		if withTimeouts {
			srv.ReadTimeout, srv.WriteTimeout = time.Hour, time.Hour
		}
		b.Deliver(srvReq(1, 0))
		a.Deliver(srvReq(0, 0))
		lis.Offer(vnet.AcceptItem{Conn: b})
		lis.Offer(vnet.AcceptItem{Conn: a})
		vs.GoNamed("serve", false, func() { srv.Serve(lis) })
		vs.GoNamed("peerB", true, func() {
			vs.BlockObj("wait-relay-stuck", b, func() bool { return b.InWrite > 0 })
			vs.Event("peer B sends two more requests while A's handler is stuck writing to B")
			b.Deliver(srvReq(1, 1))
			vs.Yield("env")
			b.Deliver(srvReq(1, 2))
		})
	}
	check := func(s *vs.Sched) string {
		var v []string
		if !c08rb.relayed {
			v = append(v, "harness: the relay never happened")
		}
		if fmt.Sprint(c08rb.handledB) != "[1 2 3]" {
			v = append(v, fmt.Sprintf("connection B: messages %v handled, the peer sent [1 2 3] (the last two while a handler of connection A was blocked writing to B)", c08rb.handledB))
		}
		for _, p := range s.Panics() {
			v = append(v, "panic: "+p)
		}
		return strings.Join(v, " | ")
	}
	return &Scenario{Name: fmt.Sprintf("dispatch/relay-to-a-peer-that-does-not-read/server-timeouts=%v", withTimeouts), Body: body, Check: check, Bound: bound, Horizon: 10 * time.Second,
		Outcome: func(s *vs.Sched) string { return fmt.Sprint(c08rb.handledB) }}
}

// c15Garbage: input that cannot be decoded, in three kinds that rotate with the fault position: a
// header naming a command no dictionary knows (followed by 40 more bytes); a completely received
// message of a known command whose AVP declares more octets than the message has left; one with
// five stray octets behind its last AVP.
func c15Garbage(pos int, hbh uint32) []byte {
	switch pos % 3 {
	case 1:
		bad := make([]byte, 20)
		bad[0], bad[3] = 1, 60
		bad[5], bad[6], bad[7] = 0xff, 0xff, 0xfe
		return append(bad, ghost40(hbh)...)
	case 2:
		m := refcodec.EncodeMessage(refcodec.Header{Version: 1, Flags: 0x80, Code: 280, HbH: hbh, E2E: 77}, []refcodec.Node{ident(264, "overrun.example"), ident(296, "r")})
		m[20+7] = 40 // the first AVP's Length: beyond the end of the message
		return m
	}
	m := refcodec.EncodeMessage(refcodec.Header{Version: 1, Flags: 0x80, Code: 280, HbH: hbh, E2E: 78}, []refcodec.Node{ident(264, "stray.example"), ident(296, "realm")})
	m = append(m, 1, 2, 3, 4, 5, 0, 0, 0)
	m[3] = byte(len(m))
	return m
}

// c15PanicKind selects the value the next injected handler panic carries (see panicDeep).
var c15PanicKind = 2

// c15ErrList is an error whose dynamic type is a slice (like go/scanner.ErrorList): it can be
// neither hashed nor compared with ==.
type c15ErrList []string

func (e c15ErrList) Error() string { return strings.Join(e, "; ") }

// panicDeep panics depth calls below its caller.
//
//go:noinline
func panicDeep(depth int) int {
	if depth <= 0 {
		switch c15PanicKind {
		case 1:
			panic(c15ErrList{"origin host rejected", "realm rejected"})
		case 3:
			panic(map[string]int{"handler panic (injected)": 1})
		case 0:
			panic(struct {
				What string
				At   []int
			}{"handler panic (injected)", []int{1, 2}})
		}
		panic("handler panic (injected)")
	}
	return panicDeep(depth-1) + 1
}

// c15FaultWhileWriteStuck: connection A's peer has stopped reading; the handler of healthy
// connection B pushes a message to A and is stuck inside that Write. Then A suffers its fault
// (handler panic / undecodable input / cut). A must be closed all the same - which releases B's
// handler with an error - and B must go on being served.
var c15ws struct {
	a, b      *vnet.Conn
	handledB  []uint32
	pushErr   error
	pushed    bool
	faultSeen bool
}

func c15FaultWhileWriteStuck(fault string, bound int) *Scenario {
	body := func() {
		st := &c15ws
		st.handledB, st.pushErr, st.pushed, st.faultSeen = nil, nil, false, false
		a, b := vnet.NewConn("A"), vnet.NewConn("B")
		a.Pieces, b.Pieces = 1, 1
		st.a, st.b = a, b
		a.WriteBlocked = true
		var connA diam.Conn
		lis := vnet.NewListener()
		mux := diam.NewServeMux()
		mux.HandleFunc("ALL", func(c diam.Conn, m *diam.Message) {
			if m.Header.HopByHopID == 1 { // connection A
				if m.Header.EndToEndID == 1 {
					connA = c
					vs.Touch(a, "connA-known")
					return
				}
				st.faultSeen = true
				vs.Event("handler on A panics")
				panic("handler panic (injected)")
			}
			if m.Header.EndToEndID == 1 {
				vs.BlockObj("wait-A-known", a, func() bool { return connA != nil })
				vs.Event("handler on B pushes a message to A (whose peer does not read)")
				_, st.pushErr = m.WriteTo(connA)
				st.pushed = true
				vs.Event("handler on B: push returned %v", st.pushErr)
			}
			st.handledB = append(st.handledB, m.Header.EndToEndID)
		})
		srv := &diam.Server{Handler: mux, Dict: dict.Default}
		a.Deliver(srvReq(0, 0))
		b.Deliver(srvReq(1, 0))
		lis.Offer(vnet.AcceptItem{Conn: a})
		lis.Offer(vnet.AcceptItem{Conn: b})
		vs.GoNamed("serve", false, func() { srv.Serve(lis) })
		vs.GoNamed("peerA", true, func() {
			vs.BlockObj("wait-push-stuck", a, func() bool { return a.InWrite > 0 })
			switch fault {
			case "panic":
				vs.Event("peer A sends the request whose handler panics")
				a.Deliver(srvReq(0, 1))
			case "garbage":
				bad := make([]byte, 20)
				bad[0], bad[3] = 1, 60
				bad[5], bad[6], bad[7] = 0xff, 0xff, 0xfe
				st.faultSeen = true
				vs.Event("peer A sends an undecodable header")
				a.Deliver(append(bad, ghost40(1)...))
			case "cut":
				m := srvReq(0, 1)
				st.faultSeen = true
				vs.Event("peer A disconnects in the middle of a message")
				a.Deliver(m[:len(m)-7])
				a.PeerEOF()
			}
		})
		vs.GoNamed("peerB", true, func() {
			vs.BlockObj("wait-A-closed", a, func() bool { return a.Closed })
			vs.Event("peer B sends its second request")
			b.Deliver(srvReq(1, 1))
		})
	}
	check := func(s *vs.Sched) string {
		st := &c15ws
		var v []string
		if !st.faultSeen {
			v = append(v, "harness: the fault never happened")
		}
		if !st.a.Closed {
			v = append(v, "the faulty connection's transport was not closed ("+fault+" while another connection's handler was blocked writing to it)")
		}
		if !st.pushed {
			v = append(v, "the handler of healthy connection B is still blocked in its write to the failed connection A")
		} else if st.pushErr == nil {
			v = append(v, "the write to the failed connection reported success although the peer never read it")
		}
		if fmt.Sprint(st.handledB) != "[1 2]" {
			v = append(v, fmt.Sprintf("healthy connection B: requests %v handled, the peer sent [1 2]", st.handledB))
		}
		if st.b.Closed {
			v = append(v, "healthy connection B was closed")
		}
		for _, p := range s.Panics() {
			v = append(v, "panic escaped: "+p)
		}
		return strings.Join(v, " | ")
	}
	return &Scenario{Name: "faults/while-another-handler-is-stuck-writing-to-it/" + fault, Body: body, Check: check, Bound: bound, Horizon: 10 * time.Second,
		Outcome: func(s *vs.Sched) string { return fmt.Sprintf("handledB=%v pushErr=%v", c15ws.handledB, c15ws.pushErr) }}
}

// c15MultistreamFault: the faulty connection A is a multistream (SCTP) association accepted by the
// server next to the plain connection B; A is served one request, then suffers its fault - a
// handler panic, an undecodable header, or the association ending inside the header / inside the
// body of its next message (the read paths a stream-oriented connection does not have). A must be
// closed, B must get both its answers, a connection offered afterwards must be served, and no
// goroutine may die of an unrecoverable error.
var c15ms struct {
	be       *vnet.SCTP
	b, c     *vnet.Conn
	handledA int
	lis      *vnet.Listener
	served   bool
	reports  int
}

func c15MultistreamFault(fault string, bound int) *Scenario {
	body := func() {
		st := &c15ms
		st.handledA, st.served, st.reports = 0, false, 0
		be := vnet.NewSCTP("A")
		b, c := vnet.NewConn("B"), vnet.NewConn("C")
		b.Pieces, c.Pieces = 1, 1
		st.be, st.b, st.c = be, b, c
		lis := vnet.NewListener()
		st.lis = lis
		mux := diam.NewServeMux()
		mux.HandleFunc("ALL", func(cn diam.Conn, m *diam.Message) {
			if m.Header.HopByHopID == 1 {
				st.handledA++
				if fault == "panic" && st.handledA == 2 {
					vs.Event("handler on A panics")
					panic("handler panic (injected)")
				}
			}
			m.Answer(2001).WriteTo(cn)
		})
		if fault == "garbage" {
			vs.GoNamed("reports", true, func() {
				for {
					if _, ok := mux.ErrorReports().Recv2(); !ok {
						return
					}
					st.reports++
				}
			})
		}
		srv := &diam.Server{Handler: mux, Dict: dict.Default}
		lis.Offer(vnet.AcceptItem{NetConn: diam.NewSCTPConnBackend(be)})
		lis.Offer(vnet.AcceptItem{Conn: b})
		vs.GoNamed("serve", false, func() { srv.Serve(lis); st.served = true })
		vs.GoNamed("peerA", true, func() {
			be.Deliver(3, srvReq(0, 0))
			vs.BlockObj("wait-A-answered", be, func() bool { return len(be.Writes) > 0 || be.Closed })
			m := srvReq(0, 1)
			switch fault {
			case "panic":
				be.Deliver(5, m)
			case "garbage":
				bad := make([]byte, 20)
				bad[0], bad[3] = 1, 60
				bad[5], bad[6], bad[7] = 0xff, 0xff, 0xfe
				be.Deliver(5, append(bad, ghost40(1)...))
			case "cut-header":
				be.Deliver(5, m[:10])
				vs.Yield("env")
				be.PeerEOF()
			case "cut-body":
				be.Deliver(5, m[:28])
				vs.Yield("env")
				be.PeerEOF()
			case "reset-body":
				be.Deliver(5, m[:28])
				vs.Yield("env")
				be.PeerErr(errors.New("connection reset by peer"))
			}
		})
		vs.GoNamed("peerB", true, func() {
			b.Deliver(srvReq(1, 0))
			vs.BlockObj("wait-A-gone", be, func() bool { return be.Closed || be.DeadReads > 8 })
			b.Deliver(srvReq(1, 1))
			c.Deliver(srvReq(2, 0))
			lis.Offer(vnet.AcceptItem{Conn: c})
		})
	}
	check := func(s *vs.Sched) string {
		st := &c15ms
		var v []string
		for _, p := range s.Panics() {
			v = append(v, "panic escaped / process aborted: "+p)
		}
		if !st.be.Closed {
			v = append(v, "the faulty multistream connection was not closed ("+fault+")")
		}
		if st.be.DeadReads > 8 {
			v = append(v, "the reader of the faulty association keeps polling it after it ended")
		}
		if st.handledA < 1 {
			v = append(v, "the first request of A was not handled")
		}
		if got := fmt.Sprint(answersOn(st.b)); got != "[1 2]" {
			v = append(v, "healthy connection B received answers "+got+", expected [1 2]")
		}
		if got := fmt.Sprint(answersOn(st.c)); got != "[1]" {
			v = append(v, "connection C, offered after the fault, received answers "+got+", expected [1]")
		}
		if st.b.Closed || st.c.Closed {
			v = append(v, "a healthy connection was closed")
		}
		if fault == "garbage" && st.reports == 0 {
			v = append(v, "undecodable input: no error report was offered")
		}
		if st.served {
			v = append(v, "Serve returned")
		}
		return strings.Join(v, " | ")
	}
	return &Scenario{Name: "faults/multistream-connection/" + fault, Body: body, Check: check, Bound: bound, Horizon: 10 * time.Second,
		Outcome: func(s *vs.Sched) string { return fmt.Sprintf("handledA=%d reports=%d B=%v", c15ms.handledA, c15ms.reports, answersOn(c15ms.b)) }}
}

// c08RelayBlockedMulti: as c08RelayBlocked, but connection B is a multistream (SCTP) association
// and A's handler forwards either with Message.WriteTo or with the raw Conn.Write of the
// serialised bytes (the io.Writer adaptor of the association). B's peer does not read; messages
// that keep arriving on B (on two streams) must still be dispatched.
func c08RelayBlockedMulti(raw bool, bound int) *Scenario {
	var be *vnet.SCTP
	body := func() {
		c08rb.handledB, c08rb.relayed = nil, false
		a := vnet.NewConn("A")
		a.Pieces = 1
		be = vnet.NewSCTP("B")
		be.WriteBlocked = true
		var connB diam.Conn
		lis := vnet.NewListener()
		mux := diam.NewServeMux()
		mux.HandleFunc("ALL", func(c diam.Conn, m *diam.Message) {
			if m.Header.HopByHopID == 2 {
				if connB == nil {
					connB = c
					vs.Touch(be, "connB-known")
				}
				c08rb.handledB = append(c08rb.handledB, m.Header.EndToEndID)
				vs.Event("handler on B got message %d", m.Header.EndToEndID)
				return
			}
			vs.BlockObj("wait-B-known", be, func() bool { return connB != nil })
			vs.Event("handler on A relays to B (whose peer does not read)")
			c08rb.relayed = true
			if raw {
				b, _ := m.Serialize()
				connB.Write(b) // blocks for ever
			} else {
				m.WriteTo(connB) // blocks for ever
			}
		})
		srv := &diam.Server{Handler: mux, Dict: dict.Default}
		be.Deliver(3, srvReq(1, 0))
		a.Deliver(srvReq(0, 0))
		lis.Offer(vnet.AcceptItem{NetConn: diam.NewSCTPConnBackend(be)})
		lis.Offer(vnet.AcceptItem{Conn: a})
		vs.GoNamed("serve", false, func() { srv.Serve(lis) })
		vs.GoNamed("peerB", true, func() {
			vs.BlockObj("wait-relay-stuck", be, func() bool { return be.InWrite > 0 })
			vs.Event("peer B sends two more requests while A's handler is stuck writing to B")
			be.Deliver(3, srvReq(1, 1))
			vs.Yield("env")
			be.Deliver(5, srvReq(1, 2))
		})
	}
	check := func(s *vs.Sched) string {
		var v []string
		if !c08rb.relayed {
			v = append(v, "harness: the relay never happened")
		}
		if fmt.Sprint(c08rb.handledB) != "[1 2 3]" {
			v = append(v, fmt.Sprintf("multistream connection B: messages %v handled, the peer sent [1 2 3] (the last two while a handler of connection A was blocked writing to B)", c08rb.handledB))
		}
		for _, p := range s.Panics() {
			v = append(v, "panic: "+p)
		}
		return strings.Join(v, " | ")
	}
	return &Scenario{Name: fmt.Sprintf("dispatch/relay-to-a-multistream-peer-that-does-not-read/raw-write=%v", raw), Body: body, Check: check, Bound: bound, Horizon: 10 * time.Second,
		Outcome: func(s *vs.Sched) string { return fmt.Sprint(c08rb.handledB) }}
}

// c15ReporterPanics: the server's Handler is an application type that implements ErrorReporter
// itself, and its Error method panics on the report of a read error (it dereferences the report's
// Message, which is nil for errors raised by the read loop). That is a handler panic like any
// other: connection A is closed, B goes on being served, a later connection C is accepted.
type c15PanickyHandler struct {
	mux     *diam.ServeMux
	reports int
	blocks  *vs.Chan[struct{}] // non-nil: the reporter does not panic, it blocks for ever (a synchronous hand-off nobody takes)
}

func (h *c15PanickyHandler) ServeDIAM(c diam.Conn, m *diam.Message) { h.mux.ServeDIAM(c, m) }
func (h *c15PanickyHandler) Error(er *diam.ErrorReport) {
	h.reports++
	if h.blocks != nil {
		vs.Event("application error reporter called; it blocks")
		h.blocks.Recv()
		return
	}
	vs.Event("application error reporter called; it dereferences the report's message")
	_ = er.Message.Header.CommandCode // nil Message: panics
}
func (h *c15PanickyHandler) ErrorReports() *vs.Chan[*diam.ErrorReport] { return nil } // the instrumented build declares channels as vs.Chan

var c15rp struct {
	a, b, c *vnet.Conn
	h       *c15PanickyHandler
	served  bool
}

func c15ReporterPanics(fault string, bound int) *Scenario {
	body := func() {
		st := &c15rp
		st.served = false
		a, b, c := vnet.NewConn("A"), vnet.NewConn("B"), vnet.NewConn("C")
		a.Pieces, b.Pieces, c.Pieces = 1, 1, 1
		st.a, st.b, st.c = a, b, c
		lis := vnet.NewListener()
		mux := diam.NewServeMux()
		mux.HandleFunc("ALL", func(cn diam.Conn, m *diam.Message) {
			ans := m.Answer(2001)
			ans.Header.HopByHopID, ans.Header.EndToEndID = m.Header.HopByHopID, m.Header.EndToEndID
			ans.WriteTo(cn)
		})
		st.h = &c15PanickyHandler{mux: mux}
		if strings.HasSuffix(fault, "/reporter-blocks") {
			st.h.blocks = vs.NewChan[struct{}](0)
		}
		srv := &diam.Server{Handler: st.h, Dict: dict.Default}
		lis.Offer(vnet.AcceptItem{Conn: a})
		lis.Offer(vnet.AcceptItem{Conn: b})
		vs.GoNamed("serve", false, func() { srv.Serve(lis); st.served = true })
		vs.GoNamed("peerA", true, func() {
			a.Deliver(srvReq(0, 0))
			vs.BlockObj("wait-A-answered", a, func() bool { return len(a.Out) > 0 || a.Closed })
			switch strings.TrimSuffix(fault, "/reporter-blocks") {
			case "garbage":
				bad := make([]byte, 20)
				bad[0], bad[3] = 1, 60
				bad[5], bad[6], bad[7] = 0xff, 0xff, 0xfe
				a.Deliver(append(bad, ghost40(1)...))
			case "cut":
				m := srvReq(0, 1)
				a.Deliver(m[:len(m)-7])
				a.PeerEOF()
			}
		})
		vs.GoNamed("peerB", true, func() {
			b.Deliver(srvReq(1, 0))
			vs.BlockObj("wait-A-gone", a, func() bool { return a.Closed })
			b.Deliver(srvReq(1, 1))
			c.Deliver(srvReq(2, 0))
			lis.Offer(vnet.AcceptItem{Conn: c})
		})
	}
	check := func(s *vs.Sched) string {
		st := &c15rp
		var v []string
		for _, p := range s.Panics() {
			v = append(v, "panic escaped (an unrecovered panic in a library goroutine ends the process): "+p)
		}
		if !st.a.Closed {
			v = append(v, "the faulty connection's transport was not closed")
		}
		if strings.HasPrefix(fault, "garbage") && st.h.reports == 0 {
			v = append(v, "undecodable input: no error report was offered to the handler's ErrorReporter")
		}
		if got := fmt.Sprint(answersOn(st.b)); got != "[1 2]" {
			v = append(v, "healthy connection B received answers "+got+", expected [1 2]")
		}
		if got := fmt.Sprint(answersOn(st.c)); got != "[1]" {
			v = append(v, "connection C, offered after the fault, received answers "+got+", expected [1]")
		}
		if st.b.Closed || st.c.Closed {
			v = append(v, "a healthy connection was closed")
		}
		if st.served {
			v = append(v, "Serve returned")
		}
		return strings.Join(v, " | ")
	}
	return &Scenario{Name: "faults/error-reporter-of-the-handler-panics/" + fault, Body: body, Check: check, Bound: bound, Horizon: 10 * time.Second,
		Outcome: func(s *vs.Sched) string { return fmt.Sprintf("reports=%d B=%v", c15rp.h.reports, answersOn(c15rp.b)) }}
}

// c08UnmatchedNoReader: two connections each send two requests no handler matches (an error report
// is offered for each; the application never reads ErrorReports, which is optional) and then one
// that is handled. Offering a report never holds a dispatcher up: both handled requests arrive.
var c08un struct {
	handled map[uint32]int
}

// c08ManyConnections: 1100 connections on one ServeMux (more than any fixed-size table of a
// thousand entries). Mode "blocked": the handler of every connection but the last blocks for ever;
// the last connection's request is still handled. Mode "closing": 1100 idle connections are closed
// by their peers one after the other; every transport is closed and a connection made afterwards
// is served. One deterministic schedule each (the dimension is the number of connections).
func c08ManyConnections(r *SeqResult) {
	const conns = 1100
	saved := vs.DefaultMaxSteps
	vs.DefaultMaxSteps = 5000000
	defer func() { vs.DefaultMaxSteps = saved }()
	for _, mode := range []string{"blocked", "closing"} {
		mode := mode
		handled := map[uint32]int{}
		var all []*vnet.Conn
		s := vs.Run(nil, false, 0, false, func() {
			never := vs.NewChan[struct{}](0)
			mux := diam.NewServeMux()
			mux.HandleFunc("ALL", func(c diam.Conn, m *diam.Message) {
				handled[m.Header.HopByHopID]++
				if mode == "blocked" && m.Header.HopByHopID <= conns {
					never.Recv()
				}
				m.Answer(2001).WriteTo(c)
			})
			req := func(i int) []byte {
				return refcodec.EncodeMessage(refcodec.Header{Version: 1, Flags: 0x80, Code: 280, HbH: uint32(i), E2E: 1}, []refcodec.Node{ident(264, "c"), ident(296, "r")})
			}
			// all connections exist and wait for input (a pause on the virtual clock ends when nothing
			// else can move: every reader is parked in Read) before anything arrives
			for i := 1; i <= conns+1; i++ {
				c := vnet.NewConn(fmt.Sprintf("K%d", i))
				c.Pieces = 1
				all = append(all, c)
				if _, err := diam.NewConn(c, "peer", mux, dict.Default); err != nil {
					panic(err)
				}
			}
			vs.TimeSleep(time.Millisecond)
			for i := 1; i <= conns; i++ {
				if mode == "blocked" {
					all[i-1].Deliver(req(i))
				} else {
					all[i-1].PeerEOF()
				}
			}
			vs.TimeSleep(time.Millisecond)
			all[conns].Deliver(req(conns + 1))
			vs.TimeSleep(time.Millisecond)
		})
		capped := s.Capped
		s.Teardown()
		r.Cases++
		r.Distinct++
		if capped {
			r.Capped++
			continue
		}
		if r.Violation != "" {
			continue
		}
		var v []string
		if handled[conns+1] != 1 {
			v = append(v, fmt.Sprintf("the request of connection %d was received but its handler did not run (handlers entered: %d)", conns+1, len(handled)))
		}
		if mode == "closing" {
			open := 0
			for _, c := range all[:conns] {
				if !c.Closed {
					open++
				}
			}
			if open > 0 {
				v = append(v, fmt.Sprintf("%d of %d transports whose peers hung up were never closed", open, conns))
			}
		} else if len(handled) != conns+1 {
			v = append(v, fmt.Sprintf("%d of %d handlers were entered", len(handled), conns+1))
		}
		for _, p := range s.Panics() {
			v = append(v, "panic: "+p)
		}
		if len(v) > 0 {
			r.Violation = fmt.Sprintf("%d connections on one ServeMux, mode %q (blocked: every handler but the last blocks for ever; closing: the peers of the first %d hang up without sending): %s", conns+1, mode, conns, strings.Join(v, " | "))
			r.Case = map[string]interface{}{"mode": mode, "conns": conns}
		}
	}
	if r.Sample == "" {
		r.Sample = "1101 connections, handlers of 1100 blocked / 1100 closed by their peers: the last one is served"
	}
}

// c08MuxSideEffects: things an application does to a ServeMux (or to another one) that must not
// hold up dispatch. "nil-registration": a registration with a nil handler is refused with a panic,
// which the application recovers; the mux goes on dispatching and registering. "unrelated-mux":
// while the handler of connection A (mux X) is blocked, a goroutine sets up a brand-new mux Y;
// a request arriving on connection B (mux X) afterwards is still dispatched.
var c08se struct {
	handled    map[uint32]int
	registered bool
	refused    int
}

func c08MuxSideEffects(mode string, bound int) *Scenario {
	body := func() {
		st := &c08se
		st.handled, st.registered, st.refused = map[uint32]int{}, false, 0
		never := vs.NewChan[struct{}](0)
		mux := diam.NewServeMux()
		h := func(c diam.Conn, m *diam.Message) {
			st.handled[m.Header.HopByHopID]++
			vs.Touch(never, "handler-entered")
			if mode == "unrelated-mux" && m.Header.HopByHopID == 1 {
				never.Recv()
			}
			m.Answer(2001).WriteTo(c)
		}
		mux.HandleFunc("ALL", h)
		a, b := vnet.NewConn("A"), vnet.NewConn("B")
		a.Pieces, b.Pieces = 1, 1
		req := func(i uint32) []byte {
			return refcodec.EncodeMessage(refcodec.Header{Version: 1, Flags: 0x80, Code: 280, HbH: i, E2E: 1}, []refcodec.Node{ident(264, "c"), ident(296, "r")})
		}
		for _, c := range []*vnet.Conn{a, b} {
			if _, err := diam.NewConn(c, "peer", mux, dict.Default); err != nil {
				panic(err)
			}
		}
		vs.GoNamed("application", true, func() {
			if mode == "nil-registration" {
				for _, reg := range []func(){
					func() { mux.Handle("DWR", nil) },
					func() { mux.HandleIdx(diam.CommandIndex{AppID: 0, Code: 280, Request: true}, nil) },
					func() { mux.Handle("ALL", nil) },
				} {
					func() {
						defer func() {
							if recover() != nil {
								st.refused++
							}
						}()
						reg()
					}()
				}
				a.Deliver(req(1))
				vs.TimeSleep(time.Millisecond)
				mux.HandleFunc("DWR", h) // a later, valid registration
				st.registered = true
				b.Deliver(req(2))
				return
			}
			a.Deliver(req(1))
			vs.BlockObj("wait-A-handler", never, func() bool { return st.handled[1] > 0 })
			vs.GoNamed("application-sets-up-another-mux", true, func() {
				y := diam.NewServeMux()
				y.HandleFunc("ALL", func(diam.Conn, *diam.Message) {})
				y.HandleIdx(diam.CommandIndex{AppID: 4, Code: 272, Request: true}, diam.HandlerFunc(func(diam.Conn, *diam.Message) {}))
				st.registered = true
			})
			vs.TimeSleep(time.Millisecond) // ends when nothing else can move
			b.Deliver(req(2))
		})
	}
	check := func(s *vs.Sched) string {
		st := &c08se
		var v []string
		if mode == "nil-registration" {
			if st.refused != 3 {
				v = append(v, fmt.Sprintf("%d of 3 registrations with a nil handler were refused", st.refused))
			}
			if st.handled[1] != 1 {
				v = append(v, "the request on connection A, arriving after the refused registrations, was not dispatched")
			}
		}
		if !st.registered {
			v = append(v, "a registration (valid, on this mux or on an unrelated new one) never returned")
		}
		if st.handled[2] != 1 {
			v = append(v, "the request on connection B was received but not dispatched")
		}
		for _, p := range s.Panics() {
			v = append(v, "panic: "+p)
		}
		return strings.Join(v, " | ")
	}
	return &Scenario{Name: "dispatch/mux-side-effects/" + mode, Body: body, Check: check, Bound: bound, Horizon: 5 * time.Second,
		Outcome: func(s *vs.Sched) string { return fmt.Sprint(c08se.handled, c08se.registered) }}
}

func c08UnmatchedNoReader(bound int) *Scenario {
	body := func() {
		c08un.handled = map[uint32]int{}
		lis := vnet.NewListener()
		mux := diam.NewServeMux()
		mux.HandleFunc("DWR", func(c diam.Conn, m *diam.Message) {
			c08un.handled[m.Header.HopByHopID]++
		})
		srv := &diam.Server{Handler: mux, Dict: dict.Default}
		for ci := 0; ci < 2; ci++ {
			c := vnet.NewConn(string(rune('A' + ci)))
			c.Pieces = 1
			base := []refcodec.Node{ident(264, "c"), ident(296, "r")}
			var all []byte
			all = append(all, refcodec.EncodeMessage(refcodec.Header{Version: 1, Flags: 0x80, Code: 258, HbH: uint32(ci + 1), E2E: 1}, base)...)
			all = append(all, refcodec.EncodeMessage(refcodec.Header{Version: 1, Flags: 0x80, Code: 275, HbH: uint32(ci + 1), E2E: 2}, base)...)
			all = append(all, refcodec.EncodeMessage(refcodec.Header{Version: 1, Flags: 0x80, Code: 280, HbH: uint32(ci + 1), E2E: 3}, base)...)
			c.Deliver(all)
			lis.Offer(vnet.AcceptItem{Conn: c})
		}
		vs.GoNamed("serve", false, func() { srv.Serve(lis) })
	}
	check := func(s *vs.Sched) string {
		var v []string
		for ci := uint32(1); ci <= 2; ci++ {
			if c08un.handled[ci] != 1 {
				v = append(v, fmt.Sprintf("connection %c: its handled request (behind two requests no handler matches) was dispatched %d times, expected once (library goroutines blocked: %v)", 'A'+ci-1, c08un.handled[ci], s.BlockedLib()))
			}
		}
		for _, p := range s.Panics() {
			v = append(v, "panic: "+p)
		}
		return strings.Join(v, " | ")
	}
	return &Scenario{Name: "dispatch/unmatched-requests-with-no-error-report-reader", Body: body, Check: check, Bound: bound, Horizon: 10 * time.Second,
		Outcome: func(s *vs.Sched) string { return fmt.Sprint(c08un.handled) }}
}

// c08HandlerLoadsDictionary: the handler of connection A's first message loads a PRIVATE dictionary
// (dict.NewParser) from a source that never delivers - it stays blocked inside Parser.Load. The
// private parser is nobody else's business: connection B's messages are dispatched regardless.
var c08ld struct {
	handledB []uint32
	loading  bool
}

func c08HandlerLoadsDictionary(bound int) *Scenario {
	body := func() {
		c08ld.handledB, c08ld.loading = nil, false
		a, b := vnet.NewConn("A"), vnet.NewConn("B")
		a.Pieces, b.Pieces = 1, 1
		lis := vnet.NewListener()
		mux := diam.NewServeMux()
		mux.HandleFunc("ALL", func(c diam.Conn, m *diam.Message) {
			if m.Header.HopByHopID == 2 {
				c08ld.handledB = append(c08ld.handledB, m.Header.EndToEndID)
				return
			}
			p, err := dict.NewParser()
			if err != nil {
				return
			}
			pr, _ := vs.Pipe() // a dictionary source that never delivers a byte
			c08ld.loading = true
			vs.Touch(a, "loading")
			vs.Event("handler on A loads a private dictionary from a source that does not deliver")
			p.Load(pr)
		})
		srv := &diam.Server{Handler: mux, Dict: dict.Default}
		a.Deliver(srvReq(0, 0))
		lis.Offer(vnet.AcceptItem{Conn: a})
		lis.Offer(vnet.AcceptItem{Conn: b})
		vs.GoNamed("serve", false, func() { srv.Serve(lis) })
		vs.GoNamed("peerB", true, func() {
			vs.BlockObj("wait-A-loading", a, func() bool { return c08ld.loading })
			vs.Yield("env")
			b.Deliver(srvReq(1, 0))
			vs.Yield("env")
			b.Deliver(srvReq(1, 1))
		})
	}
	check := func(s *vs.Sched) string {
		var v []string
		if !c08ld.loading {
			v = append(v, "harness: the handler of A never started loading")
		}
		if fmt.Sprint(c08ld.handledB) != "[1 2]" {
			v = append(v, fmt.Sprintf("connection B: messages %v handled, the peer sent [1 2] while a handler of connection A was blocked loading a private dictionary (library goroutines blocked: %v)", c08ld.handledB, s.BlockedLib()))
		}
		for _, p := range s.Panics() {
			v = append(v, "panic: "+p)
		}
		return strings.Join(v, " | ")
	}
	return &Scenario{Name: "dispatch/handler-blocked-loading-a-private-dictionary", Body: body, Check: check, Bound: bound, Horizon: 10 * time.Second,
		Outcome: func(s *vs.Sched) string { return fmt.Sprint(c08ld.handledB) }}
}

// c08RegisterWhileDispatching: an application goroutine registers handlers on the running ServeMux
// (three registrations, at every possible instant) while a connection's messages are being
// dispatched - by short name, by index and to the catch-all. Every message is handled, every
// registration returns.
var c08rw struct {
	handled    []string
	registered int
}

func c08RegisterWhileDispatching(bound int) *Scenario {
	body := func() {
		c08rw.handled, c08rw.registered = nil, 0
		a := vnet.NewConn("A")
		a.Pieces = 1
		lis := vnet.NewListener()
		mux := diam.NewServeMux()
		mux.HandleFunc("DWR", func(c diam.Conn, m *diam.Message) { c08rw.handled = append(c08rw.handled, "name") })
		mux.HandleIdx(diam.CommandIndex{AppID: 0, Code: 258, Request: true}, diam.HandlerFunc(func(c diam.Conn, m *diam.Message) { c08rw.handled = append(c08rw.handled, "index") }))
		mux.HandleFunc("ALL", func(c diam.Conn, m *diam.Message) { c08rw.handled = append(c08rw.handled, "all") })
		srv := &diam.Server{Handler: mux, Dict: dict.Default}
		base := []refcodec.Node{ident(264, "c"), ident(296, "r")}
		var all []byte
		all = append(all, refcodec.EncodeMessage(refcodec.Header{Version: 1, Flags: 0x80, Code: 280, HbH: 1, E2E: 1}, base)...)
		all = append(all, refcodec.EncodeMessage(refcodec.Header{Version: 1, Flags: 0x80, Code: 258, HbH: 1, E2E: 2}, base)...)
		all = append(all, refcodec.EncodeMessage(refcodec.Header{Version: 1, Flags: 0x80, Code: 275, HbH: 1, E2E: 3}, base)...)
		a.Deliver(all)
		lis.Offer(vnet.AcceptItem{Conn: a})
		vs.GoNamed("serve", false, func() { srv.Serve(lis) })
		vs.GoNamed("app-register", true, func() {
			for i, k := range []string{"STR", "ACR", "ASR"} {
				_ = i
				k := k
				mux.HandleFunc(k, func(diam.Conn, *diam.Message) { c08rw.handled = append(c08rw.handled, "new-"+k) })
				c08rw.registered++
				vs.Yield("env")
			}
		})
	}
	check := func(s *vs.Sched) string {
		var v []string
		if got := fmt.Sprint(c08rw.handled); got != "[name index all]" && got != "[name index new-STR]" {
			v = append(v, fmt.Sprintf("handlers that ran for DWR, RAR, STR-before-its-registration: %v, expected [name index all] or with the third handled by the new STR handler (library goroutines blocked: %v)", c08rw.handled, s.BlockedLib()))
		}
		if c08rw.registered != 3 {
			v = append(v, fmt.Sprintf("%d of 3 run-time registrations returned", c08rw.registered))
		}
		for _, p := range s.Panics() {
			v = append(v, "panic: "+p)
		}
		return strings.Join(v, " | ")
	}
	return &Scenario{Name: "dispatch/registration-at-run-time-while-dispatching", Body: body, Check: check, Bound: bound, Horizon: 10 * time.Second,
		Outcome: func(s *vs.Sched) string { return fmt.Sprint(c08rw.handled, c08rw.registered) }}
}

// c08ConcurrentRegistrars: TWO application goroutines register handlers on one ServeMux at the same
// time (names, an index, the catch-all, and one key both of them register), at every relative
// instant; when both have returned, a connection delivers one message per key. A registration that
// has returned is in force: every message reaches the handler registered for it, exactly once.
var c08cr struct {
	handled []string
	done    int
}

func c08ConcurrentRegistrars(bound int) *Scenario {
	body := func() {
		c08cr.handled, c08cr.done = nil, 0
		a := vnet.NewConn("A")
		a.Pieces = 1
		lis := vnet.NewListener()
		mux := diam.NewServeMux()
		h := func(tag string) diam.HandlerFunc {
			return func(c diam.Conn, m *diam.Message) { c08cr.handled = append(c08cr.handled, tag) }
		}
		mux.HandleIdx(diam.CommandIndex{AppID: 0, Code: 258, Request: true}, h("setup-index-RAR"))
		srv := &diam.Server{Handler: mux, Dict: dict.Default}
		base := []refcodec.Node{ident(264, "c"), ident(296, "r")}
		var all []byte
		for i, code := range []uint32{280, 258, 275, 271, 274, 272} {
			app := uint32(0)
			if code == 271 {
				app = 3
			}
			if code == 272 {
				app = 4
			}
			all = append(all, refcodec.EncodeMessage(refcodec.Header{Version: 1, Flags: 0x80, Code: code, App: app, HbH: 1, E2E: uint32(i + 1)}, base)...)
		}
		finish := func() {
			c08cr.done++
			if c08cr.done == 2 {
				a.Deliver(all)
				lis.Offer(vnet.AcceptItem{Conn: a})
				vs.GoNamed("serve", false, func() { srv.Serve(lis) })
			}
		}
		vs.GoNamed("app-register-1", true, func() {
			mux.HandleFunc("STR", h("g1-name-STR"))
			vs.Yield("env")
			mux.HandleIdx(diam.CommandIndex{AppID: 3, Code: 271, Request: true}, h("g1-index-ACR"))
			vs.Yield("env")
			mux.HandleFunc("ASR", h("g1-name-ASR")) // the key both register: either may win, one of them must
			finish()
		})
		vs.GoNamed("app-register-2", true, func() {
			mux.HandleFunc("DWR", h("g2-name-DWR"))
			vs.Yield("env")
			mux.HandleFunc("ALL", h("g2-all"))
			vs.Yield("env")
			mux.Handle("ASR", h("g2-name-ASR"))
			finish()
		})
	}
	check := func(s *vs.Sched) string {
		var v []string
		got := fmt.Sprint(c08cr.handled)
		if got != "[g2-name-DWR setup-index-RAR g1-name-STR g1-index-ACR g1-name-ASR g2-all]" && got != "[g2-name-DWR setup-index-RAR g1-name-STR g1-index-ACR g2-name-ASR g2-all]" {
			v = append(v, fmt.Sprintf("two goroutines registered handlers at the same time and both returned; then DWR, RAR, STR, ACR, ASR, CCR arrived: handlers that ran: %v, expected [g2-name-DWR setup-index-RAR g1-name-STR g1-index-ACR g1-name-ASR|g2-name-ASR g2-all] (registrars returned: %d of 2; library goroutines blocked: %v)", c08cr.handled, c08cr.done, s.BlockedLib()))
		}
		for _, p := range s.Panics() {
			v = append(v, "panic: "+p)
		}
		return strings.Join(v, " | ")
	}
	return &Scenario{Name: "dispatch/two-goroutines-register-at-the-same-time", Body: body, Check: check, Bound: bound, Horizon: 10 * time.Second,
		Outcome: func(s *vs.Sched) string { return fmt.Sprint(c08cr.handled, c08cr.done) }}
}
