package bcheck

import (
	"context"
	"crypto/tls"
	"fmt"
	"net"
	"strings"
	"time"

	"github.com/fiorix/go-diameter/v4/diam"
	"github.com/fiorix/go-diameter/v4/diam/avp"
	"github.com/fiorix/go-diameter/v4/diam/datatype"
	"github.com/fiorix/go-diameter/v4/diam/dict"
	"github.com/fiorix/go-diameter/v4/diam/sm"
	"verif/internal/refcodec"
	"verif/vnet"
	vs "verif/vsched"
)

// C10 — no application handler runs before the capabilities exchange succeeds.

func init() {
	Registry["C10"] = &Check{
		Scenarios: c10Scenarios,
		Rule: "scheduled (preemption bound 2, thorough 3): an application goroutine consumes HandshakeNotify and attaches a value to the connection context (Context / SetContext) at every instant relative to the serving goroutine, the peer sends RAR and CCR once it has the CEA; the server side of a connection over TLS (crypto/tls on both ends of the in-memory transport): CER with Inband-Security-Id {absent, 0, 1} x applications {shared, unsupported, none, vendor-specific unsupported, wrong type} followed by RAR / STR / ACR in the same TLS record; one state machine serves 300 sequential peers (CER, then RAR / STR / ACR for the by-name, by-index and catch-all handlers), with the optional HandshakeNotify channel never read, drained, and read once (the application stays busy with its first peer); Disconnect-Peer requests among the application messages of every history; on the server side another peer has completed its capabilities exchange with the same state machine on a connection of its own before every history; message flag bits P and T rotate with the position in the history; server side: every history of <=4 (thorough 5) peer messages over {acceptable CER, CER without common application, CER whose only application is 0xfffffffe (as Auth-, Acct- and vendor-specific id) or 0xfffffffd - neighbours of the relay id, CER lacking Origin-Host and every application AVP, retransmitted CER, DWR, RAR (app 0), RAA, CCR (app 4), ACR (app 3)}; client side (sm.Client.NewConn): every history of <=4 (thorough 5) messages over {success CEA, failing CEA (result code rotating over 5010, 1001, 3004, 1, 4001, 5012), application-less CEA, success CEA whose only application is 0xfffffffe / 0xfffffffd, a CER sent by the peer, DWR, RAR, RAA, CCA} sent in reply to the CER; application handlers registered by short name, by index and as catch-all (three configurations; names and the catch-all through HandleFunc in the one-segment histories and through Handle with a handler object in the others), each after attempts to register CER / CEA / DWR by name and by index; each history delivered in one segment and one segment per message; and histories (one shorter, with an unsolicited success CEA added to the alphabet) on an accepted connection served by a state machine that is also the handler of an sm.Client whose dial has completed. Plus scheduled scenarios (preemption bound 2, thorough 3): the peer never answers the CER and sends application requests half an interval before, exactly at and half an interval after the instant the client's handshake gives up. One deterministic schedule per history on the instrumented build (the quantifier is over histories; the scheduler supplies determinism and an exact notion of quiescence). Oracle: the sequence of application-handler invocations equals the gate model (invoked iff the handshake succeeded earlier on this connection), refused registrations never run, and the built-in CEA/DWA are still produced.",
		Assume: []string{"single default schedule per history", "reference gate model {handshake done, closed}"},
		QuickBudget: 120, ThoroughBudget: 1800,
	}
}

var c10ServerAlpha = []string{"cer", "cer-noapp", "cer-rsvapp", "cer-bare", "cer-retx", "dwr", "rar", "raa", "ccr", "acr", "dpr"}
var c10FailCodes = []uint32{5010, 1001, 3004, 1, 4001, 5012}

var c10ClientAlpha = []string{"cea", "cea-fail", "cea-noapp", "cea-rsvapp", "cer", "dwr", "rar", "raa", "cca", "dpr"}

func c10Msg(kind string, seq int) []byte {
	id := uint32(100 + seq)
	base := []refcodec.Node{ident(264, "peer"), ident(296, "test")}
	h := func(flags uint8, code, app uint32) refcodec.Header {
		// the proxiable / retransmitted bits rotate with the position in the history (for every kind,
		// the built-in CER and DWR processing included): only the R bit matters to dispatch
		flags |= []uint8{0, 0x40, 0x10, 0x50}[seq%4]
		return refcodec.Header{Version: 1, Flags: flags, Code: code, App: app, HbH: id, E2E: id}
	}
	cerAVPs := func(app uint32) []refcodec.Node {
		return append(append([]refcodec.Node{}, base...), refcodec.Node{Code: 257, Flags: 0x40, Payload: refcodec.Address(1, []byte{10, 0, 0, 9})},
			u32avp(266, 13), refcodec.Node{Code: 269, Payload: []byte("x")}, u32avp(258, app))
	}
	switch kind {
	case "cer", "cer-retx":
		return refcodec.EncodeMessage(h(0x80, 257, 0), cerAVPs(4))
	case "cer-noapp":
		if seq%2 == 1 {
			// the unsupported application sits in a Vendor-Specific-Application-Id group, behind its Vendor-Id
			av := cerAVPs(999)
			av[len(av)-1] = refcodec.Node{Code: 260, Flags: 0x40, Group: true, Children: []refcodec.Node{u32avp(266, 10415), u32avp(258, 999)}}
			return refcodec.EncodeMessage(h(0x80, 257, 0), av)
		}
		return refcodec.EncodeMessage(h(0x80, 257, 0), cerAVPs(999))
	case "cer-rsvapp":
		// the only application is an id next to the relay id 0xffffffff (which alone is common with
		// everything): reserved or merely unsupported ids are applications like 999
		return refcodec.EncodeMessage(h(0x80, 257, 0), append(cerAVPs(0)[:len(cerAVPs(0))-1], c10RsvApp(seq)))
	case "cer-bare":
		// unacceptable only because AVPs are ABSENT: no Origin-Host, no application AVP at all
		return refcodec.EncodeMessage(h(0x80, 257, 0), []refcodec.Node{ident(296, "test"), {Code: 257, Flags: 0x40, Payload: refcodec.Address(1, []byte{10, 0, 0, 9})},
			u32avp(266, 13), {Code: 269, Payload: []byte("x")}})
	case "dwr":
		// the header's Application-ID of a watchdog request rotates (0 as the RFC says, or the id of
		// the application the peers talk): it is a DWR either way, handled by the state machine
		return refcodec.EncodeMessage(h(0x80, 280, []uint32{0, 4, 0, 16777251}[seq%4]), base)
	case "rar":
		return refcodec.EncodeMessage(h(0x80, 258, 0), base)
	case "raa":
		return refcodec.EncodeMessage(h(0x00, 258, 0), append([]refcodec.Node{u32avp(268, 2001)}, base...))
	case "ccr":
		return refcodec.EncodeMessage(h(0x80, 272, 4), base)
	case "cca":
		return refcodec.EncodeMessage(h(0x00, 272, 4), append([]refcodec.Node{u32avp(268, 2001)}, base...))
	case "acr":
		return refcodec.EncodeMessage(h(0x80, 271, 3), base)
	case "dpr":
		// Disconnect-Peer-Request: a base-protocol command the state machine has no built-in
		// processing for - an application message like any other
		return refcodec.EncodeMessage(h(0x80, 282, 0), append([]refcodec.Node{{Code: 273, Flags: 0x40, Payload: refcodec.U32(0)}}, base...))
	}
	panic(kind)
}

// c10RsvApp: application AVPs naming ids at the top of the 32-bit range that are NOT the relay id:
// 0xfffffffe as Auth-Application-Id, as Acct-Application-Id and inside a
// Vendor-Specific-Application-Id group, and 0xfffffffd.
func c10RsvApp(seq int) refcodec.Node {
	switch seq % 4 {
	case 1:
		return u32avp(259, 0xfffffffe)
	case 2:
		return refcodec.Node{Code: 260, Flags: 0x40, Group: true, Children: []refcodec.Node{u32avp(266, 10415), u32avp(258, 0xfffffffe)}}
	case 3:
		return u32avp(258, 0xfffffffd)
	}
	return u32avp(258, 0xfffffffe)
}

// appKey is the handler key a message of this kind selects ("" = not an application message).
func c10AppKey(kind string) string {
	switch kind {
	case "rar":
		return "RAR"
	case "raa":
		return "RAA"
	case "ccr":
		return "CCR"
	case "cca":
		return "CCA"
	case "acr":
		return "ACR"
	case "dpr":
		return "DPR"
	}
	return ""
}

var c10Idx = map[string]diam.CommandIndex{
	"RAR": {AppID: 0, Code: 258, Request: true}, "RAA": {AppID: 0, Code: 258, Request: false},
	"CCR": {AppID: 4, Code: 272, Request: true}, "CCA": {AppID: 4, Code: 272, Request: false},
	"ACR": {AppID: 3, Code: 271, Request: true},
	"DPR": {AppID: 0, Code: 282, Request: true},
}

type c10Run struct {
	invoked   []string // application handler invocations, in order
	forbidden []string // invocations of handlers whose registration must have been refused
}

// c10UseObjects selects the registration entry point for short names and the catch-all:
// StateMachine.HandleFunc (false) or StateMachine.Handle with a handler object (true).
var c10UseObjects bool

func c10Register(mach *sm.StateMachine, cfg string, r *c10Run) {
	bad := func(name string) diam.HandlerFunc {
		return func(c diam.Conn, m *diam.Message) { r.forbidden = append(r.forbidden, name) }
	}
	// attempts to replace the built-in processing
	mach.HandleFunc("CER", bad("CER by name"))
	mach.HandleFunc("CEA", bad("CEA by name"))
	mach.HandleFunc("DWR", bad("DWR by name"))
	mach.HandleIdx(diam.CommandIndex{AppID: 0, Code: 257, Request: true}, bad("CER by index"))
	mach.HandleIdx(diam.CommandIndex{AppID: 0, Code: 257, Request: false}, bad("CEA by index"))
	mach.HandleIdx(diam.CommandIndex{AppID: 0, Code: 280, Request: true}, bad("DWR by index"))
	app := func(key string) diam.HandlerFunc {
		return func(c diam.Conn, m *diam.Message) {
			got := key
			if key == "ALL" {
				got = "ALL"
			}
			r.invoked = append(r.invoked, fmt.Sprintf("%s:%d", got, m.Header.HopByHopID))
		}
	}
	switch cfg {
	case "name":
		for k := range c10Idx {
			if c10UseObjects {
				mach.Handle(k, diam.HandlerFunc(app(k)))
			} else {
				mach.HandleFunc(k, app(k))
			}
		}
	case "index":
		for k, idx := range c10Idx {
			mach.HandleIdx(idx, app(k))
		}
	case "all":
		if c10UseObjects {
			mach.Handle("ALL", diam.HandlerFunc(app("ALL")))
		} else {
			mach.HandleFunc("ALL", app("ALL"))
		}
	}
	// drain refused-registration reports so that the capacity-1 channel does not matter
	for {
		if i, _ := vs.Select(true, vs.RecvCase(mach.ErrorReports())); i < 0 {
			break
		}
	}
}

func c10Settings() *sm.Settings {
	return &sm.Settings{OriginHost: "local", OriginRealm: "test", VendorID: 13, ProductName: "prod",
		HostIPAddresses: []datatype.Address{datatype.Address(net.ParseIP("10.0.0.1"))}}
}

func c10Histories(alpha []string, first string, maxLen int) [][]string {
	var out [][]string
	var rec func(cur []string)
	rec = func(cur []string) {
		out = append(out, append([]string{}, cur...))
		if len(cur) == maxLen {
			return
		}
		for _, a := range alpha {
			rec(append(cur, a))
		}
	}
	rec([]string{first})
	return out
}

func c10Scenarios(tier string) []*Scenario {
	maxLen := 4
	if tier == "thorough" {
		maxLen = 5
	}
	var out []*Scenario
	tb := 2
	if tier == "thorough" {
		tb = 3
	}
	for _, cfg := range []string{"name", "index", "all"} {
		for _, at := range []time.Duration{time.Second / 2, time.Second, 3 * time.Second / 2} {
			out = append(out, c10TimeoutTie(cfg, at, tb))
		}
	}
	for _, cfg := range []string{"name", "index", "all"} {
		out = append(out, c10NotifyConsumer(cfg, tb))
	}
	out = append(out, &Scenario{Name: "server/tls-connection", Seq: c10OverTLS})
	for _, drain := range []string{"never", "always", "once"} {
		drain := drain
		out = append(out, &Scenario{Name: "server/many-sequential-peers/handshake-notify-read=" + drain, Seq: func(r *SeqResult) { c10ManyPeers(r, drain) }})
	}
	for _, cfg := range []string{"name", "index", "all"} {
		for _, oneSeg := range []bool{true, false} {
			for _, first := range c10ServerAlpha {
				cfg, oneSeg, first := cfg, oneSeg, first
				out = append(out, &Scenario{Name: fmt.Sprintf("server/%s/oneseg=%v/first=%s", cfg, oneSeg, first),
					Seq: func(r *SeqResult) { c10Server(r, cfg, oneSeg, c10Histories(c10ServerAlpha, first, maxLen)) }})
			}
			for _, first := range c10ClientAlpha {
				cfg, oneSeg, first := cfg, oneSeg, first
				out = append(out, &Scenario{Name: fmt.Sprintf("client/%s/oneseg=%v/first=%s", cfg, oneSeg, first),
					Seq: func(r *SeqResult) { c10Client(r, cfg, oneSeg, c10Histories(c10ClientAlpha, first, maxLen)) }})
			}
		}
		sharedAlpha := append(append([]string{}, c10ServerAlpha...), "cea")
		for _, first := range sharedAlpha {
			cfg, first := cfg, first
			out = append(out, &Scenario{Name: fmt.Sprintf("shared-state-machine/%s/first=%s", cfg, first),
				Seq: func(r *SeqResult) { c10Shared(r, cfg, c10Histories(sharedAlpha, first, maxLen-1)) }})
		}
	}
	return out
}

// c10Shared: ONE state machine is used both by an sm.Client whose dial has completed and as the
// handler of an accepted connection; the histories arrive on the accepted connection and may
// contain an unsolicited success CEA. No application handler may run on that connection
// before an acceptable CER was answered on it.
func c10Shared(r *SeqResult, cfg string, hists [][]string) {
	for _, hist := range hists {
		hist := hist
		run := &c10Run{}
		var dialOK bool
		s := vs.Run(nil, false, 5*time.Second, false, func() {
			mach := sm.New(c10Settings())
			c10Register(mach, cfg, run)
			// 1. an outbound dial on this state machine completes
			out := vnet.NewConn("OUT")
			out.Pieces = 1
			cli := &sm.Client{Handler: mach, Dict: dict.Default, MaxRetransmits: 0, RetransmitInterval: time.Second,
				AuthApplicationID: []*diam.AVP{diam.NewAVP(avp.AuthApplicationID, avp.Mbit, 0, datatype.Unsigned32(4))}}
			vs.GoNamed("peer-out", true, func() {
				p := &Peer{C: out}
				if cer := p.Next(); cer != nil {
					out.Deliver(peerAnswer(cer, 2001, true))
				}
			})
			c, err := cli.NewConn(out, "peer")
			dialOK = c != nil && err == nil
			// 2. an accepted connection served by the same state machine
			in := vnet.NewConn("IN")
			in.Pieces = 1
			for i, k := range hist {
				if k == "cea" {
					fake := &PMsg{Hdr: refcodec.Header{Version: 1, Flags: 0x80, Code: 257, HbH: uint32(100 + i), E2E: uint32(100 + i)}}
					in.Deliver(peerAnswer(fake, 2001, true))
				} else {
					in.Deliver(c10Msg(k, i))
				}
			}
			if _, err := diam.NewConn(in, "peer2", mach, dict.Default); err != nil {
				panic(err)
			}
		})
		s.Teardown()
		r.Cases++
		r.Distinct++
		if r.Sample == "" && len(hist) == 3 {
			r.Sample = fmt.Sprintf("shared state machine (client dial done: %v), config=%s, history on the accepted connection %v -> invocations %v", dialOK, cfg, hist, run.invoked)
		}
		if r.Violation != "" {
			continue
		}
		hs, closed, sawCEA := false, false, false
		forbidden := map[string]bool{}
		var want []string
		for i, k := range hist {
			switch k {
			case "cer", "cer-retx":
				// after an unsolicited CEA the connection may carry metadata already: a CER is then ignored
				if !hs && !closed && !sawCEA {
					hs = true
				}
			case "cer-noapp", "cer-rsvapp", "cer-bare":
				if !hs && !closed && !sawCEA {
					closed = true
				}
			case "cea":
				sawCEA = true
			case "dwr":
			default:
				if !hs {
					forbidden[c10Expect(cfg, k, i)] = true
				} else if !sawCEA && !closed {
					want = append(want, c10Expect(cfg, k, i))
				}
			}
		}
		v := ""
		for _, inv := range run.invoked {
			if forbidden[inv] {
				v = fmt.Sprintf("application handler %s ran on the accepted connection although no CER had been accepted on it (invocations %v)", inv, run.invoked)
			}
		}
		if v == "" && !dialOK {
			v = "harness: the preliminary client dial failed"
		}
		// (No "required" half here: a client dial replaces the state machine's CER processing, so
		// whether an accepted connection of a shared state machine can complete a handshake at all
		// is outside the statement; only the gate is checked.)
		_ = want
		if v == "" && len(run.forbidden) > 0 {
			v = fmt.Sprintf("a handler whose registration must be refused was invoked: %v", run.forbidden)
		}
		if v != "" {
			r.Violation = fmt.Sprintf("state machine shared between a completed client dial and an accepted connection, handlers registered by %s, history on the accepted connection %v: %s", cfg, hist, v)
			r.Case = map[string]interface{}{"side": "shared", "cfg": cfg, "history": hist}
		}
	}
}

func c10Expect(cfg string, kind string, seq int) string {
	k := c10AppKey(kind)
	if cfg == "all" {
		k = "ALL"
	}
	return fmt.Sprintf("%s:%d", k, 100+seq)
}

func c10Server(r *SeqResult, cfg string, oneSeg bool, hists [][]string) {
	for _, hist := range hists {
		hist := hist
		run := &c10Run{}
		var conn *vnet.Conn
		s := vs.Run(nil, false, 5*time.Second, false, func() {
			conn = vnet.NewConn("S")
			conn.Pieces = 1
			mach := sm.New(c10Settings())
			c10UseObjects = !oneSeg // one-segment histories register with HandleFunc, the others with Handle(name, handler object)
			c10Register(mach, cfg, run)
			// another peer has completed its capabilities exchange with this state machine before (on a
			// connection of its own): nothing of it may carry over to this connection
			pre := vnet.NewConn("P")
			pre.Pieces = 1
			pre.Deliver(c10Msg("cer", 90))
			if _, err := diam.NewConn(pre, "earlier-peer", mach, dict.Default); err != nil {
				panic(err)
			}
			vs.BlockObj("wait-earlier-handshake", pre, func() bool { return len(pre.Out) > 0 || pre.Closed })
			var all []byte
			for i, k := range hist {
				m := c10Msg(k, i)
				if oneSeg {
					all = append(all, m...)
				} else {
					conn.Deliver(m)
				}
			}
			if oneSeg {
				conn.Deliver(all)
			}
			if _, err := diam.NewConn(conn, "peer", mach, dict.Default); err != nil {
				panic(err)
			}
		})
		panics := s.Panics()
		s.Teardown()
		// gate model
		hs, closed := false, false
		var want []string
		wantCEA := []uint32{}
		wantDWA, minDWA := 0, 0
		for i, k := range hist {
			switch k {
			case "cer", "cer-retx":
				if !hs && !closed {
					hs = true
					wantCEA = append(wantCEA, 2001)
				}
			case "cer-noapp", "cer-rsvapp":
				if !hs && !closed {
					closed = true
					wantCEA = append(wantCEA, 5010)
				}
			case "cer-bare":
				if !hs && !closed {
					closed = true
					wantCEA = append(wantCEA, 5012)
				}
			case "dwr":
				if !closed {
					wantDWA++
					// a DWR whose header names another application than 0 reaches the built-in processing by
					// name, i.e. through the handshake gate: before the handshake it may go unanswered (the
					// statement asks for answers to handshaken peers)
					if hs || i%4 == 0 || i%4 == 2 {
						minDWA++
					}
				}
			default:
				if hs && !closed {
					want = append(want, c10Expect(cfg, k, i))
				}
			}
		}
		r.Cases++
		r.Distinct++
		if r.Sample == "" && len(hist) == 3 {
			r.Sample = fmt.Sprintf("server config=%s oneSegment=%v history=%v -> application handler invocations %v", cfg, oneSeg, hist, run.invoked)
		}
		if r.Violation != "" {
			continue
		}
		var gotCEA []uint32
		gotDWA := 0
		msgs, _ := refcodec.SplitStream(conn.Out)
		for _, m := range msgs {
			h, _ := refcodec.DecodeHeader(m)
			recs, _, _ := refcodec.Frame(m[20:], nil)
			rc := uint32(0)
			for _, x := range recs {
				if x.Code == 268 && len(x.Payload) == 4 {
					rc = uint32(x.Payload[0])<<24 | uint32(x.Payload[1])<<16 | uint32(x.Payload[2])<<8 | uint32(x.Payload[3])
				}
			}
			if h.Code == 257 {
				gotCEA = append(gotCEA, rc)
			}
			if h.Code == 280 && h.Flags&0x80 == 0 && rc == 2001 {
				gotDWA++
			}
		}
		v := ""
		switch {
		case len(run.forbidden) > 0:
			v = fmt.Sprintf("a handler whose registration must be refused was invoked: %v", run.forbidden)
		case fmt.Sprint(run.invoked) != fmt.Sprint(want):
			v = fmt.Sprintf("application handler invocations %v, the gate model allows exactly %v", run.invoked, want)
		case fmt.Sprint(gotCEA) != fmt.Sprint(wantCEA):
			v = fmt.Sprintf("CEAs written with result codes %v, expected %v (built-in CER processing must be unchanged)", gotCEA, wantCEA)
		case gotDWA > wantDWA || gotDWA < minDWA:
			v = fmt.Sprintf("%d success DWAs written, expected %d (at least %d)", gotDWA, wantDWA, minDWA)
		case len(panics) > 0:
			v = "panic: " + strings.Join(panics, "; ")
		}
		if v != "" {
			r.Violation = fmt.Sprintf("server side, handlers registered by %s, history %v (%s): %s", cfg, hist, map[bool]string{true: "one segment", false: "one segment per message"}[oneSeg], v)
			r.Case = map[string]interface{}{"side": "server", "cfg": cfg, "oneseg": oneSeg, "history": hist}
		}
	}
}

func c10Client(r *SeqResult, cfg string, oneSeg bool, hists [][]string) {
	for _, hist := range hists {
		hist := hist
		run := &c10Run{}
		var conn *vnet.Conn
		var dialOK bool
		var dialErr error
		s := vs.Run(nil, false, 5*time.Second, false, func() {
			conn = vnet.NewConn("C")
			conn.Pieces = 1
			mach := sm.New(c10Settings())
			c10UseObjects = !oneSeg // one-segment histories register with HandleFunc, the others with Handle(name, handler object)
			c10Register(mach, cfg, run)
			cli := &sm.Client{Handler: mach, Dict: dict.Default, MaxRetransmits: 0, RetransmitInterval: time.Second,
				AuthApplicationID: []*diam.AVP{diam.NewAVP(avp.AuthApplicationID, avp.Mbit, 0, datatype.Unsigned32(4))}}
			vs.GoNamed("peer", true, func() {
				p := &Peer{C: conn}
				cer := p.Next()
				if cer == nil {
					return
				}
				var all []byte
				for i, k := range hist {
					var m []byte
					switch k {
					case "cea":
						m = peerAnswer(cer, 2001, true)
					case "cea-fail":
						// the failing result code rotates with the history: permanent, transient and protocol
						// failures, and informational codes below 2000 (anything but success is a failure)
						h := i
						for _, c := range strings.Join(hist, ",") {
							h = h*31 + int(c)
						}
						m = peerAnswer(cer, c10FailCodes[uint(h)%uint(len(c10FailCodes))], true)
					case "cea-noapp":
						m = peerAnswer(cer, 2001, false)
					case "cea-rsvapp":
						// a success CEA whose only application is an id next to the relay id
						b := peerAnswer(cer, 2001, false)
						hd, _ := refcodec.DecodeHeader(b)
						recs, _, _ := refcodec.Frame(b[20:], nil)
						var nodes []refcodec.Node
						for _, r := range recs {
							nodes = append(nodes, refcodec.Node{Code: r.Code, Flags: r.Flags, Vendor: r.Vendor, Payload: r.Payload})
						}
						m = refcodec.EncodeMessage(hd, append(nodes, c10RsvApp(i)))
					default:
						m = c10Msg(k, i)
					}
					if oneSeg {
						all = append(all, m...)
					} else {
						conn.Deliver(m)
					}
				}
				if oneSeg {
					conn.Deliver(all)
				}
			})
			c, err := cli.NewConn(conn, "peer")
			dialOK, dialErr = c != nil && err == nil, err
		})
		panics := s.Panics()
		s.Teardown()
		// gate model. hs: the first CEA delivered is a success (the dial succeeds and the
		// connection stays healthy: every later application message must reach its handler).
		// After a failed first CEA the client closes the connection; what happens to messages
		// still in flight is not specified, except that no application handler may run for a
		// message that no success CEA precedes.
		hs, failed, anySuccess := false, false, false
		var want []string
		forbidden := map[string]bool{}
		for i, k := range hist {
			switch k {
			case "cea":
				anySuccess = true
				if !hs && !failed {
					hs = true
				}
			case "cea-fail", "cea-noapp", "cea-rsvapp":
				if !hs && !failed {
					failed = true
				}
			case "dwr", "cer":
				// a CER sent by the peer to a client is ignored; a DWR is answered: neither opens the gate
			default:
				if hs {
					want = append(want, c10Expect(cfg, k, i))
				}
				if !anySuccess {
					forbidden[c10Expect(cfg, k, i)] = true
				}
			}
		}
		r.Cases++
		r.Distinct++
		if r.Sample == "" && len(hist) == 3 {
			r.Sample = fmt.Sprintf("client config=%s oneSegment=%v history=%v -> dial ok=%v, application handler invocations %v", cfg, oneSeg, hist, dialOK, run.invoked)
		}
		if r.Violation != "" {
			continue
		}
		v := ""
		for _, inv := range run.invoked {
			if forbidden[inv] {
				v = fmt.Sprintf("application handler %s ran for a message that no success CEA precedes (invocations %v)", inv, run.invoked)
			}
		}
		switch {
		case v != "":
		case len(run.forbidden) > 0:
			v = fmt.Sprintf("a handler whose registration must be refused was invoked: %v", run.forbidden)
		case hs && !dialOK:
			v = fmt.Sprintf("a success CEA was the first CEA delivered but the dial failed: %v", dialErr)
		case !hs && dialOK:
			v = "the dial succeeded without a success CEA"
		case hs && fmt.Sprint(run.invoked) != fmt.Sprint(want):
			v = fmt.Sprintf("application handler invocations %v, the gate model allows exactly %v (panics %v)", run.invoked, want, panics)
		}
		if v != "" {
			r.Violation = fmt.Sprintf("client side, handlers registered by %s, history after the CER %v (%s): %s", cfg, hist, map[bool]string{true: "one segment", false: "one segment per message"}[oneSeg], v)
			r.Case = map[string]interface{}{"side": "client", "cfg": cfg, "oneseg": oneSeg, "history": hist}
		}
	}
}

// c10TimeoutTie: the peer never answers the CER and sends an application request exactly when the
// client's handshake gives up (and a little earlier / later): every ordering of the handshake
// goroutine's exit path, the reader and the peer up to the preemption bound. No application handler
// may run - a dial that failed never completed a CER/CEA exchange.
var c10tie *c10Run
var c10tieDial struct {
	returned bool
	err      error
}

func c10TimeoutTie(cfg string, at time.Duration, bound int) *Scenario {
	body := func() {
		run := &c10Run{}
		c10tie = run
		c10tieDial.returned, c10tieDial.err = false, nil
		conn := vnet.NewConn("C")
		conn.Pieces = 1
		settings := &sm.Settings{OriginHost: "cli", OriginRealm: "test", VendorID: 13, ProductName: "prod",
			HostIPAddresses: []datatype.Address{datatype.Address(net.ParseIP("10.0.0.2"))}}
		mach := sm.New(settings)
		c10Register(mach, cfg, run)
		cli := &sm.Client{Handler: mach, Dict: dict.Default, MaxRetransmits: 0, RetransmitInterval: time.Second,
			AuthApplicationID: []*diam.AVP{diam.NewAVP(avp.AuthApplicationID, avp.Mbit, 0, datatype.Unsigned32(4))}}
		vs.GoNamed("peer", true, func() {
			p := &Peer{C: conn}
			if cer := p.Next(); cer == nil {
				return
			}
			vs.TimeSleep(at)
			vs.Event("peer: application requests without having answered the CER")
			conn.Deliver(c10Msg("rar", 1))
			vs.Yield("env")
			conn.Deliver(c10Msg("ccr", 2))
		})
		_, err := cli.NewConn(conn, "peer")
		c10tieDial.returned, c10tieDial.err = true, err
	}
	check := func(s *vs.Sched) string {
		var v []string
		if !c10tieDial.returned {
			v = append(v, "Client.NewConn never returned")
		} else if c10tieDial.err == nil {
			v = append(v, "the dial succeeded although the peer never sent a CEA")
		}
		if len(c10tie.invoked) > 0 {
			v = append(v, fmt.Sprintf("application handlers ran (%v) on a connection whose peer never answered the CER (the dial timed out)", c10tie.invoked))
		}
		if len(c10tie.forbidden) > 0 {
			v = append(v, fmt.Sprintf("handlers whose registration must be refused ran: %v", c10tie.forbidden))
		}
		for _, p := range s.Panics() {
			v = append(v, "panic: "+p)
		}
		return strings.Join(v, " | ")
	}
	return &Scenario{Name: fmt.Sprintf("client-timeout-tie/%s/requests-at-%v", cfg, at), Body: body, Check: check, Bound: bound, Horizon: 4 * time.Second,
		Outcome: func(s *vs.Sched) string { return fmt.Sprint(c10tie.invoked, c10tieDial.err) }}
}

// c10NotifyConsumer: the application consumes HandshakeNotify and hangs a value of its own on the
// connection it is handed (ctx := c.Context(); c.SetContext(context.WithValue(ctx, ...))), at
// every possible instant relative to the serving goroutine. The peer sends an RAR and a CCR as soon
// as it has the CEA: both reach the application's handlers, whatever the consumer's timing.
type c10NotifyKey struct{}

var c10notify struct {
	run      *c10Run
	notified bool
	gotCEA   bool
}

func c10NotifyConsumer(cfg string, bound int) *Scenario {
	body := func() {
		st := &c10notify
		st.run, st.notified, st.gotCEA = &c10Run{}, false, false
		conn := vnet.NewConn("S")
		conn.Pieces = 1
		mach := sm.New(c10Settings())
		c10Register(mach, cfg, st.run)
		vs.GoNamed("app-handshake-notify", true, func() {
			c, ok := mach.HandshakeNotify().Recv2()
			if !ok {
				return
			}
			st.notified = true
			ctx := c.Context()
			vs.Yield("application looks up its per-peer state")
			c.SetContext(context.WithValue(ctx, c10NotifyKey{}, "application value"))
		})
		if _, err := diam.NewConn(conn, "peer", mach, dict.Default); err != nil {
			panic(err)
		}
		vs.GoNamed("peer", true, func() {
			p := &Peer{C: conn}
			conn.Deliver(c10Msg("cer", 1))
			if cea := p.Next(); cea == nil || cea.Hdr.Code != 257 {
				return
			}
			st.gotCEA = true
			conn.Deliver(c10Msg("rar", 2))
			vs.Yield("env")
			conn.Deliver(c10Msg("ccr", 3))
		})
	}
	check := func(s *vs.Sched) string {
		st := &c10notify
		var v []string
		if !st.gotCEA {
			v = append(v, "the peer never received a CEA")
		}
		want := fmt.Sprint([]string{c10Expect(cfg, "rar", 2), c10Expect(cfg, "ccr", 3)})
		if got := fmt.Sprint(st.run.invoked); st.gotCEA && got != want {
			v = append(v, fmt.Sprintf("after a successful CER/CEA exchange the peer sent RAR and CCR: application handlers invoked %s, expected %s (the application's HandshakeNotify consumer attached a value to the connection's context; notified: %v)", got, want, st.notified))
		}
		if len(st.run.forbidden) > 0 {
			v = append(v, fmt.Sprintf("handlers whose registration must be refused ran: %v", st.run.forbidden))
		}
		for _, p := range s.Panics() {
			v = append(v, "panic: "+p)
		}
		return strings.Join(v, " | ")
	}
	return &Scenario{Name: "server/handshake-notify-consumer-updates-the-context/" + cfg, Body: body, Check: check, Bound: bound,
		Outcome: func(s *vs.Sched) string { return fmt.Sprint(c10notify.run.invoked, c10notify.notified) }}
}

// c10ManyPeers: ONE state machine serves 300 peers one after the other. Each completes a
// successful CER / CEA exchange and then sends an RAR (handler registered by name), an STR (by
// index) and an ACR of application 3 (catch-all): all three must run for every peer. Reading the
// state machine's HandshakeNotify channel is optional: the application either never does, or
// drains it.
func c10ManyPeers(r *SeqResult, drain string) {
	const peers = 300
	saved := vs.DefaultMaxSteps
	vs.DefaultMaxSteps = 5000000
	defer func() { vs.DefaultMaxSteps = saved }()
	var verdict, stage string
	served := 0
	capped := false
	s := vs.Run(nil, false, 0, false, func() {
		settings := &sm.Settings{OriginHost: "srv", OriginRealm: "realm", VendorID: 13, ProductName: "prod",
			HostIPAddresses: []datatype.Address{datatype.Address(net.ParseIP("10.0.0.1"))}}
		mach := sm.New(settings)
		var got []string
		mach.HandleFunc("RAR", func(c diam.Conn, m *diam.Message) { got = append(got, "name") })
		mach.HandleIdx(diam.CommandIndex{AppID: 0, Code: 275, Request: true}, diam.HandlerFunc(func(c diam.Conn, m *diam.Message) { got = append(got, "index") }))
		mach.HandleFunc("ALL", func(c diam.Conn, m *diam.Message) {
			got = append(got, "all")
			m.Answer(2001).WriteTo(c) // the peer waits for this answer: everything before it has been dispatched
		})
		switch drain {
		case "always":
			vs.GoNamed("app-handshake-notify", true, func() {
				for {
					if _, ok := mach.HandshakeNotify().Recv2(); !ok {
						return
					}
				}
			})
		case "once":
			// the application takes the first peer from the channel and is then busy with it for good
			vs.GoNamed("app-handshake-notify", true, func() { mach.HandshakeNotify().Recv2() })
		}
		base := []refcodec.Node{ident(264, "cli"), ident(296, "test")}
		for i := 0; i < peers; i++ {
			conn := vnet.NewConn(fmt.Sprintf("S%d", i))
			conn.Pieces = 1
			if _, err := diam.NewConn(conn, "peer", mach, dict.Default); err != nil {
				verdict = err.Error()
				return
			}
			p := &Peer{C: conn}
			got = nil
			conn.Deliver(refcodec.EncodeMessage(refcodec.Header{Version: 1, Flags: 0x80, Code: 257, HbH: uint32(i), E2E: 6}, []refcodec.Node{
				ident(264, "cli"), ident(296, "test"), {Code: 257, Flags: 0x40, Payload: refcodec.Address(1, []byte{10, 0, 0, 9})},
				u32avp(266, 13), {Code: 269, Payload: []byte("x")}, u32avp(258, 4)}))
			stage = fmt.Sprintf("peer %d sent its CER", i+1)
			cea := p.Next()
			if cea == nil || cea.Find(268) == nil || be32(cea.Find(268).Payload) != 2001 {
				verdict = fmt.Sprintf("peer %d of one state machine: the handshake did not complete", i+1)
				return
			}
			conn.Deliver(refcodec.EncodeMessage(refcodec.Header{Version: 1, Flags: 0x80, Code: 258, HbH: 1, E2E: 1}, base))
			conn.Deliver(refcodec.EncodeMessage(refcodec.Header{Version: 1, Flags: 0x80, Code: 275, HbH: 2, E2E: 2}, base))
			conn.Deliver(refcodec.EncodeMessage(refcodec.Header{Version: 1, Flags: 0x80, Code: 271, App: 3, HbH: 3, E2E: 3}, base))
			stage = fmt.Sprintf("peer %d completed a successful CER / CEA exchange and sent RAR, STR, ACR", i+1)
			if a := p.Next(); a == nil || a.Hdr.Code != 271 {
				verdict = fmt.Sprintf("peer %d completed a successful CER / CEA exchange, but its requests were not dispatched (handlers that ran: %v)", i+1, got)
				return
			}
			if fmt.Sprint(got) != "[name index all]" {
				verdict = fmt.Sprintf("peer %d completed a successful CER / CEA exchange; handlers that ran for RAR, STR, ACR: %v, expected [name index all]", i+1, got)
				return
			}
			conn.PeerEOF()
			served++
		}
	})
	capped = s.Capped
	panics := s.Panics()
	blocked := s.BlockedLib()
	s.Teardown()
	r.Cases += peers
	r.Distinct += peers
	r.Sample = fmt.Sprintf("%d sequential peers on one state machine: CER, then RAR / STR / ACR for the by-name, by-index and catch-all handlers", peers)
	if capped {
		r.Capped++
		return
	}
	if verdict == "" && served < peers {
		verdict = stage + " - and was never served"
	}
	if verdict == "" && len(panics) > 0 {
		verdict = "panic: " + panics[0]
	}
	if verdict != "" {
		r.Violation = fmt.Sprintf("%s (HandshakeNotify read by the application: %s; library goroutines blocked at the end: %v)", verdict, drain, blocked)
		r.Case = map[string]interface{}{"scenario": "many-peers", "drain": drain}
	}
}

// c10OverTLS: the server side of a connection that runs over TLS (the state machine sees
// Conn.TLS() != nil). The transport's security changes nothing about the capabilities exchange: a
// CER is accepted exactly when it shares an application and asks for no in-band security, and the
// by-name, by-index and catch-all handlers run only after an accepted one.
func c10OverTLS(r *SeqResult) {
	type cerCase struct {
		name   string
		inband int // -1 absent
		apps   []refcodec.Node
		wantRC uint32
	}
	vs10415 := func(kids ...refcodec.Node) refcodec.Node {
		return refcodec.Node{Code: 260, Flags: 0x40, Group: true, Children: append([]refcodec.Node{u32avp(266, 10415)}, kids...)}
	}
	var cases []cerCase
	for _, inband := range []int{-1, 0, 1} {
		for _, a := range []struct {
			name   string
			nodes  []refcodec.Node
			shared bool
		}{{"Auth4", []refcodec.Node{u32avp(258, 4)}, true}, {"Auth999", []refcodec.Node{u32avp(258, 999)}, false}, {"no-application", nil, false},
			{"VS[Vendor,Auth999]", []refcodec.Node{vs10415(u32avp(258, 999))}, false}, {"Acct4(wrong type)", []refcodec.Node{u32avp(259, 4)}, false}} {
			rc := uint32(2001)
			switch {
			case inband > 0:
				rc = 5017
			case !a.shared && a.nodes == nil:
				rc = 0 // refused: missing AVP or no common application, the statement leaves the code open
			case !a.shared:
				rc = 5010
			}
			cases = append(cases, cerCase{fmt.Sprintf("Inband-Security-Id=%d %s", inband, a.name), inband, a.nodes, rc})
		}
	}
	for _, tc := range cases {
		tc := tc
		var got []string
		var cea *PMsg
		var note string
		s := vs.Run(nil, false, 10*time.Second, false, func() {
			conn := vnet.NewConn("T")
			conn.Pieces = 1
			settings := &sm.Settings{OriginHost: "srv", OriginRealm: "realm", VendorID: 13, ProductName: "prod",
				HostIPAddresses: []datatype.Address{datatype.Address(net.ParseIP("10.0.0.1"))}}
			mach := sm.New(settings)
			mach.HandleFunc("RAR", func(c diam.Conn, m *diam.Message) { got = append(got, "name") })
			mach.HandleIdx(diam.CommandIndex{AppID: 0, Code: 275, Request: true}, diam.HandlerFunc(func(c diam.Conn, m *diam.Message) { got = append(got, "index") }))
			mach.HandleFunc("ALL", func(c diam.Conn, m *diam.Message) { got = append(got, "all") })
			tlsConn := tls.Server(conn, &tls.Config{Certificates: []tls.Certificate{c12TLSCert()}, MinVersion: tls.VersionTLS12})
			if _, err := diam.NewConn(tlsConn, "peer", mach, dict.Default); err != nil {
				note = err.Error()
				return
			}
			pc := tls.Client(&peerPipe{c: conn}, &tls.Config{InsecureSkipVerify: true, MinVersion: tls.VersionTLS12})
			if err := pc.Handshake(); err != nil {
				note = "peer: TLS handshake failed: " + err.Error()
				return
			}
			avps := []refcodec.Node{ident(264, "cli"), ident(296, "test"), {Code: 257, Flags: 0x40, Payload: refcodec.Address(1, []byte{10, 0, 0, 9})}, u32avp(266, 13), {Code: 269, Payload: []byte("x")}}
			if tc.inband >= 0 {
				avps = append(avps, u32avp(299, uint32(tc.inband)))
			}
			avps = append(avps, tc.apps...)
			base := []refcodec.Node{ident(264, "cli"), ident(296, "test")}
			var all []byte
			all = append(all, refcodec.EncodeMessage(refcodec.Header{Version: 1, Flags: 0x80, Code: 257, HbH: 1, E2E: 1}, avps)...)
			all = append(all, refcodec.EncodeMessage(refcodec.Header{Version: 1, Flags: 0x80, Code: 258, HbH: 2, E2E: 2}, base)...)
			all = append(all, refcodec.EncodeMessage(refcodec.Header{Version: 1, Flags: 0x80, Code: 275, HbH: 3, E2E: 3}, base)...)
			all = append(all, refcodec.EncodeMessage(refcodec.Header{Version: 1, Flags: 0x80, Code: 271, App: 3, HbH: 4, E2E: 4}, base)...)
			pc.Write(all) // the CER and three application requests in one TLS record
			cea = readMsg(pc)
			pc.Close()
		})
		panics := s.Panics()
		s.Teardown()
		r.Cases++
		r.Distinct++
		if r.Sample == "" {
			r.Sample = "CER + RAR + STR + ACR in one TLS record: " + tc.name
		}
		if r.Violation != "" {
			continue
		}
		v := ""
		rc := uint32(0)
		if cea != nil && cea.Find(268) != nil {
			rc = be32(cea.Find(268).Payload)
		}
		switch {
		case note != "":
			v = "harness: " + note
		case len(panics) > 0:
			v = "panic: " + panics[0]
		case cea == nil || cea.Hdr.Code != 257:
			v = "no CEA came back"
		case tc.wantRC == 2001 && rc != 2001:
			v = fmt.Sprintf("an acceptable CER was answered with Result-Code %d", rc)
		case tc.wantRC != 2001 && rc == 2001:
			v = "a CER that shares no application (or asks for in-band security) was answered with a success CEA"
		case tc.wantRC > 2001 && rc != tc.wantRC:
			v = fmt.Sprintf("refused with Result-Code %d, expected %d", rc, tc.wantRC)
		case tc.wantRC == 2001 && fmt.Sprint(got) != "[name index all]":
			v = fmt.Sprintf("after the accepted CER the handlers that ran for RAR, STR, ACR are %v, expected [name index all]", got)
		case tc.wantRC != 2001 && len(got) > 0:
			v = fmt.Sprintf("the CER was refused, yet application handlers ran: %v", got)
		}
		if v != "" {
			r.Violation = fmt.Sprintf("server side of a TLS connection, CER with %s: %s", tc.name, v)
			r.Case = map[string]interface{}{"tls-cer": tc.name}
		}
	}
}
