package bcheck

import (
	"bytes"
	"fmt"
	"net"
	"sort"
	"strings"
	"time"

	"github.com/fiorix/go-diameter/v4/diam"
	"github.com/fiorix/go-diameter/v4/diam/datatype"
	"github.com/fiorix/go-diameter/v4/diam/dict"
	"github.com/fiorix/go-diameter/v4/diam/sm"
	"github.com/fiorix/go-diameter/v4/diam/sm/smpeer"
	"verif/internal/refcodec"
	"verif/internal/refdict"
	"verif/vnet"
	vs "verif/vsched"
)

// C11 — a CER is accepted exactly when a common application exists.

func init() {
	Registry["C11"] = &Check{
		Scenarios: c11Scenarios,
		Rule: "every fifth refused CER meets a transient transport error on the write of its failure CEA (the connection must be closed all the same); an absent Origin-Host / Origin-Realm takes three forms in rotation (not there, there but empty, only inside a Proxy-Info group); the server's own Settings.VendorID alternates between 99 (no application's vendor) and 10415 (the vendor of the 3GPP applications a CER may share); every CER over Origin-Host {absent, present} x Origin-Realm {absent, present} x Inband-Security-Id {absent, 0, 1, 2^31-1, the list [0, 1], code 299 under a foreign vendor id (not the IETF AVP)} x every sequence (so every order) of <=2 (thorough 3) application AVPs over 20 atoms (18 + Auth / Acct of an application id that a dictionary loaded into dict.Default declares under both types): Acct-Application-Id {3 supported, 4 wrong type, 999 unsupported, relay}, Auth-Application-Id {4, 3 wrong type, 999, relay}, Vendor-Specific-Application-Id groups {[Vendor-Id, Auth 4], [Auth 999, Vendor-Id], [Vendor-Id, Auth 999], [Vendor-Id, Acct 3], [Vendor-Id], [Auth 16777251], [Acct 999], [Auth 4, Auth 999], [Auth 999, Auth 4], []}; settings with configured HostIPAddresses, with the deprecated single HostIPAddress only, and without configured addresses; local endpoint over {10.1.2.3, loopback, an IPv6 address in brackets, link-local IPv4 and IPv6 addresses, a multihomed SCTP endpoint 127.0.0.1/10.1.2.3/[2001:db8::7], and - with configured addresses - an endpoint that is not ip:port at all (a socket path)}; hop-by-hop / end-to-end ids rotate over {0,1,2^31,2^32-1}. Without configured addresses the local endpoint rotates over the list from one connection to the next. Each CER is sent end-to-end, on a connection of its own, to ONE state machine per scenario (so a verdict that depends on earlier CERs is caught; the visiting order alternates rich and poor CERs) over the in-memory transport, followed by an RAR whose gated handler reads the connection metadata. One deterministic schedule per CER (the quantifier is over inputs).",
		Assume: []string{"reference acceptance predicate written from the statement, with application support read from the independent refdict model of the embedded XML", "single default schedule per input", "the library treats every net.Conn alike (in-memory transport; audited by bin/check with one replay of the refused-CER traces on a kernel loopback TCP socket)"},
		QuickBudget: 120, ThoroughBudget: 1800,
	}
}

type c11Atom struct {
	name string
	node refcodec.Node
	// application ids this atom advertises: (type, id)
	apps [][2]interface{}
}

func c11Atoms() []c11Atom {
	acct := func(id uint32) refcodec.Node { return u32avp(259, id) }
	auth := func(id uint32) refcodec.Node { return u32avp(258, id) }
	vid := u32avp(266, 10415)
	grp := func(kids ...refcodec.Node) refcodec.Node {
		return refcodec.Node{Code: 260, Flags: 0x40, Group: true, Children: kids}
	}
	A := func(t string, id uint32) [2]interface{} { return [2]interface{}{t, id} }
	return []c11Atom{
		{"Acct3", acct(3), [][2]interface{}{A("acct", 3)}},
		{"Acct4(wrong-type)", acct(4), [][2]interface{}{A("acct", 4)}},
		{"Acct999", acct(999), [][2]interface{}{A("acct", 999)}},
		{"AcctRelay", acct(0xffffffff), [][2]interface{}{A("acct", 0xffffffff)}},
		{"Auth4", auth(4), [][2]interface{}{A("auth", 4)}},
		{"Auth3(wrong-type)", auth(3), [][2]interface{}{A("auth", 3)}},
		{"Auth999", auth(999), [][2]interface{}{A("auth", 999)}},
		{"AuthRelay", auth(0xffffffff), [][2]interface{}{A("auth", 0xffffffff)}},
		{"VS[Vendor,Auth4]", grp(vid, auth(4)), [][2]interface{}{A("auth", 4)}},
		{"VS[Auth999,Vendor]", grp(auth(999), vid), [][2]interface{}{A("auth", 999)}},
		{"VS[Vendor,Auth999]", grp(vid, auth(999)), [][2]interface{}{A("auth", 999)}},
		{"VS[Vendor,Acct3]", grp(vid, acct(3)), [][2]interface{}{A("acct", 3)}},
		{"VS[Vendor]", grp(vid), nil},
		{"VS[Auth16777251]", grp(auth(16777251)), [][2]interface{}{A("auth", 16777251)}},
		{"VS[Acct999]", grp(acct(999)), [][2]interface{}{A("acct", 999)}},
		{"VS[Auth4,Auth999]", grp(auth(4), auth(999)), [][2]interface{}{A("auth", 4), A("auth", 999)}},
		{"VS[Auth999,Auth4]", grp(auth(999), auth(4)), [][2]interface{}{A("auth", 999), A("auth", 4)}},
		{"VS[]", grp(), nil},
		// an application id the dictionary declares twice, once per type (see c11DualXML)
		{"Auth16777999(dual)", auth(16777999), [][2]interface{}{A("auth", 16777999)}},
		{"Acct16777999(dual)", acct(16777999), [][2]interface{}{A("acct", 16777999)}},
	}
}

// c11DualXML declares one application id under both types; it is loaded into dict.Default (the
// dictionary sm.New takes its supported applications from) and into the reference model.
const c11DualXML = `<?xml version="1.0" encoding="UTF-8"?>
<diameter>
<application id="16777999" type="auth" name="Dual-Auth"></application>
<application id="16777999" type="acct" name="Dual-Acct"></application>
</diameter>`

// c11InbandList stands for a CER with two Inband-Security-Id AVPs, [0, 1].
const c11InbandList = -2

// c11InbandForeign stands for a CER carrying AVP code 299 with the V flag and a foreign vendor id.
const c11InbandForeign = -3

var c11Model *refdict.Model

func c11Supported(typ string, id uint32) bool {
	if c11Model == nil {
		emb, err := refdict.LoadEmbedded(repoRoot())
		if err != nil {
			panic(err)
		}
		c11Model = refdict.NewModel()
		for _, e := range emb {
			c11Model.Load(e.XML)
		}
		if err := dict.Default.Load(strings.NewReader(c11DualXML)); err != nil {
			panic(err)
		}
		if err := c11Model.Load(c11DualXML); err != nil {
			panic(err)
		}
	}
	if id == 0xffffffff {
		return true // relay
	}
	return c11Model.App(id, typ) != nil
}

func c11Scenarios(tier string) []*Scenario {
	maxN := 2
	if tier == "thorough" {
		maxN = 3
	}
	var out []*Scenario
	for _, host := range []bool{true, false} {
		for _, realm := range []bool{true, false} {
			for _, inband := range []int{-1, 0, 1, 0x7fffffff, c11InbandList, c11InbandForeign} {
				for _, cfgIP := range []bool{true, false} {
					for loop := 0; loop < len(c11Locals); loop++ {
						if cfgIP && loop >= 2 && loop != len(c11Locals)-1 {
							continue // with configured addresses the local endpoint is not consulted: two ordinary ones and the one that is not ip:port
						}
						if !cfgIP && loop == len(c11Locals)-1 {
							continue
						}
						host, realm, inband, cfgIP, loop := host, realm, inband, cfgIP, loop
						out = append(out, &Scenario{Name: fmt.Sprintf("cer/host=%v/realm=%v/inband=%d/configuredIP=%v/local=%s", host, realm, inband, cfgIP, c11Locals[loop].addr),
							Seq: func(r *SeqResult) { c11Run(r, host, realm, inband, cfgIP, loop, maxN) }})
					}
				}
			}
		}
	}
	return out
}

// c11Locals are the local endpoints of the server's connection: a plain IPv4 address, loopback,
// an IPv6 address as net.TCPAddr prints it, and a multihomed SCTP endpoint as the sctp package
// prints it (loopback members are skipped when another address exists).
var c11Locals = []struct {
	addr string
	want [][]byte
}{
	{"10.1.2.3:3868", [][]byte{refcodec.Address(1, []byte{10, 1, 2, 3})}},
	{"127.0.0.1:3868", [][]byte{refcodec.Address(1, []byte{127, 0, 0, 1})}},
	{"[2001:db8::7]:3868", [][]byte{refcodec.Address(2, net.ParseIP("2001:db8::7").To16())}},
	{"169.254.10.7:3868", [][]byte{refcodec.Address(1, []byte{169, 254, 10, 7})}},
	{"[fe80::1]:3868", [][]byte{refcodec.Address(2, net.ParseIP("fe80::1").To16())}},
	{"127.0.0.1/10.1.2.3/[2001:db8::7]:3868", [][]byte{refcodec.Address(1, []byte{127, 0, 0, 1}), refcodec.Address(1, []byte{10, 1, 2, 3}), refcodec.Address(2, net.ParseIP("2001:db8::7").To16())}},
	// an endpoint that is not ip:port at all (a unix domain socket, a pipe): only used with
	// configured addresses, where the local endpoint has no say
	{"/run/diameter/peer.sock", nil},
}

// c11AddrSubset: got is a non-empty, duplicate-free list of addresses of the local endpoint.
func c11AddrSubset(got, endpoint [][]byte) bool {
	if len(got) == 0 {
		return false
	}
	seen := map[string]bool{}
	for _, g := range got {
		ok := false
		for _, e := range endpoint {
			if bytes.Equal(g, e) {
				ok = true
			}
		}
		if !ok || seen[string(g)] {
			return false
		}
		seen[string(g)] = true
	}
	return true
}

func c11Run(r *SeqResult, host, realm bool, inband int, cfgIP bool, loop int, maxN int) {
	// with configured addresses the local-endpoint index is not consulted: index 1 stands for "the
	// address is configured through the deprecated Settings.HostIPAddress only"
	deprecatedIP := cfgIP && loop == 1
	atoms := c11Atoms()
	c11Supported("auth", 4) // loads the dual-type dictionary before the state machine is created
	var seqs [][]int
	var rec func(cur []int)
	rec = func(cur []int) {
		seqs = append(seqs, append([]int{}, cur...))
		if len(cur) == maxN {
			return
		}
		for i := range atoms {
			rec(append(cur, i))
		}
	}
	rec(nil)
	ids := []uint32{0, 1, 0x80000000, 0xffffffff}
	// ONE state machine serves every CER of this scenario, each on a connection of its own: the
	// verdict on a CER must not depend on the CERs the state machine has seen before.
	// the device's own Vendor-Id: a vendor no dictionary application belongs to, or - every other
	// scenario - 10415, the vendor of the 3GPP applications the CERs may share with the server
	settings := &sm.Settings{OriginHost: "srv.local", OriginRealm: "local", VendorID: datatype.Unsigned32([]uint32{99, 10415}[loop%2]), ProductName: "prod"}
	if cfgIP {
		settings.HostIPAddresses = []datatype.Address{datatype.Address(net.ParseIP("192.0.2.7")), datatype.Address(net.ParseIP("192.0.2.8"))}
		if deprecatedIP {
			// the address is configured through the deprecated single-valued field only
			settings.HostIPAddresses = nil
			settings.HostIPAddress = datatype.Address(net.ParseIP("192.0.2.7"))
		}
	}
	mach := sm.New(settings)
	var curMeta **smpeer.Metadata
	var curSeen *bool
	mach.HandleFunc("RAR", func(c diam.Conn, m *diam.Message) {
		*curSeen = true
		*curMeta, _ = smpeer.FromContext(c.Context())
	})
	// the enumeration is visited in an order that alternates rich and poor CERs, so that state
	// carried over from one CER to the next would change a verdict
	order := make([]int, 0, len(seqs))
	for i := 0; i < (len(seqs)+1)/2; i++ {
		order = append(order, i)
		if j := len(seqs) - 1 - i; j > i {
			order = append(order, j)
		}
	}
	baseLoop := loop
	for step, qi := range order {
		sq := seqs[qi]
		hbh, ee := ids[qi%4], ids[(qi/4)%4]
		// without configured addresses the local endpoint changes from one connection of this state
		// machine to the next (a wildcard listener on a multi-address host): every CEA must carry an
		// address of ITS connection
		loop := baseLoop
		if !cfgIP {
			loop = (baseLoop + step) % (len(c11Locals) - 1) // the endpoint that is not ip:port is for configured addresses only
		}
		var avps []refcodec.Node
		// "absent" has three forms that rotate with the position in the enumeration: the AVP is not
		// there at all, it is there but empty (it names nothing), or the only AVP with that code sits
		// inside a group (where it is not the message's Origin-Host / Origin-Realm)
		absentForm := step % 3
		var nestedOrigin []refcodec.Node
		if host {
			avps = append(avps, ident(264, "cli.example"))
		} else if absentForm == 1 {
			avps = append(avps, ident(264, ""))
		} else if absentForm == 2 {
			nestedOrigin = append(nestedOrigin, ident(264, "cli.example"))
		}
		if realm {
			avps = append(avps, ident(296, "example"))
		} else if absentForm == 1 {
			avps = append(avps, ident(296, ""))
		} else if absentForm == 2 {
			nestedOrigin = append(nestedOrigin, ident(296, "example"))
		}
		if len(nestedOrigin) > 0 {
			avps = append(avps, refcodec.Node{Code: 284, Flags: 0x40, Group: true, Children: nestedOrigin}) // inside a Proxy-Info group
		}
		avps = append(avps, refcodec.Node{Code: 257, Flags: 0x40, Payload: refcodec.Address(1, []byte{10, 0, 0, 9})}, u32avp(266, 13), refcodec.Node{Code: 269, Payload: []byte("x")})
		if inband == c11InbandForeign {
			// code 299 in another vendor's name space: not the IETF Inband-Security-Id at all
			avps = append(avps, refcodec.Node{Code: 299, Flags: 0xC0, Vendor: 4242, Payload: []byte{0, 0, 0, 1}})
		} else if inband == c11InbandList {
			// two Inband-Security-Id AVPs: NO_INBAND_SECURITY first, then TLS - the peer does not
			// require in-band security
			avps = append(avps, u32avp(299, 0), u32avp(299, 1))
		} else if inband >= 0 {
			avps = append(avps, u32avp(299, uint32(inband)))
		}
		var names []string
		shared := map[uint32]bool{}
		sharedTyped := map[string]bool{}
		for _, i := range sq {
			avps = append(avps, atoms[i].node)
			names = append(names, atoms[i].name)
			for _, a := range atoms[i].apps {
				if c11Supported(a[0].(string), a[1].(uint32)) {
					shared[a[1].(uint32)] = true
					sharedTyped[fmt.Sprintf("%s/%d", a[0], a[1])] = true
				}
			}
		}
		cer := refcodec.EncodeMessage(refcodec.Header{Version: 1, Flags: 0x80, Code: 257, HbH: hbh, E2E: ee}, avps)
		accept := host && realm && (inband <= 0 || inband == c11InbandList || inband == c11InbandForeign) && len(shared) > 0
		// run
		var cea *PMsg
		var meta *smpeer.Metadata
		var metaSeen, closed bool
		// every fifth refused CER: the transport reports a transient error for the one write that would
		// carry the failure CEA (nothing is accepted). The refusal stands: the connection is closed.
		faultCEA := !accept && step%5 == 4
		s := vs.Run(nil, false, 5*time.Second, false, func() {
			conn := vnet.NewConn("S")
			conn.Pieces = 1
			if faultCEA {
				conn.WScript = []vnet.WOutcome{{N: -1, Err: vnet.TempErr{}}}
			}
			conn.Local = vnet.Addr{S: c11Locals[loop].addr}
			curMeta, curSeen = &meta, &metaSeen
			if _, err := diam.NewConn(conn, "peer", mach, dict.Default); err != nil {
				return
			}
			p := &Peer{C: conn}
			conn.Deliver(cer)
			if faultCEA {
				vs.BlockObj("wait-closed-or-quiet", conn, func() bool { return conn.Closed })
				closed = conn.Closed
				return
			}
			cea = p.Next()
			if cea != nil && !conn.Closed {
				conn.Deliver(refcodec.EncodeMessage(refcodec.Header{Version: 1, Flags: 0x80, Code: 258, HbH: 1, E2E: 1}, []refcodec.Node{ident(264, "cli.example"), ident(296, "example")}))
				vs.Yield("env")
			}
			vs.TimeSleep(time.Millisecond) // let the reader drain
			closed = conn.Closed
		})
		s.Teardown()
		r.Cases++
		r.Distinct++
		if r.Sample == "" && len(sq) == 2 {
			r.Sample = fmt.Sprintf("CER host=%v realm=%v inband=%d apps=%v -> reference: accept=%v shared=%v", host, realm, inband, names, accept, keys(shared))
		}
		if r.Violation != "" {
			continue
		}
		v := ""
		if faultCEA {
			if !closed {
				v = "the CER was refused (" + c11Why(host, realm, inband, shared) + "), the write of the failure CEA met a transient transport error, and the connection was left open"
			} else if metaSeen {
				v = "gated handler ran after a refused CER"
			}
		} else if cea == nil {
			v = "no CEA was written"
		} else {
			rc := uint32(0)
			if x := cea.Find(268); x != nil && len(x.Payload) == 4 {
				rc = uint32(x.Payload[0])<<24 | uint32(x.Payload[1])<<16 | uint32(x.Payload[2])<<8 | uint32(x.Payload[3])
			}
			wantIP := c11Locals[loop].want
			if cfgIP {
				wantIP = [][]byte{refcodec.Address(1, []byte{192, 0, 2, 7}), refcodec.Address(1, []byte{192, 0, 2, 8})}
				if deprecatedIP {
					wantIP = wantIP[:1]
				}
			}
			var gotIP [][]byte
			for _, x := range cea.FindAll(257) {
				gotIP = append(gotIP, x.Payload)
			}
			switch {
			case cea.Hdr.Code != 257 || cea.Hdr.Flags&0x80 != 0:
				v = fmt.Sprintf("answer is not a CEA (code %d flags %#x)", cea.Hdr.Code, cea.Hdr.Flags)
			case cea.Hdr.HbH != hbh || cea.Hdr.E2E != ee:
				v = fmt.Sprintf("CEA ids %#x/%#x, request ids %#x/%#x", cea.Hdr.HbH, cea.Hdr.E2E, hbh, ee)
			case cea.Find(264) == nil || string(cea.Find(264).Payload) != "srv.local" || cea.Find(296) == nil || string(cea.Find(296).Payload) != "local":
				v = "CEA does not carry the identity from the local settings"
			case cfgIP && fmt.Sprint(gotIP) != fmt.Sprint(wantIP), !cfgIP && !c11AddrSubset(gotIP, wantIP):
				v = fmt.Sprintf("CEA Host-IP-Address %x, expected %x (exactly the configured addresses, else one or more addresses of the local endpoint)", gotIP, wantIP)
			case accept && rc != 2001:
				v = fmt.Sprintf("the CER names host and realm, requires no in-band security and shares application(s) %v, but the Result-Code is %d", keys(shared), rc)
			case accept && closed:
				v = "CER accepted (2001) but the connection was closed"
			case !accept && rc == 2001:
				v = fmt.Sprintf("CER answered with success although %s", c11Why(host, realm, inband, shared))
			case !accept && !closed:
				v = fmt.Sprintf("CER rejected (%d) but the connection was not closed", rc)
			case !accept && !c11CauseOK(rc, host, realm, inband, shared):
				v = fmt.Sprintf("failure Result-Code %d does not match a cause that applies (%s)", rc, c11Why(host, realm, inband, shared))
			}
			if v == "" && accept {
				switch {
				case !metaSeen:
					v = "after an accepted CER the gated RAR handler did not run"
				case meta == nil:
					v = "no peer metadata on the connection after an accepted CER"
				case string(meta.OriginHost) != "cli.example" || string(meta.OriginRealm) != "example":
					v = fmt.Sprintf("metadata identity %q/%q", meta.OriginHost, meta.OriginRealm)
				default:
					got := map[uint32]bool{}
					for _, id := range meta.Applications {
						got[id] = true
					}
					if fmt.Sprint(keys(got)) != fmt.Sprint(keys(shared)) {
						v = fmt.Sprintf("metadata applications %v, the shared applications are %v", keys(got), keys(shared))
					}
				}
				// success CEA advertises at least the shared dictionary applications
				if v == "" {
					adv := map[string]bool{}
					typ := map[uint32]string{258: "auth", 259: "acct"}
					for _, code := range []uint32{258, 259} {
						for _, x := range cea.FindAll(code) {
							adv[fmt.Sprintf("%s/%d", typ[code], be32(x.Payload))] = true
						}
					}
					for _, g := range cea.FindAll(260) {
						for _, x := range g.Children {
							if x.Code == 258 || x.Code == 259 {
								adv[fmt.Sprintf("%s/%d", typ[x.Code], be32(x.Payload))] = true
							}
						}
					}
					for k := range sharedTyped {
						if !strings.HasSuffix(k, "/4294967295") && !adv[k] {
							var l []string
							for a := range adv {
								l = append(l, a)
							}
							sort.Strings(l)
							v = fmt.Sprintf("success CEA does not advertise the shared application %s (advertised: %v)", k, l)
						}
					}
				}
			}
			if v == "" && !accept && metaSeen {
				v = "gated handler ran after a rejected CER"
			}
		}
		if v != "" {
			r.Violation = fmt.Sprintf("%s | CER: Origin-Host=%v Origin-Realm=%v Inband-Security-Id=%d application AVPs %v, configured addresses=%v local endpoint=%s", v, host, realm, inband, names, cfgIP, c11Locals[loop].addr)
			r.Case = map[string]interface{}{"host": host, "realm": realm, "inband": inband, "apps": names, "cfgIP": cfgIP, "local": c11Locals[loop].addr}
		}
	}
}

func be32(b []byte) uint32 {
	if len(b) != 4 {
		return 0
	}
	return uint32(b[0])<<24 | uint32(b[1])<<16 | uint32(b[2])<<8 | uint32(b[3])
}

func keys(m map[uint32]bool) []uint32 {
	var out []uint32
	for k := range m {
		out = append(out, k)
	}
	sort.Slice(out, func(i, j int) bool { return out[i] < out[j] })
	return out
}

func c11Why(host, realm bool, inband int, shared map[uint32]bool) string {
	var w []string
	if !host {
		w = append(w, "Origin-Host is missing")
	}
	if !realm {
		w = append(w, "Origin-Realm is missing")
	}
	if inband > 0 {
		w = append(w, "in-band security is required")
	}
	if len(shared) == 0 {
		w = append(w, "no advertised application is supported with the same type")
	}
	return strings.Join(w, ", ")
}

// c11CauseOK: the failure code must match a cause that applies.
func c11CauseOK(rc uint32, host, realm bool, inband int, shared map[uint32]bool) bool {
	ok := map[uint32]bool{}
	if inband > 0 {
		ok[5017] = true
	}
	if len(shared) == 0 {
		ok[5010] = true
	}
	if !host || !realm || len(ok) == 0 {
		ok[5012] = true
	}
	return ok[rc]
}

var _ = bytes.Equal
