package bcheck

import (
	"strconv"
	"bytes"
	"fmt"
	"net"
	"strings"
	"time"

	"github.com/fiorix/go-diameter/v4/diam"
	"github.com/fiorix/go-diameter/v4/diam/avp"
	"github.com/fiorix/go-diameter/v4/diam/datatype"
	"github.com/fiorix/go-diameter/v4/diam/dict"
	"github.com/fiorix/go-diameter/v4/diam/sm"
	"verif/internal/refcodec"
	"verif/vnet"
	vs "verif/vsched"
)

// C12 — client handshake: bounded retransmission, definite outcome, stable afterwards.

func init() {
	Registry["C12"] = &Check{
		Scenarios: c12Scenarios,
		Rule: "no host address configured (nil, and an empty non-nil list): the CER carries the connection's local address; the application registers an RAA handler and, when the library watchdog is off, its own DWA handler; application answers delivered after the handshake alternate between DWA and RAA. success CEAs that also list Inband-Security-Id [1, 0] or [1] count as success, and so do success CEAs carrying optional extras (one Failed-AVP, two Failed-AVPs one of them with a nested group, Error-Message, Supported-Vendor-Id x2 + Firmware-Revision + Origin-State-Id, two AVPs no dictionary defines). peer scripts: MaxRetransmits R in {0,1,2} (thorough 0..3); for the k-th CER received the peer does one of {nothing, success CEA, failing CEA 5010, CEA without Origin-Host, CEA without Result-Code, success CEA without any application, success CEA with an unsupported application, success CEA whose only application information is a Vendor-Specific-Application-Id group {Vendor-Id, unsupported id} / {Vendor-Id} / {Vendor-Id, supported id}, disconnect} after a delay in {0, 1/2, 1, 3/2} RetransmitInterval on the virtual clock; scenarios in which the transport takes 1/2 or 3/2 interval to accept a CER (slow writes); quick: every script with one answering CER index, thorough: also every script with two answering indexes; after a success every set of extras from {duplicate success CEA, late failing CEA, RAA, both a CEA and an RAA}. Every schedule of client goroutines, reader, timers and peer steps up to preemption bound 2 (quick) / unbounded (thorough); timers that are due may fire at any later step, so every tie ordering is explored. Eight scenarios go through the library's own dial entry points (sm.Client.DialTimeout and DialTLSTimeout; the instrumented dialer hands out an in-memory connection, deadlines run on the virtual clock, the TLS variant has a real crypto/tls server as peer): dial timeout {none, shorter than the handshake, shorter than the idle period, generous}, success CEA to the last permitted CER, an idle period, then a duplicate CEA and an answer for the application.",
		Assume: []string{"virtual time: writes and computation take no time; lateness exists only where the peer script introduces it", "data-race freedom between visible operations (audited separately with -race)"},
		QuickBudget: 150, ThoroughBudget: 2400,
	}
}

const c12Interval = time.Second

type c12Act struct {
	Kind  string // nothing success fail nohost norc noapp badapp disconnect
	Delay int    // in half intervals
}

type c12State struct {
	conn        *vnet.Conn
	cers        [][]byte
	cerAt       []time.Duration
	delivered   []string // kind of each CEA / event delivered, in order
	deliveredAt []time.Duration
	retConn     bool
	retErr      error
	returned    bool
	returnedAt  time.Duration
	closedAtRet bool
	raaSent     int
	raaHandled  int
	localAddr   bool
	note        []string
}

var c12st *c12State

func c12Scenarios(tier string) []*Scenario {
	thorough := tier == "thorough"
	bound := 2
	maxR := 2
	if thorough {
		bound = vs.Unbounded
		maxR = 3
	}
	kinds := []string{"success", "fail", "nohost", "norc", "noapp", "badapp", "vsabad", "vsavendor", "vsagood", "disconnect", "fail1001", "fail3004", "fail1", "relayauth", "relayacct", "succtls10", "succtls1", "succ+failedavp", "succ+failedavp2", "succ+errmsg", "succ+optional", "succ+unknown"}
	extraSets := [][]string{nil, {"dup"}, {"latefail"}, {"raa"}, {"dup", "raa"}, {"latefail", "raa"}, {"raa", "dup", "raa"}}
	var out []*Scenario
	add := func(R int, script []c12Act, extras []string) {
		out = append(out, c12Scenario(R, script, extras, bound))
	}
	for R := 0; R <= maxR; R++ {
		silent := make([]c12Act, R+1)
		for i := range silent {
			silent[i] = c12Act{Kind: "nothing"}
		}
		add(R, silent, nil)
		for k := 0; k <= R; k++ {
			for _, kind := range kinds {
				for d := 0; d <= 3; d++ {
					sc := append([]c12Act{}, silent...)
					sc[k] = c12Act{Kind: kind, Delay: d}
					if kind == "vsabad" || kind == "vsavendor" || kind == "vsagood" || strings.HasPrefix(kind, "fail") && kind != "fail" || strings.HasPrefix(kind, "relay") || strings.HasPrefix(kind, "succ+") {
						if d != 0 || k != 0 {
							continue // application-shape variants: first CER, no delay
						}
					}
					if kind == "success" {
						for _, ex := range extraSets {
							add(R, sc, ex)
						}
					} else {
						add(R, sc, nil)
					}
				}
			}
		}
		// a transport that takes 3/2 (or 1/2) interval to accept a CER: the retransmission clock must
		// start when the transmission is complete
		if R <= 1 {
			for _, d := range []time.Duration{c12Interval * 3 / 2, c12Interval / 2} {
				for _, kind := range []string{"success", "nothing"} {
					sc := append([]c12Act{}, silent...)
					if kind == "success" {
						sc[0] = c12Act{Kind: "success", Delay: 0}
					}
					out = append(out, c12ScenarioSlow(R, sc, nil, bound, []time.Duration{d}))
					if R == 1 && kind == "nothing" {
						sc2 := append([]c12Act{}, silent...)
						sc2[1] = c12Act{Kind: "success", Delay: 0}
						out = append(out, c12ScenarioSlow(R, sc2, []string{"raa"}, bound, []time.Duration{d, d}))
					}
				}
			}
		}
		if !thorough && R == 1 {
			// two answering CER indexes (the thorough tier has the whole family): the late answer to
			// the first CER lands exactly on the retransmission, whose own answer follows at once
			for _, pair := range [][2]string{{"fail", "success"}, {"success", "fail"}, {"norc", "success"}, {"success", "disconnect"}} {
				sc := append([]c12Act{}, silent...)
				sc[0] = c12Act{Kind: pair[0], Delay: 2}
				sc[1] = c12Act{Kind: pair[1], Delay: 0}
				add(R, sc, []string{"raa"})
			}
		}
		if R == 0 {
			// no configured host addresses: the CER carries the connection's local address
			c12LocalAddr = true
			sc := append([]c12Act{}, silent...)
			sc[0] = c12Act{Kind: "success", Delay: 0}
			la := c12Scenario(R, sc, []string{"raa"}, bound)
			la.Name += "/local-address"
			out = append(out, la)
			c12EmptyAddrList = true
			la = c12Scenario(R, sc, []string{"raa"}, bound)
			la.Name += "/local-address/empty-list"
			out = append(out, la)
			c12EmptyAddrList = false
			c12LocalAddr = false
			// the same with the watchdog enabled and a peer that answers every DWR
			c12Watchdog = true
			for _, ex := range [][]string{{"raa"}, {"dup", "raa"}} {
				wd := c12Scenario(R, sc, ex, bound)
				wd.Name += "/watchdog-enabled"
				wd.Horizon = 7 * c12Interval
				out = append(out, wd)
			}
			c12Watchdog = false
		}
		if R == 0 {
			out = append(out, c12Redial(bound))
			cb := bound
			if cb > 4 {
				cb = 4 // two dialling goroutines: the unbounded space does not finish (2.1e7 executions in 40 min)
			}
			out = append(out, c12ConcurrentDials(cb))
			for _, extraA := range []string{"dup-success", "late-fail", "none"} {
				for _, kindB := range []string{"silent", "success", "fail"} {
					out = append(out, c12TwoConns(extraA, kindB, bound))
				}
			}
		}
		if thorough && R >= 1 && R <= 2 {
			// two answering indexes
			for k1 := 0; k1 <= R; k1++ {
				for k2 := k1 + 1; k2 <= R; k2++ {
					for _, a := range []string{"success", "fail", "norc"} {
						for _, b := range []string{"success", "fail", "disconnect"} {
							for d1 := 0; d1 <= 3; d1++ {
								for d2 := 0; d2 <= 3; d2 += 1 {
									sc := append([]c12Act{}, silent...)
									sc[k1] = c12Act{Kind: a, Delay: d1}
									sc[k2] = c12Act{Kind: b, Delay: d2}
									add(R, sc, []string{"raa"})
								}
							}
						}
					}
				}
			}
		}
	}
	out = append(out, c12DialScenarios()...)
	out = append(out, c12OpaqueLocal())
	return out
}

func c12Name(R int, script []c12Act, extras []string) string {
	var s []string
	for _, a := range script {
		if a.Kind == "nothing" {
			s = append(s, "-")
		} else {
			s = append(s, fmt.Sprintf("%s@%d/2", a.Kind, a.Delay))
		}
	}
	return fmt.Sprintf("handshake/R%d/[%s]/extras%v", R, strings.Join(s, ","), extras)
}

func c12Scenario(R int, script []c12Act, extras []string, bound int) *Scenario {
	return c12ScenarioSlow(R, script, extras, bound, nil)
}

// c12ScenarioSlow: slow[k] is the virtual time the k-th transport Write takes (a peer or
// transport that is slow to take the CER off the wire).
// c12LocalAddr: no HostIPAddresses configured - the CER must carry the connection's local address.
var c12LocalAddr = false

// c12EmptyAddrList (with c12LocalAddr): "none configured" is an empty, non-nil list
var c12EmptyAddrList = false

// c12Watchdog: the client has its watchdog enabled (interval = 2 handshake intervals); the peer
// answers every DWR. After a successful handshake the connection must still be open at the horizon.
var c12Watchdog = false

func c12ScenarioSlow(R int, script []c12Act, extras []string, bound int, slow []time.Duration) *Scenario {
	localAddr := c12LocalAddr
	emptyList := c12EmptyAddrList
	watchdog := c12Watchdog
	body := func() {
		st := &c12State{}
		c12st = st
		conn := vnet.NewConn("C")
		conn.Pieces = 1
		conn.WriteDelays = slow
		st.conn = conn
		settings := &sm.Settings{OriginHost: "cli", OriginRealm: "test", VendorID: 13, ProductName: "prod", FirmwareRevision: 7,
			HostIPAddresses: []datatype.Address{datatype.Address(net.ParseIP("10.0.0.2")), datatype.Address(net.ParseIP("10.0.0.3"))}}
		if localAddr {
			settings.HostIPAddresses = nil
			if emptyList {
				// "none configured" spelled as an empty list (an empty JSON array, a list filtered down to nothing)
				settings.HostIPAddresses = make([]datatype.Address, 0, 4)
			}
			settings.OriginStateID = 77
		}
		st.localAddr = localAddr
		mach := sm.New(settings)
		mach.HandleFunc("RAA", func(c diam.Conn, m *diam.Message) { st.raaHandled++; vs.Event("application handler got RAA") })
		if !watchdog {
			// without the library's watchdog the application may run its own: it registers the DWA
			// handler itself (sm.Client documents that), and answers to ITS DWRs must reach it
			mach.HandleFunc("DWA", func(c diam.Conn, m *diam.Message) { st.raaHandled++; vs.Event("application handler got DWA") })
		}
		cli := &sm.Client{Handler: mach, Dict: dict.Default, MaxRetransmits: uint(R), RetransmitInterval: c12Interval,
			EnableWatchdog: watchdog, WatchdogInterval: 2 * c12Interval,
			AuthApplicationID: []*diam.AVP{diam.NewAVP(avp.AuthApplicationID, avp.Mbit, 0, datatype.Unsigned32(4))},
			AcctApplicationID: []*diam.AVP{diam.NewAVP(avp.AcctApplicationID, avp.Mbit, 0, datatype.Unsigned32(3))},
			VendorSpecificApplicationID: []*diam.AVP{diam.NewAVP(avp.VendorSpecificApplicationID, avp.Mbit, 0, &diam.GroupedAVP{AVP: []*diam.AVP{
				diam.NewAVP(avp.VendorID, avp.Mbit, 0, datatype.Unsigned32(10415)),
				diam.NewAVP(avp.AuthApplicationID, avp.Mbit, 0, datatype.Unsigned32(16777251))}})},
		}
		vs.GoNamed("peer", true, func() {
			p := &Peer{C: conn}
			for k := 0; ; k++ {
				m := p.Next()
				if m == nil {
					return
				}
				if watchdog && m.Hdr.Code == 280 && m.Hdr.Flags&0x80 != 0 {
					conn.Deliver(peerAnswer(m, 2001, false))
					k--
					continue
				}
				if m.Hdr.Code != 257 {
					st.note = append(st.note, fmt.Sprintf("peer received command %d during the handshake", m.Hdr.Code))
					continue
				}
				st.cers = append(st.cers, m.Raw)
				st.cerAt = append(st.cerAt, vs.Now())
				vs.Event("peer: CER #%d received", k+1)
				if k >= len(script) || script[k].Kind == "nothing" {
					continue
				}
				act := script[k]
				req := m
				vs.GoNamed(fmt.Sprintf("peer-answer%d", k+1), true, func() {
					if act.Delay > 0 {
						vs.TimeSleep(time.Duration(act.Delay) * c12Interval / 2)
					}
					deliver := func(kind string, b []byte) {
						if c12Has(st.delivered, "disconnect") {
							return // the peer has closed its side: it cannot send anything afterwards
						}
						st.delivered = append(st.delivered, kind)
						st.deliveredAt = append(st.deliveredAt, vs.Now())
						vs.Event("peer: delivers %s", kind)
						conn.Deliver(b)
					}
					switch act.Kind {
					case "success":
						deliver("success", peerAnswer(req, 2001, true))
						for _, ex := range extras {
							vs.Yield("env")
							switch ex {
							case "dup":
								deliver("dup-success", peerAnswer(req, 2001, true))
							case "latefail":
								deliver("late-fail", peerAnswer(req, 5010, true))
							case "raa":
								st.raaSent++
								h := refcodec.Header{Version: 1, Flags: 0, Code: 258, App: 0, HbH: 77, E2E: uint32(st.raaSent)}
								if !watchdog && st.raaSent%2 == 1 {
									h.Code = 280 // every other application answer is a DWA (the application's own watchdog)
								}
								deliver("raa", refcodec.EncodeMessage(h, []refcodec.Node{u32avp(268, 2001), ident(264, "srv"), ident(296, "test")}))
							}
						}
					case "fail":
						deliver("fail", peerAnswer(req, 5010, true))
					case "fail1001", "fail3004", "fail1":
						// other non-success result codes: informational, protocol error, and a value below 1000
						rc, _ := strconv.Atoi(act.Kind[4:])
						deliver("fail", peerAnswer(req, uint32(rc), true))
					case "nohost":
						deliver("nohost", peerAnswerOpt(req, 2001, true, false, true))
					case "norc":
						deliver("norc", peerAnswerOpt(req, 2001, true, true, false))
					case "noapp":
						deliver("noapp", peerAnswer(req, 2001, false))
					case "succtls10", "succtls1":
						// a success CEA that also lists the peer's in-band security mechanisms (TLS first,
						// or TLS alone): the statement asks for a success result and a shared application
						b := peerAnswer(req, 2001, true)
						h, _ := refcodec.DecodeHeader(b)
						recs, _, _ := refcodec.Frame(b[20:], nil)
						var nodes []refcodec.Node
						for _, r := range recs {
							nodes = append(nodes, refcodec.Node{Code: r.Code, Flags: r.Flags, Vendor: r.Vendor, Payload: r.Payload})
						}
						nodes = append(nodes, u32avp(299, 1))
						if act.Kind == "succtls10" {
							nodes = append(nodes, u32avp(299, 0))
						}
						deliver("success", refcodec.EncodeMessage(h, nodes))
					case "succ+failedavp", "succ+failedavp2", "succ+errmsg", "succ+optional", "succ+unknown":
						// a success CEA that carries more than the handshake needs: what decides is the
						// result code and the shared application, not which optional AVPs came along
						// (Failed-AVP naming an optional CER AVP the peer ignored - once, and twice with a
						// nested group; Error-Message; Supported-Vendor-Id, Firmware-Revision and
						// Origin-State-Id; an AVP no dictionary defines, without the M bit)
						b := peerAnswer(req, 2001, true)
						h, _ := refcodec.DecodeHeader(b)
						recs, _, _ := refcodec.Frame(b[20:], nil)
						var nodes []refcodec.Node
						for _, r := range recs {
							nodes = append(nodes, refcodec.Node{Code: r.Code, Flags: r.Flags, Vendor: r.Vendor, Payload: r.Payload})
						}
						switch act.Kind {
						case "succ+failedavp":
							nodes = append(nodes, refcodec.Node{Code: 279, Flags: 0x40, Group: true, Children: []refcodec.Node{u32avp(267, 1)}})
						case "succ+failedavp2":
							nodes = append(nodes, refcodec.Node{Code: 279, Flags: 0x40, Group: true, Children: []refcodec.Node{u32avp(265, 999)}},
								refcodec.Node{Code: 279, Flags: 0x40, Group: true, Children: []refcodec.Node{{Code: 260, Flags: 0x40, Group: true, Children: []refcodec.Node{u32avp(266, 999)}}}})
						case "succ+errmsg":
							nodes = append(nodes, refcodec.Node{Code: 281, Payload: []byte("one optional AVP ignored")})
						case "succ+optional":
							nodes = append(nodes, u32avp(265, 10415), u32avp(265, 13019), u32avp(267, 7), u32avp(278, 1234567))
						case "succ+unknown":
							nodes = append(nodes, refcodec.Node{Code: 60001, Payload: []byte{1, 2, 3}}, refcodec.Node{Code: 60002, Flags: 0x80, Vendor: 424242, Payload: []byte{9}})
						}
						deliver("success", refcodec.EncodeMessage(h, nodes))
					case "relayauth", "relayacct":
						// a success CEA whose only application is the relay application id, which is
						// common with every application
						b := peerAnswer(req, 2001, false)
						h, _ := refcodec.DecodeHeader(b)
						recs, _, _ := refcodec.Frame(b[20:], nil)
						var nodes []refcodec.Node
						for _, r := range recs {
							nodes = append(nodes, refcodec.Node{Code: r.Code, Flags: r.Flags, Vendor: r.Vendor, Payload: r.Payload})
						}
						code := uint32(258)
						if act.Kind == "relayacct" {
							code = 259
						}
						nodes = append(nodes, u32avp(code, 0xffffffff))
						deliver("success", refcodec.EncodeMessage(h, nodes))
						for _, ex := range extras {
							_ = ex
						}
					case "badapp":
						b := peerAnswer(req, 2001, false)
						h, _ := refcodec.DecodeHeader(b)
						recs, _, _ := refcodec.Frame(b[20:], nil)
						var nodes []refcodec.Node
						for _, r := range recs {
							nodes = append(nodes, refcodec.Node{Code: r.Code, Flags: r.Flags, Vendor: r.Vendor, Payload: r.Payload})
						}
						nodes = append(nodes, u32avp(258, 999))
						deliver("badapp", refcodec.EncodeMessage(h, nodes))
					case "vsabad", "vsavendor", "vsagood":
						// success CEA whose only application information is a Vendor-Specific-Application-Id group
						b := peerAnswer(req, 2001, false)
						h, _ := refcodec.DecodeHeader(b)
						recs, _, _ := refcodec.Frame(b[20:], nil)
						var nodes []refcodec.Node
						for _, r := range recs {
							nodes = append(nodes, refcodec.Node{Code: r.Code, Flags: r.Flags, Vendor: r.Vendor, Payload: r.Payload})
						}
						g := refcodec.Node{Code: 260, Flags: 0x40, Group: true, Children: []refcodec.Node{u32avp(266, 10415)}}
						if act.Kind == "vsabad" {
							g.Children = append(g.Children, u32avp(258, 999))
						}
						if act.Kind == "vsagood" {
							g.Children = append(g.Children, u32avp(258, 4))
						}
						nodes = append(nodes, g)
						kind := act.Kind
						if kind == "vsagood" {
							kind = "success"
						}
						deliver(kind, refcodec.EncodeMessage(h, nodes))
					case "disconnect":
						st.delivered = append(st.delivered, "disconnect")
						st.deliveredAt = append(st.deliveredAt, vs.Now())
						vs.Event("peer: disconnects")
						conn.PeerEOF()
					}
				})
			}
		})
		c, err := cli.NewConn(conn, "peer")
		st.retConn = c != nil && err == nil
		st.retErr = err
		st.returned = true
		st.returnedAt = vs.Now()
		st.closedAtRet = conn.Closed
		vs.Event("NewConn returned conn=%v err=%v", c != nil, err)
	}
	check := func(s *vs.Sched) string {
		st := c12st
		var v []string
		v = append(v, st.note...)
		if !st.returned {
			return "Client.NewConn never returned (blocked: " + strings.Join(s.Blocked(), ", ") + ")"
		}
		// transmissions
		if len(st.cers) > R+1 {
			v = append(v, fmt.Sprintf("%d CER transmissions, MaxRetransmits=%d allows at most %d", len(st.cers), R, R+1))
		}
		if len(st.cers) == 0 {
			v = append(v, "no CER was sent")
		}
		for i := 1; i < len(st.cers); i++ {
			if !bytes.Equal(st.cers[i], st.cers[0]) {
				v = append(v, fmt.Sprintf("retransmission %d is not identical to the first CER", i))
			}
			if d := st.cerAt[i] - st.cerAt[i-1]; d < c12Interval {
				v = append(v, fmt.Sprintf("CER %d sent %v after CER %d, less than RetransmitInterval %v", i+1, d, i, c12Interval))
			}
		}
		if len(st.cers) > 0 {
			if s := c12CheckCER(st.cers[0], st.localAddr); s != "" {
				v = append(v, "CER content: "+s)
			}
		}
		// expected outcome: the first decisive event delivered strictly before the last interval
		// expired decides; at the exact deadline either outcome is allowed
		// The handshake may wait one interval after each of its R+1 transmissions. An event
		// delivered while fewer than R+1 transmissions have been made arrived during an earlier
		// wait; after the last transmission the deadline is its completion time + one interval
		// (a transmission is complete when the transport has accepted it, i.e. when the peer
		// sees it - writes may be slow).
		deadline := time.Duration(-1)
		if len(st.cerAt) >= R+1 {
			deadline = st.cerAt[R] + c12Interval
		}
		expect := "timeout"
		tie := false
		for i, k := range st.delivered {
			if k == "raa" || k == "dup-success" || k == "late-fail" {
				continue
			}
			at := st.deliveredAt[i]
			if deadline >= 0 && at > deadline {
				break
			}
			if deadline >= 0 && at == deadline {
				tie = true
			}
			if k == "success" {
				expect = "success"
			} else {
				expect = "error"
			}
			break
		}
		got := "error"
		if st.retConn {
			got = "success"
		}
		switch {
		case expect == "success" && got != "success" && !tie:
			v = append(v, fmt.Sprintf("a valid success CEA was delivered at %v, before the last interval expired at %v, but NewConn returned error %v", firstAt(st, "success"), deadline, st.retErr))
		case expect != "success" && got == "success":
			v = append(v, fmt.Sprintf("NewConn returned a connection although no valid success CEA arrived in time (delivered: %v at %v, deadline %v)", st.delivered, st.deliveredAt, deadline))
		case expect == "success" && got != "success" && tie:
			// allowed: exact tie with the deadline
		}
		if got == "error" {
			if st.retErr == nil {
				v = append(v, "NewConn returned neither a connection nor an error")
			}
			if !st.closedAtRet {
				v = append(v, fmt.Sprintf("NewConn returned error %q but the transport had not been closed", st.retErr))
			}
		} else if peerGone := c12Has(st.delivered, "disconnect"); peerGone {
			// the peer itself closed the connection after the handshake: nothing more is required
		} else {
			if st.conn.Closed {
				v = append(v, fmt.Sprintf("handshake succeeded but the library closed the transport afterwards (delivered after success: %v; panics: %v)", st.delivered, s.Panics()))
			}
			if st.raaHandled != st.raaSent {
				v = append(v, fmt.Sprintf("after the handshake %d application answers (RAA / DWA) were delivered, the application's handlers saw %d (with the watchdog off every other one is a DWA for the handler the application registered itself; delivered: %v; panics: %v)", st.raaSent, st.raaHandled, st.delivered, s.Panics()))
			}
		}
		return strings.Join(v, " | ")
	}
	outcome := func(s *vs.Sched) string {
		st := c12st
		return fmt.Sprintf("conn=%v err=%v cers=%d raa=%d/%d closed=%v", st.retConn, st.retErr, len(st.cers), st.raaHandled, st.raaSent, st.conn.Closed)
	}
	name := c12Name(R, script, extras)
	if slow != nil {
		name += fmt.Sprintf("/slow-writes%v", slow)
	}
	return &Scenario{Name: name, Body: body, Check: check, Outcome: outcome, Bound: bound,
		Horizon: time.Duration(R+4) * c12Interval, Weight: R*3 + len(extras)*2}
}

func c12Has(l []string, k string) bool {
	for _, x := range l {
		if x == k {
			return true
		}
	}
	return false
}

func firstAt(st *c12State, kind string) time.Duration {
	for i, k := range st.delivered {
		if k == kind {
			return st.deliveredAt[i]
		}
	}
	return -1
}

// c12CheckCER checks that the CER carries the configured identity, addresses and every
// application the client was told to advertise (parsed with the reference codec).
func c12CheckCER(raw []byte, localAddr bool) string {
	h, _ := refcodec.DecodeHeader(raw)
	if h.Code != 257 || h.Flags&0x80 == 0 || h.App != 0 {
		return fmt.Sprintf("header code=%d flags=%#x app=%d", h.Code, h.Flags, h.App)
	}
	recs, _, err := refcodec.Frame(raw[20:], func(code, vendor uint32, v bool) bool { return code == 260 })
	if err != nil {
		return "not well-formed: " + err.Error()
	}
	has := func(code uint32, payload []byte) bool {
		for _, r := range recs {
			if r.Code == code && bytes.Equal(r.Payload, payload) {
				return true
			}
		}
		return false
	}
	switch {
	case !has(264, []byte("cli")):
		return "Origin-Host cli missing"
	case !has(296, []byte("test")):
		return "Origin-Realm test missing"
	case !localAddr && (!has(257, refcodec.Address(1, []byte{10, 0, 0, 2})) || !has(257, refcodec.Address(1, []byte{10, 0, 0, 3}))):
		return "configured Host-IP-Address 10.0.0.2 / 10.0.0.3 missing"
	case localAddr && !has(257, refcodec.Address(1, []byte{10, 1, 2, 3})):
		return "no host addresses are configured, so the CER must carry the connection's local address 10.1.2.3"
	case localAddr && !has(278, refcodec.U32(77)):
		return "configured Origin-State-Id 77 missing"
	case !has(258, refcodec.U32(4)):
		return "Auth-Application-Id 4 missing"
	case !has(259, refcodec.U32(3)):
		return "Acct-Application-Id 3 missing"
	}
	for _, r := range recs {
		if r.Code == 260 {
			okV, okA := false, false
			for _, c := range r.Children {
				if c.Code == 266 && bytes.Equal(c.Payload, refcodec.U32(10415)) {
					okV = true
				}
				if c.Code == 258 && bytes.Equal(c.Payload, refcodec.U32(16777251)) {
					okA = true
				}
			}
			if okV && okA {
				return ""
			}
		}
	}
	return "Vendor-Specific-Application-Id {10415, auth 16777251} missing"
}

// c12Redial dials three times with ONE Client / StateMachine / *Settings that has no
// configured host addresses, each time over a transport with a different local address: every
// CER must carry the local address of its own connection, and the caller's Settings stay as
// they were given.
func c12Redial(bound int) *Scenario {
	locals := []struct {
		addr string
		want []byte
	}{
		{"10.1.2.3:3868", refcodec.Address(1, []byte{10, 1, 2, 3})},
		{"10.4.5.6:3868", refcodec.Address(1, []byte{10, 4, 5, 6})},
		{"[2001:db8::7]:3868", refcodec.Address(2, net.ParseIP("2001:db8::7").To16())},
		{"10.1.2.3:3868", refcodec.Address(1, []byte{10, 1, 2, 3})},
	}
	var verdict string
	body := func() {
		verdict = ""
		settings := &sm.Settings{OriginHost: "cli", OriginRealm: "test", VendorID: 13, ProductName: "prod", FirmwareRevision: 7, OriginStateID: 77}
		mach := sm.New(settings)
		cli := &sm.Client{Handler: mach, Dict: dict.Default, MaxRetransmits: 0, RetransmitInterval: c12Interval,
			AuthApplicationID: []*diam.AVP{diam.NewAVP(avp.AuthApplicationID, avp.Mbit, 0, datatype.Unsigned32(4))},
		}
		for i, l := range locals {
			conn := vnet.NewConn(fmt.Sprintf("C%d", i))
			conn.Pieces = 1
			conn.Local = vnet.Addr{S: l.addr}
			var cer []byte
			vs.GoNamed(fmt.Sprintf("peer%d", i), true, func() {
				p := &Peer{C: conn}
				m := p.Next()
				if m == nil || m.Hdr.Code != 257 {
					return
				}
				cer = m.Raw
				conn.Deliver(peerAnswer(m, 2001, true))
			})
			c, err := cli.NewConn(conn, "peer")
			if err != nil || c == nil {
				verdict = fmt.Sprintf("dial %d (local %s): NewConn failed: %v", i+1, l.addr, err)
				return
			}
			recs, _, ferr := refcodec.Frame(cer[20:], nil)
			if ferr != nil {
				verdict = fmt.Sprintf("dial %d: CER not well-formed: %v", i+1, ferr)
				return
			}
			var got []string
			ok := false
			for _, r := range recs {
				if r.Code == 257 {
					got = append(got, fmt.Sprintf("%x", r.Payload))
					if bytes.Equal(r.Payload, l.want) {
						ok = true
					}
				}
			}
			if !ok || len(got) != 1 {
				verdict = fmt.Sprintf("dial %d of the same Client (no configured host addresses) from local address %s: the CER's Host-IP-Address AVPs are %v, want exactly [%x]", i+1, l.addr, got, l.want)
				return
			}
			if len(settings.HostIPAddresses) != 0 || settings.HostIPAddress != nil {
				verdict = fmt.Sprintf("dial %d modified the caller's Settings (HostIPAddresses now %v)", i+1, settings.HostIPAddresses)
				return
			}
			c.Close()
		}
	}
	// one deterministic schedule: the quantifier here is over dial histories, not schedules
	return &Scenario{Name: "handshake/redial-same-client-other-local-address", Seq: func(r *SeqResult) {
		s := vs.Run(nil, false, 40*c12Interval, false, body)
		panics := s.Panics()
		s.Teardown()
		r.Cases += len(locals)
		r.Distinct += len(locals)
		if len(panics) > 0 {
			verdict = "panic: " + strings.Join(panics, "; ")
		}
		if verdict != "" {
			r.Violation = verdict
			r.Case = map[string]interface{}{"scenario": "redial"}
		}
		r.Sample = "four dials of one Client without configured host addresses from 10.1.2.3, 10.4.5.6, [2001:db8::7], 10.1.2.3"
	}}
}

// c12TwoConns: one Client with an established connection A dials a second connection B. While
// the second handshake is pending, the peer of A sends an extra CEA (duplicate success or late
// failure). The outcome of the second dial depends on what the peer of B does - nothing else -
// and connection A stays open. Peers are free environment threads: every order of the extra
// CEA on A, the answer on B and the handshake timer is explored.
type c12Two struct {
	errA, errB       error
	okA, okB         bool
	retB             bool
	a, b             *vnet.Conn
	raaA, raaB       int
	closedAWhenBDone bool
}

var c12two *c12Two

func c12TwoConns(extraA, kindB string, bound int) *Scenario {
	body := func() {
		st := &c12Two{}
		c12two = st
		settings := &sm.Settings{OriginHost: "cli", OriginRealm: "test", VendorID: 13, ProductName: "prod", FirmwareRevision: 7,
			HostIPAddresses: []datatype.Address{datatype.Address(net.ParseIP("10.0.0.2"))}}
		mach := sm.New(settings)
		mach.HandleFunc("RAA", func(c diam.Conn, m *diam.Message) {
			if m.Header.HopByHopID == 71 {
				st.raaA++
			} else {
				st.raaB++
			}
		})
		cli := &sm.Client{Handler: mach, Dict: dict.Default, MaxRetransmits: 0, RetransmitInterval: c12Interval,
			AuthApplicationID: []*diam.AVP{diam.NewAVP(avp.AuthApplicationID, avp.Mbit, 0, datatype.Unsigned32(4))}}
		st.a, st.b = vnet.NewConn("A"), vnet.NewConn("B")
		st.a.Pieces, st.b.Pieces = 1, 1
		raa := func(hbh uint32) []byte {
			return refcodec.EncodeMessage(refcodec.Header{Version: 1, Code: 258, HbH: hbh, E2E: 1}, []refcodec.Node{u32avp(268, 2001), ident(264, "srv"), ident(296, "test")})
		}
		var cerA *PMsg
		bGotCER := false
		vs.GoNamed("peerA", true, func() {
			p := &Peer{C: st.a}
			cerA = p.Next()
			if cerA == nil {
				return
			}
			st.a.Deliver(peerAnswer(cerA, 2001, true))
			vs.BlockObj("wait-second-CER", st.b, func() bool { return bGotCER })
			switch extraA {
			case "dup-success":
				st.a.Deliver(peerAnswer(cerA, 2001, true))
			case "late-fail":
				st.a.Deliver(peerAnswer(cerA, 5012, true))
			}
			st.a.Deliver(raa(71))
		})
		vs.GoNamed("peerB", true, func() {
			p := &Peer{C: st.b}
			cer := p.Next()
			if cer == nil {
				return
			}
			bGotCER = true
			vs.Touch(st.b, "cer-seen")
			switch kindB {
			case "success":
				st.b.Deliver(peerAnswer(cer, 2001, true))
				st.b.Deliver(raa(72))
			case "fail":
				st.b.Deliver(peerAnswer(cer, 5010, true))
			}
		})
		ca, err := cli.NewConn(st.a, "peerA")
		st.okA, st.errA = ca != nil && err == nil, err
		if !st.okA {
			return
		}
		cb, err := cli.NewConn(st.b, "peerB")
		st.okB, st.errB, st.retB = cb != nil && err == nil, err, true
		st.closedAWhenBDone = st.a.Closed
	}
	check := func(s *vs.Sched) string {
		st := c12two
		var v []string
		switch {
		case !st.okA:
			return fmt.Sprintf("harness: first dial failed: %v", st.errA)
		case !st.retB:
			return "the second Client.NewConn never returned (blocked: " + strings.Join(s.Blocked(), ", ") + ")"
		}
		switch kindB {
		case "success":
			if !st.okB {
				v = append(v, fmt.Sprintf("the peer of the second connection answered its CER with a success CEA but the dial failed: %v", st.errB))
			} else if st.b.Closed {
				v = append(v, "the second connection was closed after a successful handshake")
			} else if st.raaB != 1 {
				v = append(v, fmt.Sprintf("second connection: %d of 1 answers dispatched to the application handler after the handshake", st.raaB))
			}
		default:
			if st.okB {
				v = append(v, fmt.Sprintf("the second dial returned a connection although its own peer %s (the only CEA came from the peer of the FIRST connection)", map[string]string{"silent": "never answered", "fail": "answered with a failing CEA"}[kindB]))
			} else if !st.b.Closed {
				v = append(v, "the second dial failed but its transport was not closed")
			}
		}
		if st.a.Closed {
			v = append(v, "the established first connection was closed")
		} else if st.raaA != 1 {
			v = append(v, fmt.Sprintf("first connection: %d of 1 answers dispatched to the application handler after the extra CEA", st.raaA))
		}
		for _, p := range s.Panics() {
			v = append(v, "panic: "+p)
		}
		return strings.Join(v, " | ")
	}
	outcome := func(s *vs.Sched) string {
		st := c12two
		return fmt.Sprintf("okB=%v closedA=%v closedB=%v raa=%d/%d", st.okB, st.a.Closed, st.b.Closed, st.raaA, st.raaB)
	}
	return &Scenario{Name: fmt.Sprintf("handshake/second-dial/extra-on-first=%s/second-peer=%s", extraA, kindB), Body: body, Check: check, Outcome: outcome,
		Bound: bound, Horizon: 6 * c12Interval}
}

// c12ConcurrentDials: two goroutines dial with ONE Client at the same time; each peer answers its
// CER with a success CEA. Both dials must succeed and both connections must stay open.
type c12Conc struct {
	c   [2]*vnet.Conn
	ok  [2]bool
	ret [2]bool
	err [2]error
}

var c12conc *c12Conc

func c12ConcurrentDials(bound int) *Scenario {
	body := func() {
		st := &c12Conc{}
		c12conc = st
		settings := &sm.Settings{OriginHost: "cli", OriginRealm: "test", VendorID: 13, ProductName: "prod", FirmwareRevision: 7,
			HostIPAddresses: []datatype.Address{datatype.Address(net.ParseIP("10.0.0.2"))}}
		mach := sm.New(settings)
		cli := &sm.Client{Handler: mach, Dict: dict.Default, MaxRetransmits: 0, RetransmitInterval: c12Interval,
			AuthApplicationID: []*diam.AVP{diam.NewAVP(avp.AuthApplicationID, avp.Mbit, 0, datatype.Unsigned32(4))}}
		for i := 0; i < 2; i++ {
			i := i
			st.c[i] = vnet.NewConn(fmt.Sprintf("C%d", i+1))
			st.c[i].Pieces = 1
			vs.GoNamed(fmt.Sprintf("peer%d", i+1), true, func() {
				p := &Peer{C: st.c[i]}
				if cer := p.Next(); cer != nil && cer.Hdr.Code == 257 {
					st.c[i].Deliver(peerAnswer(cer, 2001, true))
				}
			})
			vs.GoNamed(fmt.Sprintf("dialer%d", i+1), false, func() {
				c, err := cli.NewConn(st.c[i], "peer")
				st.ok[i], st.err[i], st.ret[i] = c != nil && err == nil, err, true
			})
		}
	}
	check := func(s *vs.Sched) string {
		st := c12conc
		var v []string
		for i := 0; i < 2; i++ {
			switch {
			case !st.ret[i]:
				v = append(v, fmt.Sprintf("dial %d never returned", i+1))
			case !st.ok[i]:
				v = append(v, fmt.Sprintf("two goroutines dial with one Client at the same time, each peer answers its CER with a success CEA: dial %d failed: %v", i+1, st.err[i]))
			case st.c[i].Closed:
				v = append(v, fmt.Sprintf("connection %d was closed after a successful handshake", i+1))
			}
		}
		for _, p := range s.Panics() {
			v = append(v, "panic: "+p)
		}
		return strings.Join(v, " | ")
	}
	return &Scenario{Name: "handshake/concurrent-dials-one-client", Body: body, Check: check, Bound: bound, Horizon: 4 * c12Interval,
		Outcome: func(s *vs.Sched) string { return fmt.Sprint(c12conc.ok, c12conc.c[0].Closed, c12conc.c[1].Closed) }}
}

// c12OpaqueLocal: the transport's local address is not of the ip:port form (a pipe, a unix socket,
// a tunnel adapter). With configured host addresses that does not matter: the CER carries the
// configured addresses and the handshake completes. Without configured addresses the dial fails
// and the transport is closed.
func c12OpaqueLocal() *Scenario {
	return &Scenario{Name: "handshake/opaque-local-address", Seq: func(r *SeqResult) {
		for _, local := range []string{"pipe", "/run/diameter.sock", "", "10.1.2.3:3868"} {
			for _, configured := range []bool{true, false} {
				local, configured := local, configured
				var verdict string
				s := vs.Run(nil, false, 10*c12Interval, false, func() {
					settings := &sm.Settings{OriginHost: "cli", OriginRealm: "test", VendorID: 13, ProductName: "prod", FirmwareRevision: 7}
					if configured {
						settings.HostIPAddresses = []datatype.Address{datatype.Address(net.ParseIP("10.0.0.2"))}
					}
					mach := sm.New(settings)
					cli := &sm.Client{Handler: mach, Dict: dict.Default, MaxRetransmits: 0, RetransmitInterval: c12Interval,
						AuthApplicationID: []*diam.AVP{diam.NewAVP(avp.AuthApplicationID, avp.Mbit, 0, datatype.Unsigned32(4))}}
					conn := vnet.NewConn("O")
					conn.Pieces = 1
					conn.Local = vnet.Addr{S: local}
					var cer *PMsg
					vs.GoNamed("peer", true, func() {
						p := &Peer{C: conn}
						if m := p.Next(); m != nil && m.Hdr.Code == 257 {
							cer = m
							conn.Deliver(peerAnswer(m, 2001, true))
						}
					})
					c, err := cli.NewConn(conn, "peer")
					ok := c != nil && err == nil
					parsable := local == "10.1.2.3:3868"
					switch {
					case configured && !ok:
						verdict = fmt.Sprintf("host addresses are configured, the peer answers with a success CEA, but the dial over a transport whose local address is %q failed: %v", local, err)
					case configured && (cer == nil || len(cer.FindAll(257)) != 1 || !bytes.Equal(cer.FindAll(257)[0].Payload, refcodec.Address(1, []byte{10, 0, 0, 2}))):
						verdict = "the CER does not carry exactly the configured host address"
					case configured && conn.Closed:
						verdict = "the connection was closed after a successful handshake"
					case !configured && parsable && !ok:
						verdict = fmt.Sprintf("dial failed: %v", err)
					case !configured && !parsable && local != "" && ok && cer != nil && len(cer.FindAll(257)) == 0:
						// no address to advertise: the library may fail the dial, or succeed if it found one - but
						// never send a CER without any Host-IP-Address and call that a success
						verdict = fmt.Sprintf("no host address is configured and the local address %q yields none, yet a CER without Host-IP-Address was sent and the dial succeeded", local)
					case !ok && !conn.Closed:
						verdict = "the dial failed but the transport was not closed"
					}
				})
				panics := s.Panics()
				s.Teardown()
				r.Cases++
				r.Distinct++
				if len(panics) > 0 && verdict == "" {
					verdict = "panic: " + panics[0]
				}
				if verdict != "" && r.Violation == "" {
					r.Violation = verdict
					r.Case = map[string]interface{}{"local": local, "configured": configured}
				}
			}
		}
		r.Sample = "local address in {pipe, /run/diameter.sock, empty, 10.1.2.3:3868} x host addresses {configured, not configured}"
	}}
}
