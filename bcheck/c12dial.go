package bcheck

import (
	"crypto/ecdsa"
	"crypto/elliptic"
	"crypto/rand"
	"crypto/tls"
	"crypto/x509"
	"crypto/x509/pkix"
	"fmt"
	"io"
	"math/big"
	"net"
	"strings"
	"time"

	"github.com/fiorix/go-diameter/v4/diam"
	"github.com/fiorix/go-diameter/v4/diam/avp"
	"github.com/fiorix/go-diameter/v4/diam/datatype"
	"github.com/fiorix/go-diameter/v4/diam/dict"
	"github.com/fiorix/go-diameter/v4/diam/sm"
	"verif/internal/refcodec"
	"verif/vnet"
	vs "verif/vsched"
)

// C12 through the library's own dial entry points (sm.Client.DialTimeout / DialTLSTimeout ->
// diam.DialExt / DialTLSExt). The instrumented build turns dialer.Dial(network, addr) into a hook
// that hands out an in-memory connection; deadlines set on that connection run on the virtual
// clock. The TLS variant has a real crypto/tls server on the peer's side of the connection.

// peerPipe is the peer's end of a vnet.Conn as an io.ReadWriter (what crypto/tls needs).
type peerPipe struct {
	c   *vnet.Conn
	pos int
}

func (p *peerPipe) Read(b []byte) (int, error) {
	vs.BlockObj("peer.read", p.c, func() bool { return len(p.c.Out) > p.pos || p.c.Closed })
	if len(p.c.Out) > p.pos {
		n := copy(b, p.c.Out[p.pos:])
		p.pos += n
		return n, nil
	}
	return 0, io.EOF
}
func (p *peerPipe) Write(b []byte) (int, error)        { p.c.Deliver(b); return len(b), nil }
func (p *peerPipe) Close() error                       { p.c.PeerEOF(); return nil }
func (p *peerPipe) LocalAddr() net.Addr                { return p.c.Remote }
func (p *peerPipe) RemoteAddr() net.Addr               { return p.c.Local }
func (p *peerPipe) SetDeadline(t time.Time) error      { return nil }
func (p *peerPipe) SetReadDeadline(t time.Time) error  { return nil }
func (p *peerPipe) SetWriteDeadline(t time.Time) error { return nil }

var c12cert *tls.Certificate

func c12TLSCert() tls.Certificate {
	if c12cert == nil {
		key, err := ecdsa.GenerateKey(elliptic.P256(), rand.Reader)
		if err != nil {
			panic(err)
		}
		tmpl := &x509.Certificate{SerialNumber: big.NewInt(1), Subject: pkix.Name{CommonName: "peer"},
			NotBefore: time.Now().Add(-time.Hour), NotAfter: time.Now().Add(24 * time.Hour), KeyUsage: x509.KeyUsageDigitalSignature,
			ExtKeyUsage: []x509.ExtKeyUsage{x509.ExtKeyUsageServerAuth}}
		der, err := x509.CreateCertificate(rand.Reader, tmpl, tmpl, &key.PublicKey, key)
		if err != nil {
			panic(err)
		}
		c12cert = &tls.Certificate{Certificate: [][]byte{der}, PrivateKey: key}
	}
	return *c12cert
}

// readMsg reads one Diameter message from r (nil at end of stream).
func readMsg(r io.Reader) *PMsg {
	hdr := make([]byte, 20)
	if _, err := io.ReadFull(r, hdr); err != nil {
		return nil
	}
	h, _ := refcodec.DecodeHeader(hdr)
	if h.Length < 20 {
		return nil
	}
	raw := make([]byte, h.Length)
	copy(raw, hdr)
	if _, err := io.ReadFull(r, raw[20:]); err != nil {
		return nil
	}
	recs, _, _ := refcodec.Frame(raw[20:], func(code, vendor uint32, v bool) bool { return code == 260 || code == 279 })
	return &PMsg{Hdr: h, Raw: raw, AVPs: recs, At: int64(vs.Now())}
}

type c12DialState struct {
	conn     *vnet.Conn
	ok       bool
	err      error
	returned bool
	cers     []time.Duration
	raa      int
	dial     []vnet.DialRecord
	note     []string
}

var c12dial *c12DialState

// c12DialScenario: MaxRetransmits R, RetransmitInterval 1 s, dial timeout `timeout`; the peer
// answers the (answerAt+1)-th CER with a success CEA, stays idle for `idle`, then sends a duplicate
// CEA and an RAA. The dial must succeed, the connection must stay open and the RAA must reach the
// application handler - however the dial timeout relates to the time the handshake takes.
func c12DialScenario(useTLS bool, R, answerAt int, timeout, idle time.Duration) *Scenario {
	name := fmt.Sprintf("dial-entry-point/tls=%v/R%d/answer-to-CER-%d/dial-timeout=%v/idle=%v", useTLS, R, answerAt+1, timeout, idle)
	return &Scenario{Name: name, Seq: func(r *SeqResult) {
		st := &c12DialState{}
		c12dial = st
		s := vs.Run(nil, false, time.Duration(R+3)*c12Interval+idle+timeout, false, func() {
			conn := vnet.NewConn("D")
			conn.Pieces = 1
			st.conn = conn
			vnet.DialQueue = []net.Conn{conn}
			settings := &sm.Settings{OriginHost: "cli", OriginRealm: "test", VendorID: 13, ProductName: "prod",
				HostIPAddresses: []datatype.Address{datatype.Address(net.ParseIP("10.0.0.2"))}}
			mach := sm.New(settings)
			mach.HandleFunc("RAA", func(c diam.Conn, m *diam.Message) { st.raa++ })
			cli := &sm.Client{Handler: mach, Dict: dict.Default, MaxRetransmits: uint(R), RetransmitInterval: c12Interval,
				AuthApplicationID: []*diam.AVP{diam.NewAVP(avp.AuthApplicationID, avp.Mbit, 0, datatype.Unsigned32(4))}}
			vs.GoNamed("peer", true, func() {
				var rw io.ReadWriter = &peerPipe{c: conn}
				if useTLS {
					tc := tls.Server(rw.(*peerPipe), &tls.Config{Certificates: []tls.Certificate{c12TLSCert()}, MinVersion: tls.VersionTLS12})
					if err := tc.Handshake(); err != nil {
						st.note = append(st.note, "peer: TLS handshake failed: "+err.Error())
						return
					}
					rw = tc
				}
				for k := 0; ; k++ {
					m := readMsg(rw)
					if m == nil {
						return
					}
					if m.Hdr.Code != 257 {
						continue
					}
					st.cers = append(st.cers, vs.Now())
					if k != answerAt {
						continue
					}
					cea := peerAnswer(m, 2001, true)
					rw.Write(cea)
					vs.TimeSleep(idle)
					rw.Write(cea) // a duplicate
					rw.Write(refcodec.EncodeMessage(refcodec.Header{Version: 1, Code: 258, HbH: 77, E2E: 1}, []refcodec.Node{u32avp(268, 2001), ident(264, "srv"), ident(296, "test")}))
				}
			})
			var c diam.Conn
			var err error
			if useTLS {
				c, err = cli.DialTLSTimeout("peer.example:3868", "", "", timeout)
			} else {
				c, err = cli.DialTimeout("peer.example:3868", timeout)
			}
			st.ok, st.err, st.returned = c != nil && err == nil, err, true
			st.dial = append([]vnet.DialRecord{}, vnet.Dials...)
		})
		panics := s.Panics()
		s.Teardown()
		r.Cases++
		r.Distinct++
		r.Sample = name
		var v []string
		v = append(v, st.note...)
		switch {
		case !st.returned:
			v = append(v, "the dial never returned")
		case len(st.dial) != 1 || st.dial[0].Timeout != timeout || st.dial[0].Addr != "peer.example:3868":
			v = append(v, fmt.Sprintf("the dial was made as %+v, expected one dial of peer.example:3868 with timeout %v", st.dial, timeout))
		case !st.ok:
			v = append(v, fmt.Sprintf("a success CEA answered CER %d of the %d permitted, at %v, but the dial failed: %v", answerAt+1, R+1, st.cers, st.err))
		case st.conn.Closed:
			v = append(v, fmt.Sprintf("the connection was closed (at %v) after a successful handshake although the peer only idled for %v", st.conn.ClosedAt, idle))
		case st.raa != 1:
			v = append(v, fmt.Sprintf("%d of 1 answers reached the application handler after the idle period", st.raa))
		}
		for _, p := range panics {
			v = append(v, "panic: "+p)
		}
		if len(v) > 0 {
			r.Violation = name + ": " + strings.Join(v, " | ")
			r.Case = map[string]interface{}{"tls": useTLS, "R": R, "answerAt": answerAt, "timeout": timeout.String(), "idle": idle.String()}
		}
	}}
}

func c12DialScenarios() []*Scenario {
	var out []*Scenario
	for _, useTLS := range []bool{false, true} {
		for _, tc := range []struct {
			R, at         int
			timeout, idle time.Duration
		}{
			{0, 0, 0, 3 * c12Interval},                // no dial timeout
			{0, 0, c12Interval / 2, 3 * c12Interval},  // idle long after the dial timeout
			{2, 2, 3 * c12Interval / 2, c12Interval},  // the answer comes after the dial timeout
			{1, 1, 10 * c12Interval, 2 * c12Interval}, // generous timeout
		} {
			out = append(out, c12DialScenario(useTLS, tc.R, tc.at, tc.timeout, tc.idle))
		}
	}
	return out
}
