package bcheck

import (
	"context"
	"bytes"
	"fmt"
	"net"
	"os"
	"strconv"
	"strings"
	"time"

	"github.com/fiorix/go-diameter/v4/diam"
	"github.com/fiorix/go-diameter/v4/diam/avp"
	"github.com/fiorix/go-diameter/v4/diam/datatype"
	"github.com/fiorix/go-diameter/v4/diam/dict"
	"github.com/fiorix/go-diameter/v4/diam/sm"
	"verif/internal/refcodec"
	"verif/vnet"
	vs "verif/vsched"
)

// C13 — the watchdog detects a silent peer and spares a responsive one.

func init() {
	Registry["C13"] = &Check{
		Scenarios: c13Scenarios,
		Rule: "one long-lived Client whose Handler is pointed at a new state machine between two dials, both connections watched; three watchdog scripts with delayed acknowledgements while an application goroutine updates the connection context (read, work, store a derived one) every quarter interval, so that an update straddles the start of every round (preemption bound 0: every ordering of the free transitions); client side: MaxRetransmits R in {0,1,2}, WatchdogInterval 3 s, RetransmitInterval 1 s on the virtual clock; the peer's reaction to the n-th DWR transmission is scripted from {success DWA after 0, 1/2 or 1 interval (1 = exact tie with the retransmission timer), DWA 5012 at once, silence}, a transport that takes 3/2 intervals to accept the first DWR while the peer answers at once (R 0 and 1: no retransmission, no close); two dials through one state machine, one with the watchdog off and one with it on, in either order (the watched connection stays open and is probed every interval, the other never sees a DWR); server side: every sequence of <=3 DWRs over {fresh identifiers, the previous identifiers again, the same with the T flag, fresh with the T flag, the same with the P flag, zero identifiers with T} is answered DWR by DWR; scripts with other non-success answers (1001, 3004, a DWA without Result-Code) and with a peer that leaves a DWR unanswered but sends a DWR of its own at that instant, plus five burst scripts with answers delayed by 3/2 and 5/2 intervals (several late answers landing inside one later waiting window); all scripts of length <=2 (thorough 3), silence afterwards, so every run ends with the watchdog closing the connection; every schedule of watchdog thread, reader, timers and peer up to preemption bound 2 (thorough: unbounded for scripts of length <=1); peer steps and due timers are free transitions, so every ordering of answer / timer / reader is explored already at bound 0. In every other scenario the application replaces the connection context after the handshake by one derived from it that carries a value of its own and has been cancelled. Oracle: the observed (time, hop-by-hop id) sequence of DWRs and the close time must be one of the timelines of a reference model (branching only at exact ties). Redial: the peer of a first connection leaves the first DWR unanswered and disconnects 0 or 1/2 interval later, the application redials at once with the same Client, and the second connection (peer answers two DWRs, then silence) must show the model's timeline measured from its own handshake (R in {0,1}). A handshake that takes longer than WatchdogInterval (the peer answers only the retransmitted CER): no DWR before the CEA, the first one interval after it. Two live connections of one Client (dialled one after the other, both peers answer every DWR): neither is closed and each sees one DWR per interval. A client with the watchdog enabled answers a DWR its handshaken peer sends (between rounds and at the instant of its own DWR). Server side: one state machine serves 40 peers one after the other (handshake, DWR, disconnect each); for every DWR from a handshaken peer over {both identity AVPs, Origin-Host missing, Origin-Realm missing, with Origin-State-Id, Origin-Host in another letter case, another Origin-Host} x ids {0,1,2^31,2^32-1}^2 the state machine must answer a success DWA with the local identity and the request's ids.",
		Assume: []string{"virtual time: writes and computation take no time", "data-race freedom between visible operations (audited separately with -race)"},
		QuickBudget: 150, ThoroughBudget: 2400,
	}
}

const (
	c13W = 3 * time.Second
	c13I = time.Second
)

type c13Tx struct {
	At  time.Duration
	HbH uint32
	Raw []byte
}

type c13State struct {
	conn   *vnet.Conn
	tx     []c13Tx
	dialOK bool
	hsAt   time.Duration
	note   []string
}

var c13st *c13State

// script actions: "ok0" "okH" "ok1" "bad" "sil"
func c13Scenarios(tier string) []*Scenario {
	thorough := tier == "thorough"
	bound, maxLen := 2, 2
	if thorough {
		bound, maxLen = 2, 3
	}
	if v := os.Getenv("C13_BOUND"); v != "" {
		bound, _ = strconv.Atoi(v)
	}
	if v := os.Getenv("C13_LEN"); v != "" {
		maxLen, _ = strconv.Atoi(v)
	}
	alpha := []string{"ok0", "okH", "ok1", "bad", "sil"}
	var scripts [][]string
	var rec func(cur []string)
	rec = func(cur []string) {
		// canonical form: a script never ends with silence (silence is what follows anyway)
		if len(cur) == 0 || cur[len(cur)-1] != "sil" {
			scripts = append(scripts, append([]string{}, cur...))
		}
		if len(cur) == maxLen {
			return
		}
		for _, a := range alpha {
			rec(append(cur, a))
		}
	}
	rec(nil)
	var out []*Scenario
	for R := 0; R <= 2; R++ {
		for _, sc := range scripts {
			b := bound
			if thorough && len(sc) <= 1 {
				b = vs.Unbounded
			}
			out = append(out, c13Scenario(R, sc, b))
		}
	}
	// late answers that arrive in a burst during a later transmission's window, then silence
	// answers that are not success answers: 1001, 3004, and a DWA without Result-Code
	// "dwr": the peer leaves the DWR unanswered and sends a DWR of its own instead - a request from
	// the peer is not an answer: the round goes on (retransmission, then close) as for silence
	for _, sc := range [][]string{{"b1k"}, {"bnr"}, {"b3k"}, {"ok0", "b1k"}, {"bnr", "ok0"}, {"b3k", "b1k", "bnr"}, {"dwr"}, {"dwr", "dwr"}, {"ok0", "dwr"}, {"dwr", "ok0"}} {
		for R := 0; R <= 1; R++ {
			out = append(out, c13Scenario(R, sc, bound))
		}
	}
	c13Straddle = true
	for _, sc := range [][]string{{"okH"}, {"okH", "ok1"}, {"ok1", "bad"}} {
		x := c13Scenario(1, sc, 0)
		x.Name += "/application-context-updates"
		out = append(out, x)
	}
	c13Straddle = false
	bursts := [][]string{{"ok5H", "ok3H", "ok0"}, {"ok5H", "ok3H", "okH"}}
	burstBound := 0 // answers, timers and the reader are free transitions: every ordering of the burst is explored at bound 0
	if thorough {
		bursts = append(bursts, []string{"ok3H", "okH"}, []string{"ok3H", "ok3H", "sil", "ok0"}, []string{"ok5H", "sil", "okH"})
		burstBound = 1
	}
	for _, sc := range bursts {
		for R := 1; R <= 2; R++ {
			if !thorough && R == 1 {
				continue
			}
			out = append(out, c13Scenario(R, sc, burstBound))
		}
	}
	for R := 0; R <= 1; R++ {
		for _, d := range []time.Duration{0, c13I / 2} {
			out = append(out, c13Redial(R, d, bound))
		}
	}
	out = append(out, c13TwoLive(0, 0))
	c13SwapMachine = true
	out = append(out, c13TwoLive(0, 0), c13TwoLive(1, 0))
	c13SwapMachine = false
	out = append(out, c13SlowHandshake(bound))
	for _, at := range []time.Duration{c13I, c13W, c13W + 3*c13I/2} { // before the first round, exactly when the client's own DWR goes out, and in the quiet part between two rounds
		out = append(out, c13PeerDWR(at, bound))
	}
	for _, flip := range []bool{false, true} {
		out = append(out, c13MixedDials(flip, bound))
	}
	for R := 0; R <= 1; R++ {
		out = append(out, c13SlowWrite(R, bound))
	}
	out = append(out, &Scenario{Name: "server/dwr-grid", Seq: c13Server})
	out = append(out, &Scenario{Name: "server/dwr-sequences", Seq: c13ServerSeqs})
	out = append(out, &Scenario{Name: "server/many-sequential-peers", Seq: c13ManyPeers})
	return out
}

// timeline of the reference model
type c13TL struct {
	tx      []time.Duration
	round   []int
	closeAt time.Duration
}

// c13Delay is the delay of a success answer in half RetransmitIntervals (-1: not an acknowledgement).
func c13Delay(a string) int {
	switch a {
	case "ok0":
		return 0
	case "okH":
		return 1
	case "ok1":
		return 2
	case "ok3H":
		return 3
	case "ok5H":
		return 5
	}
	return -1
}

// c13Model returns every timeline the statement allows for a script. It is a small
// discrete-event simulation of the statement (not of the code): a round transmits the same
// request every RetransmitInterval, at most R+1 times; a success answer delivered while the
// round is waiting ends it, and the next round starts one WatchdogInterval later; answers
// delivered while nobody waits are stale and are ignored; a round that ends unanswered
// closes the connection. Where an answer and a timer fall on the same instant both orders
// are allowed (branching).
func c13Model(R int, script []string) []c13TL {
	var out []c13TL
	act := func(i int) string {
		if i < len(script) {
			return script[i]
		}
		return "sil"
	}
	has := func(p []time.Duration, t time.Duration) bool {
		for _, x := range p {
			if x == t {
				return true
			}
		}
		return false
	}
	without := func(p []time.Duration, upTo time.Duration) []time.Duration {
		var q []time.Duration
		for _, x := range p {
			if x > upTo {
				q = append(q, x)
			}
		}
		return q
	}
	cp := func(t c13TL) c13TL {
		return c13TL{tx: append([]time.Duration{}, t.tx...), round: append([]int{}, t.round...), closeAt: t.closeAt}
	}
	var round func(start time.Duration, ridx, txIdx int, pending []time.Duration, cur c13TL)
	var send func(start time.Duration, ridx, i, txIdx int, pending []time.Duration, cur c13TL)
	endRound := func(at time.Duration, ridx, txIdx int, pending []time.Duration, cur c13TL) {
		// answers up to and including this instant are consumed or stale
		round(at+c13W, ridx+1, txIdx, without(pending, at), cur)
	}
	round = func(start time.Duration, ridx, txIdx int, pending []time.Duration, cur c13TL) {
		if len(cur.tx) > 30 {
			return
		}
		// answers that arrived before the round started are stale
		var p []time.Duration
		tie := false
		for _, x := range pending {
			if x > start {
				p = append(p, x)
			} else if x == start {
				tie = true
			}
		}
		if tie {
			// an answer landing exactly at the start of the round: dropped as stale, or kept and
			// counted right after the first transmission
			c := cp(cur)
			c.tx = append(c.tx, start)
			c.round = append(c.round, ridx)
			np := append([]time.Duration{}, p...)
			if d := c13Delay(act(txIdx)); d >= 0 {
				np = append(np, start+time.Duration(d)*c13I/2)
			}
			endRound(start, ridx, txIdx+1, np, c)
		}
		send(start, ridx, 0, txIdx, p, cur)
	}
	send = func(start time.Duration, ridx, i, txIdx int, pending []time.Duration, cur c13TL) {
		t := start + time.Duration(i)*c13I
		if i > 0 && has(pending, t) {
			// an answer lands exactly when the retransmission timer fires. A: answer first
			endRound(t, ridx, txIdx, pending, cp(cur))
			// B: timer first - transmit, then the answer ends the round at the same instant
		}
		cur = cp(cur)
		cur.tx = append(cur.tx, t)
		cur.round = append(cur.round, ridx)
		pending = append([]time.Duration{}, pending...)
		if d := c13Delay(act(txIdx)); d >= 0 {
			pending = append(pending, t+time.Duration(d)*c13I/2)
		}
		txIdx++
		if has(pending, t) {
			endRound(t, ridx, txIdx, pending, cur)
			return
		}
		// earliest answer inside the waiting window (t, t+I)
		var first time.Duration = -1
		for _, x := range pending {
			if x > t && x < t+c13I && (first < 0 || x < first) {
				first = x
			}
		}
		if first >= 0 {
			endRound(first, ridx, txIdx, pending, cur)
			return
		}
		if i == R {
			if has(pending, t+c13I) {
				endRound(t+c13I, ridx, txIdx, pending, cp(cur)) // answer wins the tie with the final timer
			}
			cur.closeAt = t + c13I
			out = append(out, cur)
			return
		}
		send(start, ridx, i+1, txIdx, pending, cur)
	}
	round(c13W, 0, 0, nil, c13TL{closeAt: -1})
	return out
}

type c13AppKey struct{}

// c13Straddle: the scenarios built while it is set run an application goroutine that updates the
// connection context over and over (see the body)
var c13Straddle = false

func c13Scenario(R int, script []string, bound int) *Scenario {
	straddle := c13Straddle
	timelines := c13Model(R, script)
	horizon := time.Duration(0)
	for _, t := range timelines {
		if t.closeAt > horizon {
			horizon = t.closeAt
		}
	}
	horizon += 2*c13W + 3*c13I
	body := func() {
		st := &c13State{}
		c13st = st
		conn := vnet.NewConn("C")
		conn.Pieces = 1
		st.conn = conn
		settings := &sm.Settings{OriginHost: "cli", OriginRealm: "test", VendorID: 13, ProductName: "prod",
			HostIPAddresses: []datatype.Address{datatype.Address(net.ParseIP("10.0.0.2"))}}
		// every third configuration the client announces an Origin-State-Id of its own and the peer's
		// answers carry the peer's (a different number: each node counts its own restarts)
		osid := (len(script)*2+R)%3 == 0
		if osid {
			settings.OriginStateID = datatype.Unsigned32(1000 + R)
		}
		mach := sm.New(settings)
		cli := &sm.Client{Handler: mach, Dict: dict.Default, MaxRetransmits: uint(R), RetransmitInterval: c13I,
			EnableWatchdog: true, WatchdogInterval: c13W,
			AuthApplicationID: []*diam.AVP{diam.NewAVP(avp.AuthApplicationID, avp.Mbit, 0, datatype.Unsigned32(4))}}
		vs.GoNamed("peer", true, func() {
			p := &Peer{C: conn}
			n := 0
			peerAnswer := func(req *PMsg, rc uint32, withApp bool) []byte {
				b := peerAnswer(req, rc, withApp)
				if osid {
					b = append(b, 0, 0, 1, 22, 0x40, 0, 0, 12, 0, 0, 0, 77)
					b[1], b[2], b[3] = byte(len(b)>>16), byte(len(b)>>8), byte(len(b))
				}
				return b
			}
			for {
				m := p.Next()
				if m == nil {
					return
				}
				switch m.Hdr.Code {
				case 257:
					conn.Deliver(peerAnswer(m, 2001, true))
				case 280:
					if m.Hdr.Flags&0x80 == 0 {
						// the DWA to a DWR the peer sent itself (action "dwr")
						if m.Hdr.HbH&0xf0000000 != 0x90000000 || m.Find(268) == nil || be32(m.Find(268).Payload) != 2001 {
							st.note = append(st.note, fmt.Sprintf("the peer's own DWR was answered with a DWA that does not mirror it (hop-by-hop %#x)", m.Hdr.HbH))
						}
						continue
					}
					st.tx = append(st.tx, c13Tx{At: vs.Now(), HbH: m.Hdr.HbH, Raw: m.Raw})
					a := "sil"
					if n < len(script) {
						a = script[n]
					}
					n++
					vs.Event("peer: DWR #%d (hbh %#x) -> %s", n, m.Hdr.HbH, a)
					req := m
					switch a {
					case "ok0":
						conn.Deliver(peerAnswer(req, 2001, false))
					case "bad":
						conn.Deliver(peerAnswer(req, 5012, false))
					case "b1k": // an informational result code is not a success answer
						conn.Deliver(peerAnswer(req, 1001, false))
					case "b3k":
						conn.Deliver(peerAnswer(req, 3004, false))
					case "bnr": // a DWA without any Result-Code
						conn.Deliver(peerAnswerOpt(req, 0, false, true, false))
					case "dwr": // no answer; instead the peer (which runs a watchdog too) sends a DWR of its own
						conn.Deliver(refcodec.EncodeMessage(refcodec.Header{Version: 1, Flags: 0x80, Code: 280, HbH: 0x90000000 + uint32(n), E2E: 7},
							[]refcodec.Node{ident(264, "srv"), ident(296, "test")}))
					case "okH", "ok1", "ok3H", "ok5H":
						d := time.Duration(c13Delay(a)) * c13I / 2
						vs.GoNamed("peer-late-dwa", true, func() {
							vs.TimeSleep(d)
							vs.Event("peer: delivers delayed DWA")
							conn.Deliver(peerAnswer(req, 2001, false))
						})
					}
				default:
					st.note = append(st.note, fmt.Sprintf("peer received unexpected command %d", m.Hdr.Code))
				}
			}
		})
		c, err := cli.NewConn(conn, "peer")
		st.dialOK = c != nil && err == nil
		st.hsAt = vs.Now()
		if !st.dialOK {
			st.note = append(st.note, fmt.Sprintf("dial failed: %v", err))
		}
		if st.dialOK && straddle {
			// the application keeps per-connection state the usual way - read the context, work, store a
			// derived one - over and over, at instants of its own (an eighth of an interval off the
			// library's timers), so that some update straddles the start of every watchdog round
			vs.GoNamed("app-context-updates", true, func() {
				vs.TimeSleep(c13I / 8)
				for i := 0; vs.Now() < horizon-c13I && !conn.Closed; i++ {
					ctx := c.Context()
					vs.TimeSleep(c13I / 4)
					c.SetContext(context.WithValue(ctx, c13AppKey{}, i))
				}
			})
		}
		if st.dialOK && (len(script)+R)%2 == 1 {
			// the application hangs a value of its own on the connection, through a context it derived
			// with a deadline / cancel function that has since been cancelled (values of a cancelled
			// context stay readable; the connection's life does not depend on it)
			ctx, cancel := context.WithCancel(c.Context())
			c.SetContext(context.WithValue(ctx, c13AppKey{}, "application value"))
			cancel()
		}
	}
	check := func(s *vs.Sched) string {
		st := c13st
		if len(st.note) > 0 {
			return strings.Join(st.note, " | ")
		}
		// observed timeline
		var obs c13TL
		obs.closeAt = -1
		if st.conn.Closed {
			obs.closeAt = st.conn.ClosedAt
		}
		rounds := map[uint32]int{}
		for _, t := range st.tx {
			if _, ok := rounds[t.HbH]; !ok {
				rounds[t.HbH] = len(rounds)
			}
			obs.tx = append(obs.tx, t.At)
			obs.round = append(obs.round, rounds[t.HbH])
		}
		// content: identity, and retransmissions are the same request
		first := map[uint32][]byte{}
		for i, t := range st.tx {
			recs, _, err := refcodec.Frame(t.Raw[20:], nil)
			okH, okR := false, false
			for _, r := range recs {
				if r.Code == 264 && string(r.Payload) == "cli" {
					okH = true
				}
				if r.Code == 296 && string(r.Payload) == "test" {
					okR = true
				}
			}
			if err != nil || !okH || !okR {
				return fmt.Sprintf("DWR transmission %d does not carry the client identity (Origin-Host cli, Origin-Realm test)", i+1)
			}
			if f, ok := first[t.HbH]; ok {
				if !bytes.Equal(f, t.Raw) {
					return fmt.Sprintf("DWR transmission %d has the hop-by-hop id of an earlier request but different content", i+1)
				}
			} else {
				first[t.HbH] = t.Raw
			}
		}
		for _, tl := range timelines {
			if c13Same(tl, obs) {
				return ""
			}
		}
		var want []string
		for _, tl := range timelines {
			want = append(want, c13Fmt(tl))
		}
		if len(want) > 3 {
			want = append(want[:3], "...")
		}
		return fmt.Sprintf("watchdog timeline %s is not one the statement allows for R=%d, peer script %v (allowed: %s); panics %v", c13Fmt(obs), R, script, strings.Join(want, " or "), s.Panics())
	}
	outcome := func(s *vs.Sched) string {
		st := c13st
		return fmt.Sprintf("tx=%d closed=%v at %v", len(st.tx), st.conn.Closed, st.conn.ClosedAt)
	}
	return &Scenario{Name: fmt.Sprintf("watchdog/R%d/%v", R, script), Body: body, Check: check, Outcome: outcome, Bound: bound, Horizon: horizon,
		Weight: len(script)*4 + R + map[bool]int{true: 20, false: 0}[len(script) >= 3]}
}

func c13Same(a, b c13TL) bool {
	if len(a.tx) != len(b.tx) || a.closeAt != b.closeAt {
		return false
	}
	for i := range a.tx {
		if a.tx[i] != b.tx[i] || a.round[i] != b.round[i] {
			return false
		}
	}
	return true
}

func c13Fmt(t c13TL) string {
	var s []string
	for i := range t.tx {
		s = append(s, fmt.Sprintf("r%d@%v", t.round[i], t.tx[i]))
	}
	c := "never"
	if t.closeAt >= 0 {
		c = t.closeAt.String()
	}
	return "[DWRs " + strings.Join(s, " ") + "; close " + c + "]"
}

// c13Server: the state machine as server answers DWRs of a handshaken peer.
func c13Server(r *SeqResult) {
	ids := []uint32{0, 1, 0x80000000, 0xffffffff}
	// "case" / "otherid": the DWR names another spelling of the handshake identity (DiameterIdentity
	// is case-insensitive) / another identity of the same peer - still a well-formed DWR
	shapes := []string{"both", "nohost", "norealm", "stateid", "case", "otherid"}
	for _, shape := range shapes {
		for _, hb := range ids {
			for _, ee := range ids {
				shape, hb, ee := shape, hb, ee
				var dwa *PMsg
				var closed bool
				s := vs.Run(nil, false, 0, false, func() {
					conn := vnet.NewConn("S")
					conn.Pieces = 1
					settings := &sm.Settings{OriginHost: "srv", OriginRealm: "realm", VendorID: 13, ProductName: "prod",
						HostIPAddresses: []datatype.Address{datatype.Address(net.ParseIP("10.0.0.1"))}}
					mach := sm.New(settings)
					if _, err := diam.NewConn(conn, "peer", mach, dict.Default); err != nil {
						return
					}
					p := &Peer{C: conn}
					cer := refcodec.EncodeMessage(refcodec.Header{Version: 1, Flags: 0x80, Code: 257, HbH: 5, E2E: 6}, []refcodec.Node{
						ident(264, "cli"), ident(296, "test"), {Code: 257, Flags: 0x40, Payload: refcodec.Address(1, []byte{10, 0, 0, 9})},
						u32avp(266, 13), {Code: 269, Payload: []byte("x")}, u32avp(258, 4)})
					conn.Deliver(cer)
					if cea := p.Next(); cea == nil {
						return
					}
					var avps []refcodec.Node
					switch shape {
					case "nohost":
					case "case":
						avps = append(avps, ident(264, "CLI"))
					case "otherid":
						avps = append(avps, ident(264, "cli-b.example"))
					default:
						avps = append(avps, ident(264, "cli"))
					}
					if shape != "norealm" {
						avps = append(avps, ident(296, "test"))
					}
					if shape == "stateid" {
						avps = append(avps, u32avp(278, 99))
					}
					conn.Deliver(refcodec.EncodeMessage(refcodec.Header{Version: 1, Flags: 0x80, Code: 280, HbH: hb, E2E: ee}, avps))
					if shape != "nohost" && shape != "norealm" {
						dwa = p.Next()
					}
					closed = conn.Closed
				})
				s.Teardown()
				r.Cases++
				r.Distinct++
				if r.Sample == "" {
					r.Sample = fmt.Sprintf("DWR shape=%s hbh=%#x e2e=%#x -> DWA received: %v", shape, hb, ee, dwa != nil)
				}
				if r.Violation != "" || shape == "nohost" || shape == "norealm" {
					continue
				}
				v := ""
				switch {
				case dwa == nil:
					v = "no DWA was written"
				case dwa.Hdr.Code != 280 || dwa.Hdr.Flags&0x80 != 0:
					v = fmt.Sprintf("answer has code %d flags %#x", dwa.Hdr.Code, dwa.Hdr.Flags)
				case dwa.Hdr.HbH != hb || dwa.Hdr.E2E != ee:
					v = fmt.Sprintf("DWA ids %#x/%#x differ from the request's", dwa.Hdr.HbH, dwa.Hdr.E2E)
				case dwa.Find(268) == nil || !bytes.Equal(dwa.Find(268).Payload, refcodec.U32(2001)):
					v = "DWA does not carry Result-Code 2001"
				case dwa.Find(264) == nil || string(dwa.Find(264).Payload) != "srv" || dwa.Find(296) == nil || string(dwa.Find(296).Payload) != "realm":
					v = "DWA does not carry the local identity"
				case closed:
					v = "the connection was closed"
				}
				if v != "" {
					r.Violation = fmt.Sprintf("state machine, well-formed DWR (%s, hbh %#x, e2e %#x) from a handshaken peer: %s", shape, hb, ee, v)
					r.Case = map[string]interface{}{"shape": shape, "hbh": hb, "e2e": ee}
				}
			}
		}
	}
}

// c13MixedDials: two dials through ONE state machine, one with the watchdog off (a probe, or the
// configuration before a reload) and one with it on, in either order. The peer of the watched
// connection answers every DWR: that connection stays open and keeps being probed every
// WatchdogInterval; the unwatched one never sees a DWR.
var c13mixed struct {
	watched, plain *vnet.Conn
	dwrsWatched    []time.Duration
	dwrsPlain      int
	ok             [2]bool
}

func c13MixedDials(watchedFirst bool, bound int) *Scenario {
	body := func() {
		st := &c13mixed
		st.dwrsWatched, st.dwrsPlain, st.ok = nil, 0, [2]bool{}
		st.watched, st.plain = vnet.NewConn("W"), vnet.NewConn("P")
		st.watched.Pieces, st.plain.Pieces = 1, 1
		settings := &sm.Settings{OriginHost: "cli", OriginRealm: "test", VendorID: 13, ProductName: "prod",
			HostIPAddresses: []datatype.Address{datatype.Address(net.ParseIP("10.0.0.2"))}}
		mach := sm.New(settings)
		mk := func(watchdog bool) *sm.Client {
			return &sm.Client{Handler: mach, Dict: dict.Default, MaxRetransmits: 0, RetransmitInterval: c13I,
				EnableWatchdog: watchdog, WatchdogInterval: c13W,
				AuthApplicationID: []*diam.AVP{diam.NewAVP(avp.AuthApplicationID, avp.Mbit, 0, datatype.Unsigned32(4))}}
		}
		peer := func(conn *vnet.Conn, watched bool) {
			p := &Peer{C: conn}
			for {
				m := p.Next()
				if m == nil {
					return
				}
				switch {
				case m.Hdr.Code == 257:
					conn.Deliver(peerAnswer(m, 2001, true))
				case m.Hdr.Code == 280 && m.Hdr.Flags&0x80 != 0:
					if watched {
						st.dwrsWatched = append(st.dwrsWatched, vs.Now())
					} else {
						st.dwrsPlain++
					}
					conn.Deliver(peerAnswer(m, 2001, false))
				}
			}
		}
		vs.GoNamed("peer-watched", true, func() { peer(st.watched, true) })
		vs.GoNamed("peer-plain", true, func() { peer(st.plain, false) })
		order := []bool{false, true}
		if watchedFirst {
			order = []bool{true, false}
		}
		for i, w := range order {
			conn := st.plain
			if w {
				conn = st.watched
			}
			c, err := mk(w).NewConn(conn, "peer")
			st.ok[i] = c != nil && err == nil
		}
	}
	check := func(s *vs.Sched) string {
		st := &c13mixed
		var v []string
		if !st.ok[0] || !st.ok[1] {
			return "harness: a dial failed"
		}
		if st.watched.Closed {
			v = append(v, fmt.Sprintf("the watched connection was closed at %v although its peer answered every DWR (%d answered)", st.watched.ClosedAt, len(st.dwrsWatched)))
		}
		if len(st.dwrsWatched) < 2 {
			v = append(v, fmt.Sprintf("the watched connection saw %d DWRs within 2.5 watchdog intervals, expected at least 2", len(st.dwrsWatched)))
		}
		seen := map[time.Duration]bool{}
		for _, t := range st.dwrsWatched {
			if seen[t] {
				v = append(v, fmt.Sprintf("two DWR transmissions at %v although the first was answered at once", t))
			}
			seen[t] = true
		}
		if st.dwrsPlain > 0 {
			v = append(v, fmt.Sprintf("the connection dialled with the watchdog off received %d DWRs", st.dwrsPlain))
		}
		if st.plain.Closed {
			v = append(v, "the connection dialled with the watchdog off was closed")
		}
		for _, p := range s.Panics() {
			v = append(v, "panic: "+p)
		}
		return strings.Join(v, " | ")
	}
	return &Scenario{Name: fmt.Sprintf("two-dials-one-state-machine/watched-first=%v", watchedFirst), Body: body, Check: check, Bound: bound, Horizon: 5 * c13W / 2,
		Outcome: func(s *vs.Sched) string { return fmt.Sprint(len(c13mixed.dwrsWatched), c13mixed.watched.Closed) }}
}

// c13SlowWrite: the transport takes 3/2 RetransmitInterval to accept the first DWR (a peer that
// drains slowly, congestion) and the peer answers every DWR the moment it has received it. The
// time the transport needs is not the peer's: the DWR is not retransmitted, the connection stays.
var c13sw struct {
	conn *vnet.Conn
	hbh  []uint32
	ok   bool
}

func c13SlowWrite(R int, bound int) *Scenario {
	body := func() {
		st := &c13sw
		st.hbh, st.ok = nil, false
		conn := vnet.NewConn("C")
		conn.Pieces = 1
		conn.WriteDelays = []time.Duration{0, 3 * c13I / 2} // the CER at once, the first DWR slowly
		st.conn = conn
		settings := &sm.Settings{OriginHost: "cli", OriginRealm: "test", VendorID: 13, ProductName: "prod",
			HostIPAddresses: []datatype.Address{datatype.Address(net.ParseIP("10.0.0.2"))}}
		cli := &sm.Client{Handler: sm.New(settings), Dict: dict.Default, MaxRetransmits: uint(R), RetransmitInterval: c13I,
			EnableWatchdog: true, WatchdogInterval: c13W,
			AuthApplicationID: []*diam.AVP{diam.NewAVP(avp.AuthApplicationID, avp.Mbit, 0, datatype.Unsigned32(4))}}
		vs.GoNamed("peer", true, func() {
			p := &Peer{C: conn}
			for {
				m := p.Next()
				if m == nil {
					return
				}
				switch {
				case m.Hdr.Code == 257:
					conn.Deliver(peerAnswer(m, 2001, true))
				case m.Hdr.Code == 280 && m.Hdr.Flags&0x80 != 0:
					st.hbh = append(st.hbh, m.Hdr.HbH)
					conn.Deliver(peerAnswer(m, 2001, false))
				}
			}
		})
		c, err := cli.NewConn(conn, "peer")
		st.ok = c != nil && err == nil
	}
	check := func(s *vs.Sched) string {
		st := &c13sw
		if !st.ok {
			return "harness: dial failed"
		}
		var v []string
		if st.conn.Closed {
			v = append(v, fmt.Sprintf("the connection was closed at %v although the peer answered every DWR as soon as it had received it (%d DWRs seen; the transport took 3/2 intervals to accept the first)", st.conn.ClosedAt, len(st.hbh)))
		}
		seen := map[uint32]bool{}
		for _, h := range st.hbh {
			if seen[h] {
				v = append(v, fmt.Sprintf("DWR %#x was transmitted twice although its first transmission was answered at once", h))
			}
			seen[h] = true
		}
		if len(st.hbh) < 2 {
			v = append(v, fmt.Sprintf("%d DWRs within three watchdog intervals, expected at least 2", len(st.hbh)))
		}
		return strings.Join(v, " | ")
	}
	return &Scenario{Name: fmt.Sprintf("slow-transport-write/R%d", R), Body: body, Check: check, Bound: bound, Horizon: 3 * c13W,
		Outcome: func(s *vs.Sched) string { return fmt.Sprint(len(c13sw.hbh), c13sw.conn.Closed) }}
}

// c13ServerSeqs: a handshaken peer sends SEQUENCES of DWRs - fresh identifiers, the identifiers
// of the previous DWR again (a retransmission), with and without the T (potentially
// retransmitted) flag, with the P flag: every one of them is a well-formed DWR and gets its DWA.
func c13ServerSeqs(r *SeqResult) {
	kinds := []string{"fresh", "same", "same+T", "fresh+T", "same+P", "zero-ids+T"}
	var seqs [][]string
	var rec func(cur []string)
	rec = func(cur []string) {
		if len(cur) > 0 {
			seqs = append(seqs, append([]string{}, cur...))
		}
		if len(cur) == 3 {
			return
		}
		for _, k := range kinds {
			rec(append(cur, k))
		}
	}
	rec(nil)
	for _, sq := range seqs {
		sq := sq
		verdict := ""
		stage := "the handshake"
		done := false
		s := vs.Run(nil, false, 0, false, func() {
			conn := vnet.NewConn("S")
			conn.Pieces = 1
			settings := &sm.Settings{OriginHost: "srv", OriginRealm: "realm", VendorID: 13, ProductName: "prod",
				HostIPAddresses: []datatype.Address{datatype.Address(net.ParseIP("10.0.0.1"))}}
			mach := sm.New(settings)
			if _, err := diam.NewConn(conn, "peer", mach, dict.Default); err != nil {
				return
			}
			p := &Peer{C: conn}
			conn.Deliver(refcodec.EncodeMessage(refcodec.Header{Version: 1, Flags: 0x80, Code: 257, HbH: 5, E2E: 6}, []refcodec.Node{
				ident(264, "cli"), ident(296, "test"), {Code: 257, Flags: 0x40, Payload: refcodec.Address(1, []byte{10, 0, 0, 9})},
				u32avp(266, 13), {Code: 269, Payload: []byte("x")}, u32avp(258, 4)}))
			if cea := p.Next(); cea == nil {
				verdict = "handshake failed"
				return
			}
			hb, ee := uint32(100), uint32(200)
			for i, k := range sq {
				flags := uint8(0x80)
				switch k {
				case "fresh":
					hb, ee = hb+1, ee+1
				case "fresh+T":
					hb, ee = hb+1, ee+1
					flags |= 0x10
				case "same+T":
					flags |= 0x10
				case "same+P":
					flags |= 0x40
				case "zero-ids+T":
					hb, ee = 0, 0
					flags |= 0x10
				}
				conn.Deliver(refcodec.EncodeMessage(refcodec.Header{Version: 1, Flags: flags, Code: 280, HbH: hb, E2E: ee}, []refcodec.Node{ident(264, "cli"), ident(296, "test")}))
				stage = fmt.Sprintf("DWR %d of the sequence (%s, flags %#x, ids %#x/%#x)", i+1, k, flags, hb, ee)
				dwa := p.Next() // waits for the answer (for ever, if none comes: the run then ends here)
				switch {
				case dwa == nil:
					verdict = fmt.Sprintf("DWR %d of the sequence (%s, flags %#x, ids %#x/%#x) was not answered", i+1, k, flags, hb, ee)
				case dwa.Hdr.Code != 280 || dwa.Hdr.Flags&0x80 != 0 || dwa.Hdr.HbH != hb || dwa.Hdr.E2E != ee:
					verdict = fmt.Sprintf("DWR %d (%s): the answer {code %d flags %#x ids %#x/%#x} does not mirror it", i+1, k, dwa.Hdr.Code, dwa.Hdr.Flags, dwa.Hdr.HbH, dwa.Hdr.E2E)
				case dwa.Find(268) == nil || be32(dwa.Find(268).Payload) != 2001:
					verdict = fmt.Sprintf("DWR %d (%s): the DWA is not a success answer", i+1, k)
				case dwa.Find(264) == nil || string(dwa.Find(264).Payload) != "srv":
					verdict = fmt.Sprintf("DWR %d (%s): the DWA does not carry the local identity", i+1, k)
				}
				if verdict != "" {
					return
				}
			}
			if conn.Closed {
				verdict = "the connection was closed"
			}
			done = true
		})
		s.Teardown()
		if !done && verdict == "" {
			verdict = stage + " was never answered"
		}
		r.Cases++
		r.Distinct++
		if r.Sample == "" && len(sq) == 3 {
			r.Sample = fmt.Sprintf("DWR sequence %v from a handshaken peer", sq)
		}
		if verdict != "" && r.Violation == "" {
			r.Violation = fmt.Sprintf("state machine, DWR sequence %v from a handshaken peer: %s", sq, verdict)
			r.Case = map[string]interface{}{"sequence": sq}
		}
	}
}

// c13Redial: the peer of a first connection goes away in the middle of a watchdog round (it
// leaves the first DWR unanswered and closes after d); the application redials at once with the
// SAME Client; the peer of the second connection answers the first two DWRs and then falls
// silent. The second connection's timeline, measured from its own handshake, must be the one the
// reference model allows for the script [ok0 ok0] - whatever the goroutines of the first
// connection still do.
type c13RedialState struct {
	c1, c2   *vnet.Conn
	tx       []c13Tx
	hs2At    time.Duration
	ok1, ok2 bool
	note     []string
}

var c13rd *c13RedialState

func c13Redial(R int, d time.Duration, bound int) *Scenario {
	script := []string{"ok0", "ok0"}
	timelines := c13Model(R, script)
	horizon := time.Duration(0)
	for _, t := range timelines {
		if t.closeAt > horizon {
			horizon = t.closeAt
		}
	}
	horizon += c13W + d + 2*c13W + 3*c13I
	body := func() {
		st := &c13RedialState{c1: vnet.NewConn("C1"), c2: vnet.NewConn("C2")}
		c13rd = st
		st.c1.Pieces, st.c2.Pieces = 1, 1
		settings := &sm.Settings{OriginHost: "cli", OriginRealm: "test", VendorID: 13, ProductName: "prod",
			HostIPAddresses: []datatype.Address{datatype.Address(net.ParseIP("10.0.0.2"))}}
		mach := sm.New(settings)
		cli := &sm.Client{Handler: mach, Dict: dict.Default, MaxRetransmits: uint(R), RetransmitInterval: c13I,
			EnableWatchdog: true, WatchdogInterval: c13W,
			AuthApplicationID: []*diam.AVP{diam.NewAVP(avp.AuthApplicationID, avp.Mbit, 0, datatype.Unsigned32(4))}}
		vs.GoNamed("peer1", true, func() {
			p := &Peer{C: st.c1}
			for {
				m := p.Next()
				if m == nil {
					return
				}
				switch m.Hdr.Code {
				case 257:
					st.c1.Deliver(peerAnswer(m, 2001, true))
				case 280:
					// the first DWR stays unanswered; the peer goes away d later
					if d > 0 {
						vs.TimeSleep(d)
					}
					vs.Event("peer1: disconnects in the middle of the watchdog round")
					st.c1.PeerEOF()
					return
				}
			}
		})
		vs.GoNamed("peer2", true, func() {
			p := &Peer{C: st.c2}
			n := 0
			for {
				m := p.Next()
				if m == nil {
					return
				}
				switch m.Hdr.Code {
				case 257:
					st.c2.Deliver(peerAnswer(m, 2001, true))
				case 280:
					st.tx = append(st.tx, c13Tx{At: vs.Now(), HbH: m.Hdr.HbH, Raw: m.Raw})
					if n < len(script) {
						st.c2.Deliver(peerAnswer(m, 2001, false))
					}
					n++
				}
			}
		})
		c, err := cli.NewConn(st.c1, "peer1")
		st.ok1 = c != nil && err == nil
		if !st.ok1 {
			st.note = append(st.note, fmt.Sprintf("first dial failed: %v", err))
			return
		}
		// the application's reconnect loop: redial as soon as the first connection is gone
		vs.BlockObj("wait-first-connection-gone", st.c1, func() bool { return st.c1.Closed })
		vs.Event("application: first connection gone, redialling with the same Client")
		c2, err := cli.NewConn(st.c2, "peer2")
		st.ok2, st.hs2At = c2 != nil && err == nil, vs.Now()
		if !st.ok2 {
			st.note = append(st.note, fmt.Sprintf("second dial failed: %v", err))
		}
	}
	check := func(s *vs.Sched) string {
		st := c13rd
		if len(st.note) > 0 {
			return strings.Join(st.note, " | ")
		}
		if !st.ok2 {
			return "the second dial never completed (blocked: " + strings.Join(s.Blocked(), ", ") + ")"
		}
		var obs c13TL
		obs.closeAt = -1
		if st.c2.Closed {
			obs.closeAt = st.c2.ClosedAt - st.hs2At
		}
		rounds := map[uint32]int{}
		for _, t := range st.tx {
			if _, ok := rounds[t.HbH]; !ok {
				rounds[t.HbH] = len(rounds)
			}
			obs.tx = append(obs.tx, t.At-st.hs2At)
			obs.round = append(obs.round, rounds[t.HbH])
		}
		for _, tl := range timelines {
			if c13Same(tl, obs) {
				return ""
			}
		}
		var want []string
		for _, tl := range timelines {
			want = append(want, c13Fmt(tl))
		}
		return fmt.Sprintf("second connection of the same Client (dialled at %v, right after the first peer went away in the middle of a watchdog round): timeline %s measured from its handshake is not one the statement allows for R=%d and a peer that answers the first two DWRs (allowed: %s); panics %v",
			st.hs2At, c13Fmt(obs), R, strings.Join(want, " or "), s.Panics())
	}
	outcome := func(s *vs.Sched) string {
		st := c13rd
		return fmt.Sprintf("tx=%d closed2=%v at %v hs2=%v", len(st.tx), st.c2.Closed, st.c2.ClosedAt, st.hs2At)
	}
	return &Scenario{Name: fmt.Sprintf("watchdog-redial/R%d/first-peer-leaves-after-%v", R, d), Body: body, Check: check, Outcome: outcome, Bound: bound, Horizon: horizon, Weight: 6}
}

// c13TwoLive: one Client keeps two connections open at the same time (dialled one after the
// other); both peers answer every DWR. Neither connection may be closed by the client.
type c13TwoState struct {
	c    [2]*vnet.Conn
	tx   [2][]time.Duration
	ok   [2]bool
	note []string
}

var c13two *c13TwoState

// c13SwapMachine: in c13TwoLive the application points the (long-lived) Client at a NEW state
// machine before the second dial (rebuilt settings after a local restart); both connections keep
// their watchdogs
var c13SwapMachine = false

func c13TwoLive(R int, bound int) *Scenario {
	swap := c13SwapMachine
	horizon := c13TwoRounds*c13W + time.Duration(R+1)*c13I + c13I/2 // long enough for an unacknowledged first round to end in a close
	body := func() {
		st := &c13TwoState{}
		c13two = st
		settings := &sm.Settings{OriginHost: "cli", OriginRealm: "test", VendorID: 13, ProductName: "prod",
			HostIPAddresses: []datatype.Address{datatype.Address(net.ParseIP("10.0.0.2"))}}
		mach := sm.New(settings)
		cli := &sm.Client{Handler: mach, Dict: dict.Default, MaxRetransmits: uint(R), RetransmitInterval: c13I,
			EnableWatchdog: true, WatchdogInterval: c13W,
			AuthApplicationID: []*diam.AVP{diam.NewAVP(avp.AuthApplicationID, avp.Mbit, 0, datatype.Unsigned32(4))}}
		for i := 0; i < 2; i++ {
			i := i
			st.c[i] = vnet.NewConn(fmt.Sprintf("C%d", i+1))
			st.c[i].Pieces = 1
			vs.GoNamed(fmt.Sprintf("peer%d", i+1), true, func() {
				p := &Peer{C: st.c[i]}
				for {
					m := p.Next()
					if m == nil {
						return
					}
					switch m.Hdr.Code {
					case 257:
						st.c[i].Deliver(peerAnswer(m, 2001, true))
					case 280:
						st.tx[i] = append(st.tx[i], vs.Now())
						st.c[i].Deliver(peerAnswer(m, 2001, false))
					}
				}
			})
			if swap && i == 1 {
				s2 := *settings
				s2.OriginStateID = 4242
				cli.Handler = sm.New(&s2)
			}
			c, err := cli.NewConn(st.c[i], "peer")
			st.ok[i] = c != nil && err == nil
			if !st.ok[i] {
				st.note = append(st.note, fmt.Sprintf("dial %d failed: %v", i+1, err))
				return
			}
		}
	}
	check := func(s *vs.Sched) string {
		st := c13two
		if len(st.note) > 0 {
			return strings.Join(st.note, " | ")
		}
		for i := 0; i < 2; i++ {
			if st.c[i].Closed {
				return fmt.Sprintf("one Client with two live connections, both peers answer every DWR with a success DWA: connection %d was closed by the client at %v (DWRs seen on it at %v)", i+1, st.c[i].ClosedAt, st.tx[i])
			}
			if fmt.Sprint(st.tx[i]) != fmt.Sprint(c13TwoWant()) {
				return fmt.Sprintf("connection %d: DWRs at %v within %v, expected one every %v (both handshakes complete at time 0, every DWR is answered at once)", i+1, st.tx[i], horizon, c13W)
			}
		}
		return ""
	}
	name := fmt.Sprintf("watchdog-two-live-connections/R%d", R)
	if swap {
		name += "/second-dial-through-a-new-state-machine"
	}
	return &Scenario{Name: name, Body: body, Check: check, Bound: bound, Horizon: horizon, Weight: 6,
		Outcome: func(s *vs.Sched) string { return fmt.Sprint(c13two.tx, c13two.c[0].Closed, c13two.c[1].Closed) }}
}

const c13TwoRounds = 1

func c13TwoWant() []time.Duration {
	var w []time.Duration
	for k := 1; k <= c13TwoRounds; k++ {
		w = append(w, time.Duration(k)*c13W)
	}
	return w
}

// c13PeerDWR: a client with the watchdog enabled is itself asked (the peer runs a watchdog too):
// the DWR the handshaken peer sends must be answered with a success DWA carrying the local
// identity and the request's identifiers, while the client's own watchdog rounds go on.
var c13peer struct {
	dwas  []*PMsg
	dialOK bool
	conn  *vnet.Conn
}

func c13PeerDWR(at time.Duration, bound int) *Scenario {
	body := func() {
		c13peer.dwas, c13peer.dialOK = nil, false
		conn := vnet.NewConn("C")
		conn.Pieces = 1
		c13peer.conn = conn
		settings := &sm.Settings{OriginHost: "cli", OriginRealm: "test", VendorID: 13, ProductName: "prod",
			HostIPAddresses: []datatype.Address{datatype.Address(net.ParseIP("10.0.0.2"))}}
		mach := sm.New(settings)
		cli := &sm.Client{Handler: mach, Dict: dict.Default, MaxRetransmits: 0, RetransmitInterval: c13I,
			EnableWatchdog: true, WatchdogInterval: c13W,
			AuthApplicationID: []*diam.AVP{diam.NewAVP(avp.AuthApplicationID, avp.Mbit, 0, datatype.Unsigned32(4))}}
		vs.GoNamed("peer", true, func() {
			p := &Peer{C: conn}
			for {
				m := p.Next()
				if m == nil {
					return
				}
				switch {
				case m.Hdr.Code == 257:
					conn.Deliver(peerAnswer(m, 2001, true))
					vs.GoNamed("peer-watchdog", true, func() {
						vs.TimeSleep(at)
						vs.Event("peer: sends its own DWR")
						conn.Deliver(refcodec.EncodeMessage(refcodec.Header{Version: 1, Flags: 0x80, Code: 280, HbH: 0x80000000, E2E: 7},
							[]refcodec.Node{ident(264, "srv"), ident(296, "test")}))
					})
				case m.Hdr.Code == 280 && m.Hdr.Flags&0x80 != 0:
					conn.Deliver(peerAnswer(m, 2001, false))
				case m.Hdr.Code == 280:
					c13peer.dwas = append(c13peer.dwas, m)
				}
			}
		})
		c, err := cli.NewConn(conn, "peer")
		c13peer.dialOK = c != nil && err == nil
	}
	check := func(s *vs.Sched) string {
		if !c13peer.dialOK {
			return "harness: dial failed"
		}
		if c13peer.conn.Closed {
			return "the connection was closed although the peer answered every DWR"
		}
		if len(c13peer.dwas) != 1 {
			return fmt.Sprintf("a handshaken peer sent one well-formed DWR to a client with the watchdog enabled: %d DWAs came back", len(c13peer.dwas))
		}
		a := c13peer.dwas[0]
		rc := a.Find(268)
		switch {
		case a.Hdr.HbH != 0x80000000 || a.Hdr.E2E != 7:
			return fmt.Sprintf("DWA identifiers %#x/%#x, the request had 0x80000000/0x7", a.Hdr.HbH, a.Hdr.E2E)
		case rc == nil || be32(rc.Payload) != 2001:
			return "the DWA is not a success answer"
		case a.Find(264) == nil || string(a.Find(264).Payload) != "cli" || a.Find(296) == nil || string(a.Find(296).Payload) != "test":
			return "the DWA does not carry the local identity"
		}
		return ""
	}
	return &Scenario{Name: fmt.Sprintf("client-answers-peer-dwr/at-%v", at), Body: body, Check: check, Bound: bound, Horizon: c13W + c13I/2 + at,
		Outcome: func(s *vs.Sched) string { return fmt.Sprint(len(c13peer.dwas), c13peer.conn.Closed) }}
}

// c13ManyPeers: ONE state machine serves 40 peers one after the other (nobody reads its
// HandshakeNotify channel - doing so is optional); every one completes the handshake and gets its
// DWR answered.
func c13ManyPeers(r *SeqResult) {
	var verdict, stage string
	served := 0
	s := vs.Run(nil, false, 0, false, func() {
		settings := &sm.Settings{OriginHost: "srv", OriginRealm: "realm", VendorID: 13, ProductName: "prod",
			HostIPAddresses: []datatype.Address{datatype.Address(net.ParseIP("10.0.0.1"))}}
		mach := sm.New(settings)
		for i := 0; i < 40; i++ {
			conn := vnet.NewConn(fmt.Sprintf("S%d", i))
			conn.Pieces = 1
			if _, err := diam.NewConn(conn, "peer", mach, dict.Default); err != nil {
				verdict = err.Error()
				return
			}
			p := &Peer{C: conn}
			conn.Deliver(refcodec.EncodeMessage(refcodec.Header{Version: 1, Flags: 0x80, Code: 257, HbH: uint32(i), E2E: 6}, []refcodec.Node{
				ident(264, "cli"), ident(296, "test"), {Code: 257, Flags: 0x40, Payload: refcodec.Address(1, []byte{10, 0, 0, 9})},
				u32avp(266, 13), {Code: 269, Payload: []byte("x")}, u32avp(258, 4)}))
			stage = fmt.Sprintf("peer %d sent its CER", i+1)
			cea := p.Next()
			if cea == nil || cea.Find(268) == nil || be32(cea.Find(268).Payload) != 2001 {
				verdict = fmt.Sprintf("peer %d of one state machine: the handshake did not complete", i+1)
				return
			}
			conn.Deliver(refcodec.EncodeMessage(refcodec.Header{Version: 1, Flags: 0x80, Code: 280, HbH: uint32(1000 + i), E2E: 7}, []refcodec.Node{ident(264, "cli"), ident(296, "test")}))
			stage = fmt.Sprintf("peer %d completed the handshake and sent a well-formed DWR", i+1)
			dwa := p.Next()
			if dwa == nil || dwa.Hdr.Code != 280 || dwa.Hdr.HbH != uint32(1000+i) || dwa.Find(268) == nil || be32(dwa.Find(268).Payload) != 2001 {
				verdict = fmt.Sprintf("peer %d served by one state machine completed the handshake but its well-formed DWR was not answered with a success DWA", i+1)
				return
			}
			conn.PeerEOF()
			served++
		}
	})
	panics := s.Panics()
	blocked := s.BlockedLib()
	s.Teardown()
	if verdict == "" && served < 40 {
		verdict = stage + " - and was never answered"
	}
	r.Cases += 40
	r.Distinct += 40
	r.Sample = "40 sequential peers on one state machine: CER, DWR, disconnect"
	if verdict == "" && len(panics) > 0 {
		verdict = "panic: " + panics[0]
	}
	if verdict != "" {
		r.Violation = fmt.Sprintf("%s (library goroutines blocked at the end: %v)", verdict, blocked)
		r.Case = map[string]interface{}{"scenario": "many-peers"}
	}
}

// c13SlowHandshake: the peer answers only the retransmitted CER, and WatchdogInterval is shorter
// than the time the handshake takes. Watchdog requests start AFTER the handshake: the peer must
// not see a DWR before it has sent its CEA, the first one comes one interval after the handshake,
// and - every DWR being answered - the connection stays open.
var c13slow struct {
	order  []string
	at     []time.Duration
	conn   *vnet.Conn
	dialOK bool
	hsAt   time.Duration
}

func c13SlowHandshake(bound int) *Scenario {
	w := c13I / 2
	body := func() {
		c13slow.order, c13slow.at, c13slow.dialOK = nil, nil, false
		conn := vnet.NewConn("C")
		conn.Pieces = 1
		c13slow.conn = conn
		settings := &sm.Settings{OriginHost: "cli", OriginRealm: "test", VendorID: 13, ProductName: "prod",
			HostIPAddresses: []datatype.Address{datatype.Address(net.ParseIP("10.0.0.2"))}}
		mach := sm.New(settings)
		cli := &sm.Client{Handler: mach, Dict: dict.Default, MaxRetransmits: 1, RetransmitInterval: c13I,
			EnableWatchdog: true, WatchdogInterval: w,
			AuthApplicationID: []*diam.AVP{diam.NewAVP(avp.AuthApplicationID, avp.Mbit, 0, datatype.Unsigned32(4))}}
		vs.GoNamed("peer", true, func() {
			p := &Peer{C: conn}
			ncer := 0
			for {
				m := p.Next()
				if m == nil {
					return
				}
				switch {
				case m.Hdr.Code == 257:
					ncer++
					c13slow.order, c13slow.at = append(c13slow.order, "CER"), append(c13slow.at, vs.Now())
					if ncer == 2 {
						c13slow.order, c13slow.at = append(c13slow.order, "CEA"), append(c13slow.at, vs.Now())
						conn.Deliver(peerAnswer(m, 2001, true))
					}
				case m.Hdr.Code == 280 && m.Hdr.Flags&0x80 != 0:
					c13slow.order, c13slow.at = append(c13slow.order, "DWR"), append(c13slow.at, vs.Now())
					conn.Deliver(peerAnswer(m, 2001, false))
				}
			}
		})
		c, err := cli.NewConn(conn, "peer")
		c13slow.dialOK, c13slow.hsAt = c != nil && err == nil, vs.Now()
	}
	check := func(s *vs.Sched) string {
		if !c13slow.dialOK {
			return "harness: dial failed"
		}
		cea := -1
		var dwrs []time.Duration
		for i, k := range c13slow.order {
			switch k {
			case "CEA":
				cea = i
			case "DWR":
				if cea < 0 {
					return fmt.Sprintf("the peer received a DWR at %v, before it had answered the CER (it saw %v): watchdog requests start after the handshake", c13slow.at[i], c13slow.order)
				}
				dwrs = append(dwrs, c13slow.at[i])
			}
		}
		if c13slow.conn.Closed {
			return fmt.Sprintf("the connection was closed at %v although every DWR was answered (peer saw %v)", c13slow.conn.ClosedAt, c13slow.order)
		}
		if len(dwrs) == 0 || dwrs[0] != c13slow.hsAt+w {
			return fmt.Sprintf("handshake completed at %v, WatchdogInterval %v: DWRs at %v", c13slow.hsAt, w, dwrs)
		}
		return ""
	}
	return &Scenario{Name: "watchdog-after-slow-handshake", Body: body, Check: check, Bound: bound, Horizon: c13I + 5*w/2,
		Outcome: func(s *vs.Sched) string { return fmt.Sprint(c13slow.order) }}
}
