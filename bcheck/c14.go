package bcheck

import (
	"io"
	"runtime"
	"verif/internal/refcodec"
	"os"
	"strconv"
	"errors"
	"fmt"
	"net"
	"strings"
	"time"

	"github.com/fiorix/go-diameter/v4/diam"
	"github.com/fiorix/go-diameter/v4/diam/avp"
	"github.com/fiorix/go-diameter/v4/diam/datatype"
	"github.com/fiorix/go-diameter/v4/diam/dict"
	"github.com/fiorix/go-diameter/v4/diam/sm"
	"verif/vnet"
	vs "verif/vsched"
)

// C14 — CloseNotify fires exactly once when, and only when, the connection is gone.

func init() {
	Registry["C14"] = &Check{
		Scenarios: c14Scenarios,
		Rule: "a handler that has requested CloseNotify answers and the transport refuses that write with a permanent non-timeout error (none, one or all octets accepted): the channel stays open, the next message is still handled, the channel closes when the peer ends the connection (EOF / reset / undecodable input); events: CloseNotify requested {inside the first handler, by a free application thread at every possible instant (in particular while the reader is parked in Read), twice (handler + thread), after termination}; two messages delivered in three fragments (one fragment boundary inside the first header); a Read after the local end was closed reports io.ErrClosedPipe / net.ErrClosed / the harness's own error depending on the request mode; termination by {peer EOF, transport read error, a read error that reports itself as temporary (once), EOF / read error returned by the same Read that delivers the last message (n > 0 with err != nil), undecodable header followed by trailing bytes, local Close from a free thread at every instant, a handler panic on the second message (recovered by the serve loop)}; an observer thread records the instant the channel closes. The requesting / closing / observing threads and the peer are environment threads, so every ordering of their steps against the library's steps is explored even at preemption bound 0; library preemption bound 2 (quick) / unbounded (thorough). The same request modes {handler, thread, after} x terminations {EOF, undecodable input, local Close, EOF inside a header, EOF / reset inside a body, a read that returns a whole message together with an error} on a multistream (in-memory SCTP) connection, where CloseNotify installs a read-error handler. Also a handler (of a message read through the switched reader) that waits on the channel while the peer ends the connection {EOF, reset}: the notifier is then the only goroutine able to observe the end. Also a local Close while the handler of a later message is busy and the notifier holds the bytes of a further message; the busy handler then panics or returns. Also CloseNotify active on two connections at once, one notifier holding a message while the other passes one on. Also a handler that ends its goroutine with runtime.Goexit (the reader unwinds without a read error and without a panic value), CloseNotify requested {in the first handler, by the application before anything arrives}. Also a local Close while an application goroutine's Write is stuck inside the transport (the peer has stopped reading). Also a Server with ReadTimeout 3 s whose second message arrives split (0, 1, 7, 20, 30 octets with the first message, the rest 2 s later): both are delivered and the connection ends after a real idle period. Also a connection accepted by a Server with ReadTimeout 2 s that idles into its read deadline (virtual clock), CloseNotify requested {in the handler, by a thread, not at all}. Also sm.Client with the watchdog enabled followed by a quiet peer close, preceded by 0, 1, 2 or 3 unsolicited success DWAs (in one segment or one segment each) (virtual time, horizon 12 s).",
		Assume: []string{"data-race freedom between visible operations (audited separately with -race)", "io.Pipe is modelled by vsched.Pipe (Write blocks until the data is consumed or either end is closed)"},
		QuickBudget: 100, ThoroughBudget: 1500,
	}
}

type c14State struct {
	conn       *vnet.Conn
	chs        []*vs.Chan[struct{}]
	handled    []uint32
	termIssued bool // a terminating event has been issued by the environment / application
	early      string
	seenClosed int
	reqAt      []string // when each request happened: messages handled so far / termination issued
}

var c14st *c14State

func c14msg(seq int) []byte {
	m := diam.NewMessage(280, 0x80, 0, uint32(seq), uint32(seq), dict.Default)
	m.NewAVP(avp.OriginHost, avp.Mbit, 0, datatype.DiameterIdentity("peer"))
	b, _ := m.Serialize()
	return b
}

func c14Scenarios(tier string) []*Scenario {
	bound := 2
	if tier == "thorough" {
		bound = vs.Unbounded
	}
	var out []*Scenario
	for _, req := range []string{"handler", "thread", "both", "after", "none"} {
		for _, term := range []string{"eof", "rerr", "garbage", "localclose", "panic", "eofdata", "rerrdata", "rerrtemp"} {
			if term == "rerrtemp" && (req == "both" || req == "none") {
				continue
			}
			if (term == "eofdata" || term == "rerrdata") && (req == "both" || req == "none" && term == "rerrdata") {
				continue
			}
			b := bound
			if tier != "thorough" && req == "both" && term == "localclose" {
				b = 1 // the largest product space: bound 1 in the quick tier, unbounded in the thorough tier
			}
			out = append(out, c14Scenario(req, term, b))
		}
	}
	for _, req := range []string{"handler", "thread", "after"} {
		for _, term := range []string{"eof", "garbage", "localclose", "cut-header", "cut-body", "rerr-body", "data-with-error"} {
			out = append(out, c14Multi(req, term, bound))
		}
	}
	for _, req := range []string{"handler", "thread", "none"} {
		out = append(out, c14ReadTimeout(req, bound))
		out = append(out, c14CloseWhileWriteBlocked(req, bound))
	}
	for _, term := range []string{"eof", "rerr"} {
		out = append(out, c14HandlerWaits(term, bound))
		out = append(out, c14WriteFault(term, bound))
	}
	for _, exit := range []string{"panic", "return"} {
		out = append(out, c14LocalCloseBusyHandler(exit, bound))
	}
	for _, req := range []string{"handler", "none"} {
		out = append(out, c14HandlerLeaves(req, bound))
	}
	out = append(out, c14TwoConnections(bound))
	for _, cut := range []int{0, 1, 7, 20, 30} {
		out = append(out, c14ReadTimeoutFragmented(cut, bound))
	}
	out = append(out, c14Watchdog(bound), c14WatchdogStray(1, false, bound), c14WatchdogStray(2, true, bound), c14WatchdogStray(2, false, bound), c14WatchdogStray(3, true, bound))
	// client handshakes that end exactly at the deadline: whatever the outcome, once the transport
	// is closed every goroutine the library started must have exited
	for _, kind := range []string{"fail", "success", "norc", "disconnect"} {
		for _, R := range []int{0, 1} {
			sc := c12Scenario(R, append(make([]c12Act, 0), c12Tie(R, kind)...), nil, bound)
			sc.Name = fmt.Sprintf("client-handshake-tie/R%d/%s", R, kind)
			sc.Check = func(s *vs.Sched) string {
				st := c12st
				if st.conn.Closed {
					if b := s.BlockedLib(); len(b) > 0 {
						return fmt.Sprintf("transport closed (dial returned conn=%v err=%v) but library goroutines are still blocked: %s", st.retConn, st.retErr, strings.Join(b, ", "))
					}
				}
				return ""
			}
			sc.Outcome = func(s *vs.Sched) string {
				return fmt.Sprintf("conn=%v closed=%v blocked=%d", c12st.retConn, c12st.conn.Closed, len(s.BlockedLib()))
			}
			out = append(out, sc)
		}
	}
	if tier == "thorough" {
		// soundness of the happens-before state cache: the same scenario with and without the cache
		// must reach the same set of terminal states (uncached exploration is only feasible bounded)
		for _, rt := range [][2]string{{"after", "eof"}, {"none", "localclose"}, {"after", "panic"}, {"none", "eof"}} {
			a := c14Scenario(rt[0], rt[1], c14ValBound)
			a.Name = fmt.Sprintf("validate-cached/%s/%s", rt[0], rt[1])
			a.Pair = fmt.Sprintf("validate-uncached/%s/%s", rt[0], rt[1])
			b := c14Scenario(rt[0], rt[1], c14ValBound)
			b.Name = a.Pair
			b.NoCache = true
			out = append(out, a, b)
		}
	}
	return out
}

func c14Scenario(req, term string, bound int) *Scenario {
	m1, m2 := c14msg(1), c14msg(2)
	body := func() {
		st := &c14State{}
		c14st = st
		conn := vnet.NewConn("A")
		conn.Pieces = 1
		st.conn = conn
		// what a Read reports once the local end has been closed differs between transports: the
		// harness's own error, net.ErrClosed (sockets), io.ErrClosedPipe (net.Pipe, io.Pipe-backed)
		conn.ClosedReadErr = map[string]error{"handler": io.ErrClosedPipe, "both": io.ErrClosedPipe, "thread": net.ErrClosed}[req]
		var dc diam.Conn
		request := func(c diam.Conn) {
			ch := c.(diam.CloseNotifier).CloseNotify()
			st.chs = append(st.chs, ch)
			st.reqAt = append(st.reqAt, fmt.Sprintf("%d/%v/%v", len(st.handled), st.termIssued, st.conn.Closed))
			vs.Event("CloseNotify requested by %s", vs.CurName())
			// observer: records whether the channel closes before any terminating event
			vs.GoNamed("observer", true, func() {
				ch.Recv2()
				st.seenClosed++
				if !st.termIssued && !st.conn.Closed {
					st.early = "a CloseNotify channel was closed before any terminating event (peer close, error, undecodable input, local Close) had occurred"
				}
				vs.Event("observer: channel closed")
			})
		}
		mux := diam.NewServeMux()
		mux.HandleFunc("ALL", func(c diam.Conn, m *diam.Message) {
			st.handled = append(st.handled, m.Header.HopByHopID)
			vs.Event("handler got message %d", m.Header.HopByHopID)
			if (req == "handler" || req == "both") && len(st.handled) == 1 {
				request(c)
			}
			if term == "panic" && len(st.handled) == 2 {
				st.termIssued = true
				vs.Event("handler panics on the second message")
				panic("handler panic (injected)")
			}
		})
		c, err := diam.NewConn(conn, "peer", mux, dict.Default)
		if err != nil {
			panic(err)
		}
		dc = c
		switch req {
		case "thread", "both":
			vs.GoNamed("app-request", true, func() { request(dc) })
		case "after":
			vs.GoNamed("app-request-after", true, func() {
				vs.BlockObj("wait-closed", conn, func() bool { return conn.Closed })
				request(dc)
			})
		}
		vs.GoNamed("peer", true, func() {
			conn.Deliver(m1[:10])
			vs.Yield("env")
			conn.Deliver(m1[10:])
			vs.Yield("env")
			if term == "eofdata" || term == "rerrdata" {
				// the last message and the end of the stream arrive together: one Read returns both
				conn.ErrWithData = true
				st.termIssued = true
				vs.Event("peer: last message and %s in one read", term)
				conn.Deliver(m2)
				if term == "eofdata" {
					conn.PeerEOF()
				} else {
					conn.PeerErr(errors.New("connection reset by peer"))
				}
				return
			}
			conn.Deliver(m2)
			vs.Yield("env")
			switch term {
			case "eof":
				st.termIssued = true
				vs.Event("peer: EOF")
				conn.PeerEOF()
			case "rerr":
				st.termIssued = true
				vs.Event("peer: connection reset")
				conn.PeerErr(errors.New("connection reset by peer"))
			case "rerrtemp":
				// a read error that calls itself temporary and is reported once (an expired read
				// deadline): for the connection it is a read error like any other
				st.termIssued = true
				vs.Event("transport: temporary read error")
				conn.RerrOnce = true
				conn.PeerErr(vnet.TempErr{})
			case "garbage":
				bad := make([]byte, 20)
				bad[0], bad[3] = 1, 60
				bad[5], bad[6], bad[7] = 0xff, 0xff, 0xfe
				st.termIssued = true
				vs.Event("peer: undecodable header + 40 trailing bytes")
				conn.Deliver(append(bad, ghost40(9)...))
			}
		})
		if term == "localclose" {
			vs.GoNamed("app-close", true, func() {
				st.termIssued = true
				vs.Event("application: local Close")
				dc.Close()
			})
		}
	}
	check := func(s *vs.Sched) string {
		st := c14st
		var v []string
		if p := s.Panics(); len(p) > 0 {
			v = append(v, "panic: "+strings.Join(p, "; "))
		}
		if st.early != "" {
			v = append(v, st.early)
		}
		terminated := st.conn.Closed
		if !terminated {
			v = append(v, "the connection was never terminated by the library although "+term+" occurred")
		}
		for i, ch := range st.chs {
			if terminated && !ch.IsClosed() {
				v = append(v, fmt.Sprintf("connection terminated (%s) but CloseNotify channel %d (requested: %s) was never closed", term, i, req))
			}
		}
		// messages: exactly the reference framing of what was delivered, in order
		want := []uint32{1, 2}
		if term == "localclose" {
			for i, h := range st.handled {
				if i >= 2 || h != want[i] {
					v = append(v, fmt.Sprintf("handled messages %v are not a prefix of the delivered %v", st.handled, want))
					break
				}
			}
		} else if fmt.Sprint(st.handled) != fmt.Sprint(want) {
			v = append(v, fmt.Sprintf("handlers saw messages %v, the peer delivered %v before terminating (lost / duplicated / reordered by the reader switch)", st.handled, want))
		}
		if b := s.BlockedLib(); len(b) > 0 && terminated {
			v = append(v, "library goroutines still alive after the connection terminated: "+strings.Join(b, ", "))
		}
		return strings.Join(v, " | ")
	}
	outcome := func(s *vs.Sched) string {
		st := c14st
		closed := 0
		for _, ch := range st.chs {
			if ch.IsClosed() {
				closed++
			}
		}
		return fmt.Sprintf("requested(handled/term-issued/closed)=%v closed=%d handled=%v blockedlib=%d", st.reqAt, closed, st.handled, len(s.BlockedLib()))
	}
	return &Scenario{Name: fmt.Sprintf("closenotify/%s/%s", req, term), Body: body, Check: check, Outcome: outcome, Bound: bound,
		Split: false, Weight: map[bool]int{true: 10, false: 0}[req == "both"] + map[bool]int{true: 5, false: 0}[term == "localclose"] + map[bool]int{true: 2, false: 0}[req == "thread"]}
}

// c14HandlerWaits: the first handler requests CloseNotify; the handler of the second message (read
// through the switched reader) does what the channel is for: it waits on it, to abandon its work
// when the peer goes away. The serve goroutine is therefore NOT in Read when the peer closes - the
// notifier is the only goroutine that can observe the termination. The channel must close, the
// handler must be released, the transport closed and every goroutine must exit.
func c14HandlerWaits(term string, bound int) *Scenario {
	m1, m2 := c14msg(1), c14msg(2)
	released := false
	body := func() {
		st := &c14State{}
		c14st = st
		released = false
		conn := vnet.NewConn("A")
		conn.Pieces = 1
		st.conn = conn
		mux := diam.NewServeMux()
		mux.HandleFunc("ALL", func(c diam.Conn, m *diam.Message) {
			st.handled = append(st.handled, m.Header.HopByHopID)
			vs.Event("handler got message %d", m.Header.HopByHopID)
			if len(st.handled) == 1 {
				st.chs = append(st.chs, c.(diam.CloseNotifier).CloseNotify())
				return
			}
			vs.Event("handler waits for the CloseNotify channel")
			st.chs[0].Recv2()
			released = true
			if !st.termIssued {
				st.early = "the CloseNotify channel was closed before any terminating event had occurred"
			}
			vs.Event("handler released")
		})
		if _, err := diam.NewConn(conn, "peer", mux, dict.Default); err != nil {
			panic(err)
		}
		vs.GoNamed("peer", true, func() {
			conn.Deliver(m1)
			vs.Yield("env")
			conn.Deliver(m2[:30])
			vs.Yield("env")
			conn.Deliver(m2[30:])
			vs.Yield("env")
			st.termIssued = true
			switch term {
			case "eof":
				vs.Event("peer: EOF")
				conn.PeerEOF()
			case "rerr":
				vs.Event("peer: connection reset")
				conn.PeerErr(errors.New("connection reset by peer"))
			case "garbage":
				bad := make([]byte, 20)
				bad[0], bad[3] = 1, 60
				bad[5], bad[6], bad[7] = 0xff, 0xff, 0xfe
				vs.Event("peer: undecodable header, then EOF")
				conn.Deliver(bad)
				vs.Yield("env")
				conn.PeerEOF()
			}
		})
	}
	check := func(s *vs.Sched) string {
		st := c14st
		var v []string
		if p := s.Panics(); len(p) > 0 {
			v = append(v, "panic: "+strings.Join(p, "; "))
		}
		if st.early != "" {
			v = append(v, st.early)
		}
		if fmt.Sprint(st.handled) != "[1 2]" {
			v = append(v, fmt.Sprintf("handlers saw messages %v, the peer delivered [1 2]", st.handled))
		}
		if len(st.chs) == 1 && !st.chs[0].IsClosed() {
			v = append(v, "the peer ended the connection ("+term+") while a handler was waiting on the CloseNotify channel, and the channel was never closed")
		} else if !released && len(st.handled) == 2 {
			v = append(v, "the handler waiting on the CloseNotify channel was never released")
		}
		if !st.conn.Closed {
			v = append(v, "the transport was never closed although the peer ended the connection ("+term+")")
		}
		if b := s.BlockedLib(); len(b) > 0 {
			v = append(v, "library goroutines still alive after the peer ended the connection: "+strings.Join(b, ", "))
		}
		return strings.Join(v, " | ")
	}
	outcome := func(s *vs.Sched) string {
		return fmt.Sprintf("handled=%v released=%v closed=%v blockedlib=%d", c14st.handled, released, c14st.conn.Closed, len(s.BlockedLib()))
	}
	return &Scenario{Name: "closenotify/handler-waits/" + term, Body: body, Check: check, Outcome: outcome, Bound: bound}
}

// c14LocalCloseBusyHandler: the first handler requests CloseNotify; while the handler of the second
// message (read through the switched reader) is busy, a third message arrives - the notifier holds
// its bytes, nobody drains the pipe - and the application closes the connection locally. The busy
// handler then panics (or returns). Channel closed, transport closed, every goroutine gone.
func c14LocalCloseBusyHandler(exit string, bound int) *Scenario {
	m1, m2, m3 := c14msg(1), c14msg(2), c14msg(3)
	busy := false
	body := func() {
		st := &c14State{}
		c14st = st
		busy = false
		conn := vnet.NewConn("A")
		conn.Pieces = 1
		st.conn = conn
		var dc diam.Conn
		mux := diam.NewServeMux()
		mux.HandleFunc("ALL", func(c diam.Conn, m *diam.Message) {
			st.handled = append(st.handled, m.Header.HopByHopID)
			switch len(st.handled) {
			case 1:
				st.chs = append(st.chs, c.(diam.CloseNotifier).CloseNotify())
			case 2:
				busy = true
				vs.Touch(conn, "handler-busy")
				vs.BlockObj("handler-busy-until-closed", conn, func() bool { return conn.Closed })
				if exit == "panic" {
					vs.Event("busy handler panics after the local Close")
					panic("handler panic (injected)")
				}
			}
		})
		c, err := diam.NewConn(conn, "peer", mux, dict.Default)
		if err != nil {
			panic(err)
		}
		dc = c
		vs.GoNamed("peer", true, func() {
			conn.Deliver(m1)
			vs.Yield("env")
			conn.Deliver(m2)
			vs.BlockObj("wait-handler-busy", conn, func() bool { return busy })
			conn.Deliver(m3)
		})
		vs.GoNamed("app-close", true, func() {
			vs.BlockObj("wait-handler-busy", conn, func() bool { return busy })
			st.termIssued = true
			vs.Event("application: local Close")
			dc.Close()
		})
	}
	check := func(s *vs.Sched) string {
		st := c14st
		var v []string
		if p := s.Panics(); len(p) > 0 {
			v = append(v, "panic escaped: "+strings.Join(p, "; "))
		}
		if !busy {
			v = append(v, "harness: the second handler never ran")
		}
		if !st.conn.Closed {
			v = append(v, "the transport was never closed")
		}
		if len(st.chs) == 1 && !st.chs[0].IsClosed() {
			v = append(v, "the connection was closed locally but the CloseNotify channel was never closed")
		}
		if b := s.BlockedLib(); len(b) > 0 {
			v = append(v, "library goroutines still alive after the connection terminated (local Close while a handler was busy and the notifier held unread bytes; the handler then "+exit+"s): "+strings.Join(b, ", "))
		}
		return strings.Join(v, " | ")
	}
	return &Scenario{Name: "closenotify/local-close-while-a-handler-is-busy/" + exit, Body: body, Check: check, Bound: bound,
		Outcome: func(s *vs.Sched) string { return fmt.Sprintf("handled=%v blockedlib=%d", c14st.handled, len(s.BlockedLib())) }}
}

// c14TwoConnections: CloseNotify is active on two connections at once. The notifier of A holds the
// bytes of A's third message (A's reader is busy in the handler of the second) while B's notifier
// passes B's second message on; then A's handler returns. Each connection's handlers see exactly
// the messages its own peer sent, in order.
var c14two struct {
	seen    map[string][]string
	release bool
}

func c14TwoConnections(bound int) *Scenario {
	mk := func(host string, seq int) []byte {
		m := diam.NewMessage(280, 0x80, 0, uint32(seq), uint32(seq), dict.Default)
		m.NewAVP(avp.OriginHost, avp.Mbit, 0, datatype.DiameterIdentity(host))
		b, _ := m.Serialize()
		return b
	}
	body := func() {
		st := &c14two
		st.seen, st.release = map[string][]string{}, false
		a, b := vnet.NewConn("A"), vnet.NewConn("B")
		a.Pieces, b.Pieces = 1, 1
		gate := vnet.NewConn("gate") // only an object to wait on
		handler := func(name string) diam.HandlerFunc {
			return func(c diam.Conn, m *diam.Message) {
				host := "?"
				if x, err := m.FindAVP(avp.OriginHost, 0); err == nil {
					host = fmt.Sprint(x.Data)
				}
				st.seen[name] = append(st.seen[name], fmt.Sprintf("%s#%d", host, m.Header.HopByHopID))
				switch {
				case len(st.seen[name]) == 1:
					c.(diam.CloseNotifier).CloseNotify()
				case name == "A" && len(st.seen[name]) == 2:
					vs.BlockObj("handler-busy", gate, func() bool { return st.release })
				}
			}
		}
		muxA, muxB := diam.NewServeMux(), diam.NewServeMux()
		muxA.HandleFunc("ALL", handler("A"))
		muxB.HandleFunc("ALL", handler("B"))
		if _, err := diam.NewConn(a, "peerA", muxA, dict.Default); err != nil {
			panic(err)
		}
		if _, err := diam.NewConn(b, "peerB", muxB, dict.Default); err != nil {
			panic(err)
		}
		vs.GoNamed("peers", true, func() {
			// a pause on the virtual clock ends when nothing else can move
			pause := func() { vs.TimeSleep(time.Millisecond) }
			a.Deliver(mk("a.example", 1))
			pause()
			a.Deliver(mk("a.example", 2))
			pause()
			a.Deliver(mk("a.example", 3)) // stays with A's notifier: A's reader is in the handler of #2
			pause()
			b.Deliver(mk("b.example", 1))
			pause()
			b.Deliver(mk("b.example", 2))
			pause()
			st.release = true
			vs.Touch(gate, "release")
			pause()
			a.PeerEOF()
			b.PeerEOF()
		})
	}
	check := func(s *vs.Sched) string {
		st := &c14two
		var v []string
		if got, want := fmt.Sprint(st.seen["A"]), "[DiameterIdentity{a.example},Padding:3#1 DiameterIdentity{a.example},Padding:3#2 DiameterIdentity{a.example},Padding:3#3]"; got != want {
			v = append(v, "connection A: handlers saw "+got+", its peer sent messages 1, 2, 3 of a.example")
		}
		if got, want := fmt.Sprint(st.seen["B"]), "[DiameterIdentity{b.example},Padding:3#1 DiameterIdentity{b.example},Padding:3#2]"; got != want {
			v = append(v, "connection B: handlers saw "+got+", its peer sent messages 1, 2 of b.example")
		}
		if p := s.Panics(); len(p) > 0 {
			v = append(v, "panic: "+strings.Join(p, "; "))
		}
		if b := s.BlockedLib(); len(b) > 0 {
			v = append(v, "library goroutines still alive after both peers hung up: "+strings.Join(b, ", "))
		}
		return strings.Join(v, " | ")
	}
	return &Scenario{Name: "closenotify/active-on-two-connections", Body: body, Check: check, Bound: bound, Horizon: 5 * time.Second,
		Outcome: func(s *vs.Sched) string { return fmt.Sprint(c14two.seen["A"], c14two.seen["B"]) }}
}

// c14HandlerLeaves: the handler of the second message ends its goroutine with runtime.Goexit (what
// t.Fatal does when an application's test calls it inside a handler): the reader goroutine unwinds
// without a read error and without a panic value. Whenever the CloseNotify channel closes, the
// transport is closed and nothing of the library is left behind.
func c14HandlerLeaves(req string, bound int) *Scenario {
	m1, m2, m3 := c14msg(1), c14msg(2), c14msg(3)
	body := func() {
		st := &c14State{}
		c14st = st
		conn := vnet.NewConn("A")
		conn.Pieces = 1
		st.conn = conn
		mux := diam.NewServeMux()
		mux.HandleFunc("ALL", func(c diam.Conn, m *diam.Message) {
			st.handled = append(st.handled, m.Header.HopByHopID)
			switch len(st.handled) {
			case 1:
				if req == "handler" {
					st.chs = append(st.chs, c.(diam.CloseNotifier).CloseNotify())
				}
			case 2:
				vs.Event("handler leaves with runtime.Goexit")
				runtime.Goexit()
			}
		})
		c, err := diam.NewConn(conn, "peer", mux, dict.Default)
		if err != nil {
			panic(err)
		}
		if req == "none" {
			// requested by the application right away, before anything arrives
			st.chs = append(st.chs, c.(diam.CloseNotifier).CloseNotify())
		}
		vs.GoNamed("observer", true, func() {
			vs.BlockObj("wait-request", conn, func() bool { return len(st.chs) > 0 || conn.Closed })
			if len(st.chs) == 0 {
				return
			}
			st.chs[0].Recv2()
			if !conn.Closed {
				st.early = "the CloseNotify channel closed while the transport was still open (no peer close, no local Close, no read error: the handler of the second message left with runtime.Goexit)"
			}
		})
		vs.GoNamed("peer", true, func() {
			conn.Deliver(m1)
			vs.Yield("env")
			conn.Deliver(m2)
			vs.Yield("env")
			conn.Deliver(m3)
		})
	}
	check := func(s *vs.Sched) string {
		st := c14st
		var v []string
		if p := s.Panics(); len(p) > 0 {
			v = append(v, "panic escaped: "+strings.Join(p, "; "))
		}
		if st.early != "" {
			v = append(v, st.early)
		}
		if len(st.handled) < 2 {
			v = append(v, "harness: the second handler never ran")
		}
		if len(st.chs) == 1 && st.chs[0].IsClosed() && !st.conn.Closed {
			v = append(v, "the CloseNotify channel is closed and the transport is still open")
		}
		if st.conn.Closed {
			if len(st.chs) == 1 && !st.chs[0].IsClosed() {
				v = append(v, "the transport was closed but the CloseNotify channel never closed")
			}
			if b := s.BlockedLib(); len(b) > 0 {
				v = append(v, "library goroutines still alive after the connection terminated: "+strings.Join(b, ", "))
			}
		}
		return strings.Join(v, " | ")
	}
	return &Scenario{Name: "closenotify/handler-leaves-with-goexit/" + req, Body: body, Check: check, Bound: bound,
		Outcome: func(s *vs.Sched) string {
			return fmt.Sprintf("handled=%v closed=%v blockedlib=%d", c14st.handled, c14st.conn.Closed, len(s.BlockedLib()))
		}}
}

// c14Multi: the same protocol on a multistream (SCTP) connection, where CloseNotify installs a
// read-error handler instead of the pipe copier.
func c14Multi(req, term string, bound int) *Scenario {
	m1, m2 := c14msg(1), c14msg(2)
	type mst struct {
		be      *vnet.SCTP
		chs     []*vs.Chan[struct{}]
		handled []uint32
		term    bool
		early   string
	}
	var st *mst
	body := func() {
		st = &mst{}
		be := vnet.NewSCTP("M")
		st.be = be
		request := func(c diam.Conn) {
			ch := c.(diam.CloseNotifier).CloseNotify()
			st.chs = append(st.chs, ch)
			vs.GoNamed("observer", true, func() {
				ch.Recv2()
				if !st.term && !be.Closed {
					st.early = "a CloseNotify channel of a multistream connection was closed before any terminating event"
				}
				if term == "data-with-error" && !be.Closed {
					st.early = "a CloseNotify channel of a multistream connection was closed while the association was still open (a read had returned a whole message together with an error; the library neither closed the association nor stopped serving it)"
				}
			})
		}
		mux := diam.NewServeMux()
		mux.HandleFunc("ALL", func(c diam.Conn, m *diam.Message) {
			st.handled = append(st.handled, m.Header.HopByHopID)
			if req == "handler" && len(st.handled) == 1 {
				request(c)
			}
		})
		c, err := diam.NewConn(diam.NewSCTPConnBackend(be), "peer", mux, dict.Default)
		if err != nil {
			panic(err)
		}
		switch req {
		case "thread":
			vs.GoNamed("app-request", true, func() { request(c) })
		case "after":
			vs.GoNamed("app-request-after", true, func() {
				vs.BlockObj("wait-closed", be, func() bool { return be.Closed })
				request(c)
			})
		}
		vs.GoNamed("peer", true, func() {
			be.Deliver(3, m1[:10])
			vs.Yield("env")
			be.Deliver(3, m1[10:])
			vs.Yield("env")
			if strings.HasPrefix(term, "cut") || term == "rerr-body" {
				// the association goes away in the middle of the second message: after 10 bytes of
				// its header, or after the header and 8 bytes of the body
				k := map[string]int{"cut-header": 10, "cut-body": 28, "rerr-body": 28}[term]
				be.Deliver(5, m2[:k])
				vs.Yield("env")
				st.term = true
				if term == "rerr-body" {
					be.PeerErr(errors.New("connection reset by peer"))
				} else {
					be.PeerEOF()
				}
				return
			}
			if term == "data-with-error" {
				// the read that delivers the second message also reports an error (and no stream
				// information); later the peer ends the association
				st.term = true
				be.DataErrOnce = errors.New("sctp: cannot parse ancillary data")
				be.Deliver(5, m2)
				vs.TimeSleep(time.Millisecond)
				be.PeerEOF()
				return
			}
			be.Deliver(5, m2)
			vs.Yield("env")
			switch term {
			case "eof":
				st.term = true
				be.PeerEOF()
			case "garbage":
				bad := make([]byte, 60)
				bad[0], bad[3] = 1, 60
				bad[5], bad[6], bad[7] = 0xff, 0xff, 0xfe
				st.term = true
				be.Deliver(3, bad)
			}
		})
		if term == "localclose" {
			vs.GoNamed("app-close", true, func() { st.term = true; c.Close() })
		}
	}
	check := func(s *vs.Sched) string {
		var v []string
		if p := s.Panics(); len(p) > 0 {
			v = append(v, "panic: "+strings.Join(p, "; "))
		}
		if st.early != "" {
			v = append(v, st.early)
		}
		if !st.be.Closed {
			v = append(v, "the association was never closed although "+term+" occurred")
		}
		for i, ch := range st.chs {
			if st.be.Closed && !ch.IsClosed() {
				v = append(v, fmt.Sprintf("multistream connection terminated (%s) but CloseNotify channel %d (requested: %s) was never closed", term, i, req))
			}
		}
		wantHandled := "[1 2]"
		if strings.HasPrefix(term, "cut") || term == "rerr-body" {
			wantHandled = "[1]" // the second message never arrived completely
		}
		if term == "data-with-error" {
			wantHandled = fmt.Sprint(st.handled) // whether the second message is still dispatched is not the point
		}
		if term != "localclose" && fmt.Sprint(st.handled) != wantHandled {
			v = append(v, fmt.Sprintf("handlers saw messages %v, the peer delivered %s completely", st.handled, wantHandled))
		}
		if st.be.DeadReads > 8 {
			v = append(v, fmt.Sprintf("the reader keeps polling the association after it ended (%d reads answered with the terminal condition)", st.be.DeadReads))
		}
		if b := s.BlockedLib(); len(b) > 0 && st.be.Closed {
			v = append(v, "library goroutines still alive after the association terminated: "+strings.Join(b, ", "))
		}
		return strings.Join(v, " | ")
	}
	return &Scenario{Name: fmt.Sprintf("closenotify-multistream/%s/%s", req, term), Body: body, Check: check, Bound: bound,
		Outcome: func(s *vs.Sched) string { return fmt.Sprintf("chs=%d handled=%v closed=%v", len(st.chs), st.handled, st.be.Closed) }}
}

// c14Watchdog: sm.Client with the watchdog on; the peer answers the CER and then closes
// quietly. Every goroutine the library started must exit.
func c14Watchdog(bound int) *Scenario { return c14WatchdogStray(0, false, bound) }

// stray: number of success DWAs the peer sends without having been asked (late answers to DWRs of
// an earlier life of the peer, duplicates) between the handshake and its disconnect.
func c14WatchdogStray(stray int, oneSegment bool, bound int) *Scenario {
	body := func() {
		st := &c14State{}
		c14st = st
		conn := vnet.NewConn("C")
		conn.Pieces = 1
		st.conn = conn
		settings := &sm.Settings{OriginHost: "cli", OriginRealm: "test", VendorID: 13, ProductName: "p",
			HostIPAddresses: []datatype.Address{datatype.Address(net.ParseIP("10.0.0.2"))}}
		mach := sm.New(settings)
		cli := &sm.Client{Handler: mach, Dict: dict.Default, MaxRetransmits: 0, RetransmitInterval: time.Second,
			EnableWatchdog: true, WatchdogInterval: 5 * time.Second,
			AuthApplicationID: []*diam.AVP{diam.NewAVP(avp.AuthApplicationID, avp.Mbit, 0, datatype.Unsigned32(4))}}
		vs.GoNamed("peer", true, func() {
			req := peerReadMsg(conn, 0)
			if req == nil {
				return
			}
			conn.Deliver(peerAnswer(req, 2001, true))
			vs.TimeSleep(2 * time.Second)
			var all []byte
			for i := 0; i < stray; i++ {
				vs.Event("peer: unsolicited DWA")
				b := refcodec.EncodeMessage(refcodec.Header{Version: 1, Code: 280, HbH: uint32(900 + i), E2E: 1},
					[]refcodec.Node{u32avp(268, 2001), ident(264, "srv"), ident(296, "test")})
				if oneSegment {
					all = append(all, b...)
					continue
				}
				conn.Deliver(b)
				vs.Yield("env")
			}
			conn.Deliver(all)
			st.termIssued = true
			vs.Event("peer: EOF")
			conn.PeerEOF()
		})
		c, err := cli.NewConn(conn, "peer")
		if err != nil || c == nil {
			st.early = fmt.Sprintf("dial failed: %v", err)
		}
	}
	check := func(s *vs.Sched) string {
		st := c14st
		var v []string
		if st.early != "" {
			v = append(v, st.early)
		}
		if p := s.Panics(); len(p) > 0 {
			v = append(v, "panic: "+strings.Join(p, "; "))
		}
		if !st.conn.Closed {
			v = append(v, "transport not closed after peer EOF")
		}
		if b := s.BlockedLib(); len(b) > 0 {
			v = append(v, "library goroutines still alive 10 s after the peer closed: "+strings.Join(b, ", "))
		}
		return strings.Join(v, " | ")
	}
	name := "client-watchdog/quiet-close"
	if stray > 0 {
		name = fmt.Sprintf("client-watchdog/%d-unsolicited-DWAs-then-close/one-segment=%v", stray, oneSegment)
	}
	return &Scenario{Name: name, Body: body, Check: check, Bound: bound, Horizon: 12 * time.Second,
		Outcome: func(s *vs.Sched) string { return fmt.Sprintf("blockedlib=%d end=%v", len(s.BlockedLib()), s.EndTime) }}
}

// c12Tie: the last CER is answered exactly one interval later, i.e. at the handshake deadline.
func c12Tie(R int, kind string) []c12Act {
	sc := make([]c12Act, R+1)
	for i := range sc {
		sc[i] = c12Act{Kind: "nothing"}
	}
	sc[R] = c12Act{Kind: kind, Delay: 2}
	return sc
}

// c14ValBound is the preemption bound of the cache-validation pair.
var c14ValBound = func() int {
	if v := os.Getenv("C14_VALBOUND"); v != "" {
		n, _ := strconv.Atoi(v)
		return n
	}
	return vs.Unbounded
}()

// c14ReadTimeout: a connection accepted by a Server with ReadTimeout set. The peer sends two
// messages and then stays idle: when the read deadline (on the virtual clock) expires the
// connection terminates - a read error like any other. CloseNotify (requested by the first
// handler, by a free application thread, or not at all) fires then and only then; both messages
// were handled; every goroutine of the connection exits.
// c14ReadTimeoutFragmented: a Server with ReadTimeout 3 s. The first message arrives at 2 s in one
// segment with the first 7 octets of the second; the rest of the second arrives at 4 s - two
// seconds after the previous message, inside the timeout. Both are delivered; the connection ends
// when it has really been idle for the timeout (7 s), not before.
func c14ReadTimeoutFragmented(cut int, bound int) *Scenario {
	m1, m2 := c14msg(1), c14msg(2)
	const rt = 3 * time.Second
	body := func() {
		st := &c14State{}
		c14st = st
		conn := vnet.NewConn("A")
		conn.Pieces = 1
		st.conn = conn
		lis := vnet.NewListener()
		mux := diam.NewServeMux()
		mux.HandleFunc("ALL", func(c diam.Conn, m *diam.Message) {
			st.handled = append(st.handled, m.Header.HopByHopID)
		})
		srv := &diam.Server{Handler: mux, Dict: dict.Default, ReadTimeout: rt}
		lis.Offer(vnet.AcceptItem{Conn: conn})
		vs.GoNamed("serve", false, func() { srv.Serve(lis) })
		vs.GoNamed("peer", true, func() {
			vs.TimeSleep(2 * time.Second)
			conn.Deliver(append(append([]byte{}, m1...), m2[:cut]...))
			vs.TimeSleep(2 * time.Second)
			conn.Deliver(m2[cut:])
			vs.BlockObj("wait-closed", conn, func() bool { return conn.Closed })
			lis.Close()
		})
	}
	check := func(s *vs.Sched) string {
		st := c14st
		var v []string
		if p := s.Panics(); len(p) > 0 {
			v = append(v, "panic: "+strings.Join(p, "; "))
		}
		if fmt.Sprint(st.handled) != "[1 2]" {
			v = append(v, fmt.Sprintf("handlers saw messages %v, the peer delivered [1 2] (the second one in two segments, 2 s apart, under a ReadTimeout of 3 s)", st.handled))
		}
		if !st.conn.Closed {
			v = append(v, "the idle connection was never closed")
		} else if st.conn.ClosedAt != 4*time.Second+rt {
			v = append(v, fmt.Sprintf("the connection was closed at %v; its last message was complete at 4s and ReadTimeout is %v", st.conn.ClosedAt, rt))
		}
		if b := s.BlockedLib(); len(b) > 0 {
			v = append(v, "library goroutines still alive after the connection ended: "+strings.Join(b, ", "))
		}
		return strings.Join(v, " | ")
	}
	return &Scenario{Name: fmt.Sprintf("read-timeout/second-message-split-%d-octets-in", cut), Body: body, Check: check, Bound: bound, Horizon: 12 * time.Second,
		Outcome: func(s *vs.Sched) string { return fmt.Sprint(c14st.handled, c14st.conn.ClosedAt) }}
}

func c14ReadTimeout(req string, bound int) *Scenario {
	m1, m2 := c14msg(1), c14msg(2)
	const rt = 2 * time.Second
	body := func() {
		st := &c14State{}
		c14st = st
		conn := vnet.NewConn("A")
		conn.Pieces = 1
		st.conn = conn
		lis := vnet.NewListener()
		request := func(c diam.Conn) {
			ch := c.(diam.CloseNotifier).CloseNotify()
			st.chs = append(st.chs, ch)
			vs.GoNamed("observer", true, func() {
				ch.Recv2()
				st.seenClosed++
				// the terminating event is the expiry of the read deadline armed before the last read
				if vs.Now() < rt/2+rt && !st.conn.Closed {
					st.early = fmt.Sprintf("a CloseNotify channel was closed at %v, before the read deadline (%v) had expired and while the connection was open", vs.Now(), rt/2+rt)
				}
			})
		}
		var dc diam.Conn
		mux := diam.NewServeMux()
		mux.HandleFunc("ALL", func(c diam.Conn, m *diam.Message) {
			st.handled = append(st.handled, m.Header.HopByHopID)
			dc = c
			if req == "handler" && len(st.handled) == 1 {
				request(c)
			}
		})
		srv := &diam.Server{Handler: mux, Dict: dict.Default, ReadTimeout: rt}
		lis.Offer(vnet.AcceptItem{Conn: conn})
		vs.GoNamed("serve", false, func() { srv.Serve(lis) })
		if req == "thread" {
			vs.GoNamed("app-request", true, func() {
				vs.BlockObj("wait-first-message", conn, func() bool { return dc != nil })
				request(dc)
			})
		}
		vs.GoNamed("peer", true, func() {
			conn.Deliver(m1[:10])
			vs.Yield("env")
			conn.Deliver(m1[10:])
			vs.TimeSleep(rt / 2)
			conn.Deliver(m2)
			// ... and nothing more: the connection idles into its read deadline
			vs.BlockObj("wait-closed", conn, func() bool { return conn.Closed })
			lis.Close()
		})
	}
	check := func(s *vs.Sched) string {
		st := c14st
		var v []string
		if p := s.Panics(); len(p) > 0 {
			v = append(v, "panic: "+strings.Join(p, "; "))
		}
		if st.early != "" {
			v = append(v, st.early)
		}
		if !st.conn.Closed {
			v = append(v, fmt.Sprintf("the idle connection was not terminated although Server.ReadTimeout is %v", rt))
		} else if want := rt/2 + rt; st.conn.ClosedAt != want {
			v = append(v, fmt.Sprintf("the connection was closed at %v, the read deadline set before the last read expires at %v", st.conn.ClosedAt, want))
		}
		for i, ch := range st.chs {
			if st.conn.Closed && !ch.IsClosed() {
				v = append(v, fmt.Sprintf("connection terminated (read timeout) but CloseNotify channel %d was never closed", i))
			}
		}
		if fmt.Sprint(st.handled) != "[1 2]" {
			v = append(v, fmt.Sprintf("handlers saw messages %v, the peer sent [1 2]", st.handled))
		}
		if b := s.BlockedLib(); len(b) > 0 && st.conn.Closed {
			v = append(v, "library goroutines still alive after the connection terminated: "+strings.Join(b, ", "))
		}
		return strings.Join(v, " | ")
	}
	return &Scenario{Name: "closenotify-read-timeout/" + req, Body: body, Check: check, Bound: bound, Horizon: 10 * time.Second,
		Outcome: func(s *vs.Sched) string { return fmt.Sprint(c14st.handled, c14st.conn.ClosedAt, len(c14st.chs)) }}
}

// c14CloseWhileWriteBlocked: the peer has stopped reading, so a Write of an application goroutine
// is stuck inside the transport; the application then closes the connection locally. The Close
// must go through: transport closed, CloseNotify fired, the stuck Write returns an error, every
// goroutine of the connection exits.
func c14CloseWhileWriteBlocked(req string, bound int) *Scenario {
	m1 := c14msg(1)
	var writeReturned bool
	var writeErr error
	body := func() {
		st := &c14State{}
		c14st = st
		writeReturned, writeErr = false, nil
		conn := vnet.NewConn("A")
		conn.Pieces = 1
		st.conn = conn
		var dc diam.Conn
		request := func(c diam.Conn) {
			ch := c.(diam.CloseNotifier).CloseNotify()
			st.chs = append(st.chs, ch)
		}
		mux := diam.NewServeMux()
		mux.HandleFunc("ALL", func(c diam.Conn, m *diam.Message) {
			st.handled = append(st.handled, m.Header.HopByHopID)
			if req == "handler" {
				request(c)
			}
		})
		c, err := diam.NewConn(conn, "peer", mux, dict.Default)
		if err != nil {
			panic(err)
		}
		dc = c
		conn.Deliver(m1)
		if req == "thread" {
			vs.GoNamed("app-request", true, func() { request(dc) })
		}
		conn.WriteBlocked = true
		vs.GoNamed("app-writer", false, func() {
			m := diam.NewMessage(280, 0x80, 0, 50, 50, dict.Default)
			m.NewAVP(avp.OriginHost, avp.Mbit, 0, datatype.DiameterIdentity("cli"))
			_, writeErr = m.WriteTo(dc)
			writeReturned = true
		})
		vs.GoNamed("app-close", false, func() {
			vs.BlockObj("wait-writer-stuck", conn, func() bool { return conn.InWrite > 0 })
			st.termIssued = true
			vs.Event("application: local Close while a Write is stuck in the transport")
			dc.Close()
		})
	}
	check := func(s *vs.Sched) string {
		st := c14st
		var v []string
		if p := s.Panics(); len(p) > 0 {
			v = append(v, "panic: "+strings.Join(p, "; "))
		}
		if !st.conn.Closed {
			v = append(v, "local Close while a Write is blocked in the transport: the transport was never closed")
		}
		for i, ch := range st.chs {
			if !ch.IsClosed() {
				v = append(v, fmt.Sprintf("CloseNotify channel %d was never closed after the local Close", i))
			}
		}
		if !writeReturned {
			v = append(v, "the blocked Write never returned")
		} else if writeErr == nil {
			v = append(v, "the blocked Write reported success although the connection was closed under it")
		}
		if b := s.BlockedLib(); len(b) > 0 {
			v = append(v, "goroutines still blocked at the end: "+strings.Join(b, ", "))
		}
		return strings.Join(v, " | ")
	}
	return &Scenario{Name: "closenotify-local-close-while-write-blocked/" + req, Body: body, Check: check, Bound: bound, Horizon: 10 * time.Second,
		Outcome: func(s *vs.Sched) string { return fmt.Sprint(c14st.conn.Closed, writeReturned, writeErr != nil) }}
}

// c14WriteFault: the first handler requests CloseNotify and answers; the transport refuses that
// write with a plain (permanent, non-timeout) error after accepting none, one or all of its octets.
// A failed write is not a termination: the read side is healthy, the second message is still
// delivered and handled, and the channel is still open then. It closes when the peer really ends
// the connection.
func c14WriteFault(term string, bound int) *Scenario {
	m1, m2 := c14msg(1), c14msg(2)
	var early string
	var werr error
	body := func() {
		st := &c14State{}
		c14st = st
		early, werr = "", nil
		conn := vnet.NewConn("A")
		conn.Pieces = 1
		k := map[string]int{"eof": 0, "rerr": 1, "garbage": 4}[term]
		conn.WScript = []vnet.WOutcome{{N: -(k + 1), Err: errors.New("write: broken pipe")}}
		st.conn = conn
		mux := diam.NewServeMux()
		mux.HandleFunc("ALL", func(c diam.Conn, m *diam.Message) {
			st.handled = append(st.handled, m.Header.HopByHopID)
			if len(st.handled) == 1 {
				st.chs = append(st.chs, c.(diam.CloseNotifier).CloseNotify())
				_, werr = m.Answer(2001).WriteTo(c)
				if st.chs[0].IsClosed() && !st.termIssued && !conn.Closed {
					early = "the CloseNotify channel was closed by a failed write (the connection is open, its read side healthy)"
				}
				return
			}
			if st.chs[0].IsClosed() && !st.termIssued && !conn.Closed {
				early = "the CloseNotify channel is closed while messages are still being delivered and handled (after a failed write; no terminating event has occurred)"
			}
		})
		if _, err := diam.NewConn(conn, "peer", mux, dict.Default); err != nil {
			panic(err)
		}
		vs.GoNamed("peer", true, func() {
			conn.Deliver(m1)
			vs.Yield("env")
			conn.Deliver(m2[:30])
			vs.Yield("env")
			conn.Deliver(m2[30:])
			vs.Yield("env")
			vs.BlockObj("peer-waits-for-handler-2", conn, func() bool { return len(st.handled) >= 2 || conn.Closed })
			st.termIssued = true
			switch term {
			case "eof":
				conn.PeerEOF()
			case "rerr":
				conn.PeerErr(errors.New("connection reset by peer"))
			case "garbage":
				bad := make([]byte, 20)
				bad[0], bad[3] = 1, 60
				bad[5], bad[6], bad[7] = 0xff, 0xff, 0xfe
				conn.Deliver(bad)
				vs.Yield("env")
				conn.PeerEOF()
			}
		})
	}
	check := func(s *vs.Sched) string {
		st := c14st
		var v []string
		if p := s.Panics(); len(p) > 0 {
			v = append(v, "panic: "+strings.Join(p, "; "))
		}
		if early != "" {
			v = append(v, early)
		}
		if fmt.Sprint(st.handled) != "[1 2]" {
			v = append(v, fmt.Sprintf("handlers saw messages %v, the peer delivered [1 2] (a failed write does not end the connection)", st.handled))
		}
		if len(st.chs) == 1 && !st.chs[0].IsClosed() {
			v = append(v, "the peer ended the connection ("+term+") and the CloseNotify channel was never closed")
		}
		if !st.conn.Closed {
			v = append(v, "the transport was never closed although the peer ended the connection ("+term+")")
		}
		if b := s.BlockedLib(); len(b) > 0 {
			v = append(v, "library goroutines still alive after the peer ended the connection: "+strings.Join(b, ", "))
		}
		return strings.Join(v, " | ")
	}
	outcome := func(s *vs.Sched) string {
		return fmt.Sprintf("handled=%v early=%v writeerr=%v closed=%v blockedlib=%d", c14st.handled, early != "", werr != nil, c14st.conn.Closed, len(s.BlockedLib()))
	}
	return &Scenario{Name: "closenotify/write-fault-is-not-a-termination/" + term, Body: body, Check: check, Outcome: outcome, Bound: bound, Horizon: 10 * time.Second}
}
