package bcheck

import (
	"errors"
	"strings"
	"regexp"
	"bytes"
	"fmt"
	"net"
	"time"

	"github.com/fiorix/go-diameter/v4/diam"
	"github.com/fiorix/go-diameter/v4/diam/avp"
	"github.com/fiorix/go-diameter/v4/diam/datatype"
	"github.com/fiorix/go-diameter/v4/diam/dict"
	"github.com/fiorix/go-diameter/v4/diam/sm"
	"verif/internal/refcodec"
	"verif/internal/refdict"
	"verif/vnet"
	vs "verif/vsched"
)

// C16 — answers mirror the request they answer.

func init() {
	Registry["C16"] = &Check{
		Scenarios: c16Scenarios,
		Rule: "a state machine shared by an accepted connection and a client dial still waiting for its CEA: CER / refused CER / DWR arriving on the accepted connection are answered there or not at all (nothing but the client's CER reaches the dialled connection); unhandled and undefined commands on streams {0,1,5,65535} of a multistream association; every answer of the grid is edited in place by its owner after it was checked (Result-Code AVP overwritten, AVP list extended): later answers are unaffected; the client side of a multistream association dialled with sm.Client (watchdog on / off, WatchdogStream 0 / 5) answers the peer's DWR on the stream it arrived on; the version octet of the request rotates over {1, 0, 2, 255}: the answer is built as a version-1 message; requests no handler is registered for (STR, CCR, RAR, an undefined command; P bit set / clear; T bit) on a bare ServeMux and on a state machine after the handshake: whatever the library sends back must mirror the request; complete grid: hop-by-hop and end-to-end ids from {0,1,2^31,2^32-1}^2 x all 256 command flag bytes x every (application, command) of the embedded dictionaries x result code {0 (none asked), 2001, 5012, 2^32-1} through Message.Answer; a second CER on a connection whose handshake has completed (if it is answered, the answer must mirror it); the state machine's success CEA, each failure CEA (5010, 5017, 5012, and 5012 for a CER that cannot be unmarshalled because the connection's dictionary lacks an AVP the CER struct names) and DWA for the same id grid over an in-memory transport; watchdog requests lacking Origin-Host, Origin-Realm or both over the same grid (whether they are answered is left open: an answer that is written mirrors identifiers, command, flags and stream); the same requests arriving on SCTP streams {0,1,5,15} of the in-memory multistream backend (and on a stream-less transport), answered by a handler through Answer().WriteTo (answers of ordinary size and of 65400..200000 octets, around and beyond 64 KiB; requests with one AVP and requests that consist of their header only; requests that are first relayed - the received message written with explicit other streams to an upstream multistream writer that accepts or refuses - and then answered; replies on a connection whose writer stream the application has pinned with SetWriterStream) and by the state machine: the backend must record the answer on the request's stream, also when the answer to a request is written later, while a request from another stream is being handled (all 16 stream pairs), also when the first 1 or 2 write attempts of that answer fail with a temporary error and are retried (WriteToWithRetry); and two application goroutines answering requests of different streams concurrently (every schedule up to preemption bound 2, thorough 3), on an association attached with NewConn and on one accepted by a Server with ReadTimeout and WriteTimeout set.",
		Assume: []string{"single default schedule per exchange", "in-memory SCTP backend (hook diam/sctp_verif.go)"},
		QuickBudget: 120, ThoroughBudget: 900,
	}
}

var c16IDs = []uint32{0, 1, 0x80000000, 0xffffffff}

func c16Scenarios(tier string) []*Scenario {
	var out []*Scenario
	for i := range c16IDs {
		i := i
		out = append(out, &Scenario{Name: fmt.Sprintf("answer-grid/hbh=%#x", c16IDs[i]), Seq: func(r *SeqResult) { c16Grid(r, c16IDs[i]) }})
	}
	for _, kind := range []string{"cer-ok", "cer-noapp", "cer-inband", "cer-nohost", "dwr", "cer-privdict", "dwr-nohost", "dwr-norealm", "dwr-bare"} {
		kind := kind
		out = append(out, &Scenario{Name: "state-machine/" + kind, Seq: func(r *SeqResult) { c16SM(r, kind) }})
	}
	out = append(out, &Scenario{Name: "state-machine/second-cer", Seq: c16SecondCER})
	out = append(out, &Scenario{Name: "unhandled-requests", Seq: c16Unhandled})
	out = append(out, &Scenario{Name: "unhandled-requests/multistream", Seq: c16UnhandledStream})
	out = append(out, &Scenario{Name: "state-machine/shared-with-a-dial-in-progress", Seq: c16SharedDuringDial})
	out = append(out, &Scenario{Name: "state-machine/client-side-dwa", Seq: c16ClientDWA})
	out = append(out, &Scenario{Name: "streams/handler-answer", Seq: c16Streams})
	out = append(out, &Scenario{Name: "streams/deferred-answer", Seq: c16Deferred})
	cb := 2
	if tier == "thorough" {
		cb = 3
	}
	for _, p := range [][2]uint16{{3, 5}, {0, 7}, {5, 0}} {
		out = append(out, c16Concurrent(p[0], p[1], false, cb), c16Concurrent(p[0], p[1], true, cb))
		out = append(out, c16ConcurrentOpt(p[0], p[1], false, true, cb))
	}
	return out
}

func c16Commands() [][2]uint32 {
	emb, err := refdict.LoadEmbedded(repoRoot())
	if err != nil {
		panic(err)
	}
	var out [][2]uint32
	seen := map[[2]uint32]bool{}
	for _, e := range emb {
		f, _ := refdict.Parse(e.XML)
		for _, a := range f.Apps {
			for _, c := range a.Cmds {
				k := [2]uint32{a.ID, c.Code}
				if !seen[k] {
					seen[k] = true
					out = append(out, k)
				}
			}
		}
	}
	return out
}

func c16Grid(r *SeqResult, hbh uint32) {
	cmds := c16Commands()
	for _, ee := range c16IDs {
		for fl := 0; fl < 256; fl++ {
			for _, cmd := range cmds {
				for _, rc := range []uint32{0, 2001, 5012, 0xffffffff} {
					r.Cases++
					r.Distinct++
					if r.Violation != "" {
						continue
					}
					req := diam.NewMessage(cmd[1], uint8(fl), cmd[0], hbh, ee, dict.Default)
					// NewMessage replaces zero by a random id; the fields are public
					req.Header.HopByHopID, req.Header.EndToEndID = hbh, ee
					// the version octet of the request rotates (a header decoded from the wire keeps
					// whatever the peer sent; a Header literal may leave it zero): the answer is a message
					// the library builds, and those are Diameter version 1
					req.Header.Version = []uint8{1, 0, 2, 255}[(fl+int(rc))%4]
					a := req.Answer(rc)
					v := ""
					switch {
					case a.Header.Version != 1:
						v = fmt.Sprintf("the answer has version octet %d (the request carried %d): a message the library builds is a version-1 message", a.Header.Version, req.Header.Version)
					case a.Header.CommandCode != cmd[1]:
						v = fmt.Sprintf("command code %d", a.Header.CommandCode)
					case a.Header.ApplicationID != cmd[0]:
						v = fmt.Sprintf("application id %d", a.Header.ApplicationID)
					case a.Header.HopByHopID != hbh:
						v = fmt.Sprintf("hop-by-hop id %#x, request has %#x", a.Header.HopByHopID, hbh)
					case a.Header.EndToEndID != ee:
						v = fmt.Sprintf("end-to-end id %#x, request has %#x", a.Header.EndToEndID, ee)
					case a.Header.CommandFlags != uint8(fl)&^0x80:
						v = fmt.Sprintf("flags %#x, expected %#x (request bit cleared, all other bits unchanged)", a.Header.CommandFlags, uint8(fl)&^0x80)
					case rc != 0 && (len(a.AVP) == 0 || a.AVP[0].Code != 268 || a.AVP[0].Data != datatype.Unsigned32(rc)):
						v = fmt.Sprintf("Result-Code %d asked for but the first AVP is not Result-Code %d", rc, rc)
					case rc == 0 && len(a.AVP) != 0:
						v = "no result code asked for but the answer carries AVPs"
					case int(a.Header.MessageLength) != a.Len():
						v = "MessageLength inconsistent"
					}
					// the application then edits the answer it was given (downgrades it, adds to it): an
					// answer is the caller's own object and shares nothing with answers built later
					if v == "" && len(a.AVP) > 0 {
						a.AVP[0].Data = datatype.Unsigned32(5012)
						a.AVP[0].Flags = 0
						a.AVP = append(a.AVP, a.AVP[0])
					}
					if r.Sample == "" && fl == 0xC0 && rc == 2001 {
						r.Sample = fmt.Sprintf("request app=%d cmd=%d flags=%#x hbh=%#x e2e=%#x -> Answer(%d) header %s", cmd[0], cmd[1], fl, hbh, ee, rc, a.Header)
					}
					if v != "" {
						r.Violation = fmt.Sprintf("Message.Answer(%d) of a request with application %d, command %d, flags %#x, hop-by-hop %#x, end-to-end %#x: %s", rc, cmd[0], cmd[1], fl, hbh, ee, v)
						r.Case = map[string]interface{}{"app": cmd[0], "cmd": cmd[1], "flags": fl, "hbh": hbh, "e2e": ee, "rc": rc}
					}
				}
			}
		}
	}
}

func c16Settings() *sm.Settings {
	return &sm.Settings{OriginHost: "srv", OriginRealm: "realm", VendorID: 13, ProductName: "prod",
		HostIPAddresses: []datatype.Address{datatype.Address(net.ParseIP("10.0.0.1"))}}
}

func c16Request(kind string, hbh, ee uint32, flags uint8) []byte {
	base := []refcodec.Node{ident(264, "cli"), ident(296, "test")}
	cer := func(app uint32, extra ...refcodec.Node) []byte {
		avps := append([]refcodec.Node{}, base...)
		if kind == "cer-nohost" {
			avps = avps[1:]
		}
		avps = append(avps, refcodec.Node{Code: 257, Flags: 0x40, Payload: refcodec.Address(1, []byte{10, 0, 0, 9})}, u32avp(266, 13),
			refcodec.Node{Code: 269, Payload: []byte("x")}, u32avp(258, app))
		avps = append(avps, extra...)
		return refcodec.EncodeMessage(refcodec.Header{Version: 1, Flags: flags, Code: 257, HbH: hbh, E2E: ee}, avps)
	}
	switch kind {
	case "cer-ok", "cer-nohost", "cer-privdict":
		return cer(4)
	case "cer-noapp":
		return cer(999)
	case "cer-inband":
		return cer(4, u32avp(299, 1))
	case "dwr":
		return refcodec.EncodeMessage(refcodec.Header{Version: 1, Flags: flags, Code: 280, HbH: hbh, E2E: ee}, base)
	case "dwr-nohost", "dwr-norealm", "dwr-bare":
		// watchdog requests that lack Origin-Host, Origin-Realm or both: whether they are answered is
		// not the point here - an answer, if one is written, mirrors the request like any other
		avps := map[string][]refcodec.Node{"dwr-nohost": base[1:], "dwr-norealm": base[:1], "dwr-bare": nil}[kind]
		return refcodec.EncodeMessage(refcodec.Header{Version: 1, Flags: flags, Code: 280, HbH: hbh, E2E: ee}, avps)
	}
	panic(kind)
}

var c16WantRC = map[string]uint32{"cer-ok": 2001, "cer-noapp": 5010, "cer-inband": 5017, "cer-nohost": 5012, "dwr": 2001, "cer-privdict": 5012}

// c16PrivDict is the base dictionary without the (optional) Inband-Security-Id AVP: a CER read
// with it cannot be unmarshalled into the state machine's CER struct, which names that AVP - a
// failure that is none of the parser's own sentinel errors.
var c16priv *dict.Parser

func c16PrivDict() *dict.Parser {
	if c16priv == nil {
		emb, err := refdict.LoadEmbedded(repoRoot())
		if err != nil {
			panic(err)
		}
		x := emb[0].XML
		x = regexp.MustCompile(`(?s)<avp name="Inband-Security-Id".*?</avp>`).ReplaceAllString(x, "")
		x = regexp.MustCompile(`<rule avp="Inband-Security-Id"[^>]*/>`).ReplaceAllString(x, "")
		p, err := dict.NewParser()
		if err == nil {
			err = p.Load(strings.NewReader(x))
		}
		if err != nil {
			panic(err)
		}
		c16priv = p
	}
	return c16priv
}

// c16SM: CEA / DWA produced by the state machine mirror the request, on stream-less and
// multistream transports.
func c16SM(r *SeqResult, kind string) {
	for _, hbh := range c16IDs {
		for _, ee := range c16IDs {
			for _, flags := range []uint8{0x80, 0xC0, 0x90} {
				for _, stream := range []int{-1, 0, 1, 5, 15} {
					hbh, ee, flags, stream := hbh, ee, flags, stream
					var ans []byte
					ansStream := -2
					s := vs.Run(nil, false, 5*time.Second, false, func() {
						mach := sm.New(c16Settings())
						req := c16Request(kind, hbh, ee, flags)
						dp := dict.Default
						if kind == "cer-privdict" {
							dp = c16PrivDict()
						}
						if stream < 0 {
							conn := vnet.NewConn("S")
							conn.Pieces = 1
							if _, err := diam.NewConn(conn, "peer", mach, dp); err != nil {
								return
							}
							p := &Peer{C: conn}
							if strings.HasPrefix(kind, "dwr") {
								conn.Deliver(c16Request("cer-ok", 7, 8, 0x80))
								if p.Next() == nil {
									return
								}
							}
							conn.Deliver(req)
							if m := p.Next(); m != nil {
								ans = m.Raw
								ansStream = -1
							}
							return
						}
						be := vnet.NewSCTP("S")
						msc := diam.NewSCTPConnBackend(be)
						if _, err := diam.NewConn(msc, "peer", mach, dp); err != nil {
							return
						}
						want := 1
						if strings.HasPrefix(kind, "dwr") {
							be.Deliver(uint16(stream), c16Request("cer-ok", 7, 8, 0x80))
							want = 2
						}
						be.Deliver(uint16(stream), req)
						vs.BlockObj("wait-answers", be, func() bool { return len(be.Writes) >= want || be.Closed })
						if len(be.Writes) >= want {
							ans = be.Writes[want-1].Data
							ansStream = int(be.Writes[want-1].Stream)
						}
					})
					s.Teardown()
					r.Cases++
					r.Distinct++
					if r.Violation != "" {
						continue
					}
					v := ""
					optional := strings.HasPrefix(kind, "dwr-")
					if ans == nil && optional {
						// not answered: nothing to mirror
					} else if ans == nil {
						v = "no answer was written"
					} else {
						h, _ := refcodec.DecodeHeader(ans)
						recs, _, _ := refcodec.Frame(ans[20:], nil)
						var rc []byte
						for _, x := range recs {
							if x.Code == 268 {
								rc = x.Payload
							}
						}
						wantFlags := flags &^ 0x80
						if kind != "cer-ok" && kind != "dwr" {
							wantFlags |= 0x20 // error answers carry the E bit
						}
						if optional {
							wantFlags = h.Flags&0x20 | flags&^0x80 // with or without the E bit
						}
						wantCode := uint32(257)
						if strings.HasPrefix(kind, "dwr") {
							wantCode = 280
						}
						switch {
						case h.Code != wantCode || h.App != 0:
							v = fmt.Sprintf("answer has command %d application %d", h.Code, h.App)
						case h.HbH != hbh || h.E2E != ee:
							v = fmt.Sprintf("answer ids %#x/%#x, request ids %#x/%#x", h.HbH, h.E2E, hbh, ee)
						case h.Flags != wantFlags:
							v = fmt.Sprintf("answer flags %#x, expected %#x", h.Flags, wantFlags)
						case !optional && !bytes.Equal(rc, refcodec.U32(c16WantRC[kind])):
							v = fmt.Sprintf("Result-Code %x, expected %d", rc, c16WantRC[kind])
						case !optional && (len(recs) == 0 || recs[0].Code != 268):
							v = "Result-Code is not the first AVP"
						case stream >= 0 && ansStream != stream:
							v = fmt.Sprintf("request arrived on stream %d, the answer was written to stream %d", stream, ansStream)
						}
					}
					if r.Sample == "" {
						r.Sample = fmt.Sprintf("%s hbh=%#x e2e=%#x flags=%#x stream=%d -> answer %d bytes on stream %d", kind, hbh, ee, flags, stream, len(ans), ansStream)
					}
					if v != "" {
						r.Violation = fmt.Sprintf("state machine answer to %s (hop-by-hop %#x, end-to-end %#x, flags %#x, inbound stream %d): %s", kind, hbh, ee, flags, stream, v)
						r.Case = map[string]interface{}{"kind": kind, "hbh": hbh, "e2e": ee, "flags": flags, "stream": stream}
					}
				}
			}
		}
	}
}

// c16Deferred: the answer to the first request is written while the connection is handling a
// later request that arrived on another stream; each answer must still go to its own
// request's stream.
func c16Deferred(r *SeqResult) {
	streams := []uint16{0, 1, 5, 15}
	// fails: how many attempts of the FIRST answer's write fail with a temporary error (the answer
	// is then written with WriteToWithRetry(c, 3)); every attempt must go to the request's stream
	for _, fails := range []int{0, 1, 2} {
	for _, s1 := range streams {
		for _, s2 := range streams {
			s1, s2, fails := s1, s2, fails
			var be *vnet.SCTP
			s := vs.Run(nil, false, 5*time.Second, false, func() {
				be = vnet.NewSCTP("S")
				mux := diam.NewServeMux()
				var first *diam.Message
				mux.HandleFunc("ALL", func(c diam.Conn, m *diam.Message) {
					if first == nil {
						first = m
						return
					}
					if fails > 0 {
						be.WFail = make([]bool, fails)
						for i := range be.WFail {
							be.WFail[i] = true
						}
						first.Answer(2001).WriteToWithRetry(c, 3)
					} else {
						first.Answer(2001).WriteTo(c)
					}
					m.Answer(2001).WriteTo(c)
				})
				msc := diam.NewSCTPConnBackend(be)
				if _, err := diam.NewConn(msc, "peer", mux, dict.Default); err != nil {
					return
				}
				be.Deliver(s1, refcodec.EncodeMessage(refcodec.Header{Version: 1, Flags: 0x80, Code: 258, HbH: 1, E2E: 1}, []refcodec.Node{ident(264, "c")}))
				be.Deliver(s2, refcodec.EncodeMessage(refcodec.Header{Version: 1, Flags: 0x80, Code: 258, HbH: 2, E2E: 2}, []refcodec.Node{ident(264, "c")}))
				be.PeerEOF()
			})
			s.Teardown()
			r.Cases++
			r.Distinct++
			if r.Sample == "" {
				r.Sample = fmt.Sprintf("requests on streams %d then %d, both answered inside the second handler -> %d writes", s1, s2, len(be.Writes))
			}
			if r.Violation != "" {
				continue
			}
			v := ""
			if len(be.Writes) != 2 {
				v = fmt.Sprintf("%d answers recorded, expected 2", len(be.Writes))
			} else {
				for i, want := range []uint16{s1, s2} {
					h, _ := refcodec.DecodeHeader(be.Writes[i].Data)
					if int(h.HbH) != i+1 {
						v = fmt.Sprintf("write %d is not the answer to request %d", i, i+1)
					} else if be.Writes[i].Stream != want {
						v = fmt.Sprintf("the answer to request %d (arrived on stream %d) was written to stream %d", i+1, want, be.Writes[i].Stream)
					}
				}
			}
			if v == "" && len(be.Attempts) != 2+fails {
				v = fmt.Sprintf("%d write attempts, expected %d (%d temporary failures retried)", len(be.Attempts), 2+fails, fails)
			}
			if v == "" {
				for i, a := range be.Attempts[:fails+1] {
					if a.Stream != s1 {
						v = fmt.Sprintf("attempt %d of the answer to request 1 (arrived on stream %d) went to stream %d", i+1, s1, a.Stream)
						break
					}
				}
			}
			if v != "" {
				r.Violation = fmt.Sprintf("deferred answer: request 1 on stream %d is answered while request 2 (stream %d) is being handled, first %d write attempts fail temporarily: %s", s1, s2, fails, v)
				r.Case = map[string]interface{}{"s1": s1, "s2": s2, "fails": fails}
			}
		}
	}
	}
}

// c16Streams: a handler answering through the message API on every inbound stream.
func c16Streams(r *SeqResult) {
	for _, stream := range []uint16{0, 1, 5, 15} {
		for hi, hbh := range c16IDs {
			for _, rc := range []uint32{0, 2001} {
				// extra: octets of an additional AVP in the answer; the long answers (around and beyond
				// 64 KiB, the largest user message many SCTP stacks take in one send) with the first two
				// id pairs only
				for _, extra := range []int{0, 65400, 65536 - 20 - 8 - 12, 65536, 70000, 200000} {
					if extra > 0 && (hi > 1 || rc == 0) {
						continue
					}
					c16StreamCase(r, stream, hbh, rc, extra, false)
				}
				// a request that consists of its header only (no AVP at all)
				c16StreamCase(r, stream, hbh, rc, 0, true)
				// a request that is first FORWARDED (the received message itself written, with an explicit
				// stream, to an upstream multistream connection - reachable or failing) and then answered
				c16ForwardUp, c16ForwardFail = true, hi%2 == 1
				c16StreamCase(r, stream, hbh, rc, 0, false)
				c16ForwardUp = false
				// the application has pinned a writer stream for what it sends itself through the Write
				// adaptor (SetWriterStream, left set): replies still go to the stream of their request
				c16PinWriter = true
				c16StreamCase(r, stream, hbh, rc, 0, false)
				c16PinWriter = false
			}
		}
	}
}

// c16ForwardUp: the handler of c16StreamCase relays the request upstream before it answers it.
var c16ForwardUp, c16ForwardFail, c16PinWriter bool

// c16Upstream is the upstream connection of a relay: a MultistreamWriter that accepts or refuses.
type c16Upstream struct {
	fail   bool
	writes int
}

func (u *c16Upstream) Write(b []byte) (int, error) { return u.WriteStream(b, 0) }
func (u *c16Upstream) WriteStream(b []byte, stream uint) (int, error) {
	u.writes++
	if u.fail {
		return 0, errors.New("upstream unreachable")
	}
	return len(b), nil
}
func (u *c16Upstream) CurrentWriterStream() uint { return 0 }
func (u *c16Upstream) ResetWriterStream()        {}
func (u *c16Upstream) SetWriterStream(uint) uint { return 0 }

func c16StreamCase(r *SeqResult, stream uint16, hbh, rc uint32, extra int, bare bool) {
	forward, forwardFail, pin := c16ForwardUp, c16ForwardFail, c16PinWriter
	var be *vnet.SCTP
	s := vs.Run(nil, false, 5*time.Second, false, func() {
		be = vnet.NewSCTP("S")
		mux := diam.NewServeMux()
		mux.HandleFunc("ALL", func(c diam.Conn, m *diam.Message) {
			if forward {
				// relay: the request goes upstream on the stream after the one it came in on
				up := &c16Upstream{fail: forwardFail}
				m.WriteToStream(up, uint(stream)+2)
				m.WriteToStreamWithRetry(up, uint(stream)+4, 1)
			}
			a := m.Answer(rc)
			if extra > 0 {
				a.NewAVP(avp.ProxyState, avp.Mbit, 0, datatype.OctetString(make([]byte, extra)))
			}
			a.WriteTo(c)
			// a second answer written with the explicit-retry entry point
			a = m.Answer(rc)
			if extra > 0 {
				a.NewAVP(avp.ProxyState, avp.Mbit, 0, datatype.OctetString(make([]byte, extra)))
			}
			a.WriteToWithRetry(c, 1)
		})
		msc := diam.NewSCTPConnBackend(be)
		dc, err := diam.NewConn(msc, "peer", mux, dict.Default)
		if err != nil {
			return
		}
		if pin {
			if mw, ok := dc.(diam.MultistreamWriter); ok {
				mw.SetWriterStream(uint(stream) + 3)
			}
		}
		nodes := []refcodec.Node{ident(264, "c")}
		if bare {
			nodes = nil
		}
		be.Deliver(stream, refcodec.EncodeMessage(refcodec.Header{Version: 1, Flags: 0x80, Code: 258, HbH: hbh, E2E: 9}, nodes))
		be.PeerEOF()
	})
	s.Teardown()
	r.Cases++
	r.Distinct++
	if r.Sample == "" {
		r.Sample = fmt.Sprintf("RAR on stream %d hbh=%#x -> %d answers recorded by the backend", stream, hbh, len(be.Writes))
	}
	if r.Violation != "" {
		return
	}
	v := ""
	// the answers may reach the association in one write each or in pieces: every write must go to
	// the request's stream, and the bytes written, in order, must be exactly two answers
	var all []byte
	for i, w := range be.Writes {
		if w.Stream != stream {
			v = fmt.Sprintf("request arrived on stream %d, write %d of the answers (%d bytes) went to stream %d", stream, i, len(w.Data), w.Stream)
			break
		}
		all = append(all, w.Data...)
	}
	n := 0
	for v == "" && len(all) > 0 {
		h, err := refcodec.DecodeHeader(all)
		if err != nil || int(h.Length) > len(all) || h.Length < 20 {
			v = fmt.Sprintf("the bytes written to stream %d are not a sequence of messages (after %d answers, %d bytes left)", stream, n, len(all))
			break
		}
		if h.HbH != hbh || h.E2E != 9 {
			v = fmt.Sprintf("answer ids %#x/%#x, request ids %#x/0x9", h.HbH, h.E2E, hbh)
		}
		if extra > 0 && int(h.Length) < extra {
			v = fmt.Sprintf("answer of %d bytes, it was built with an AVP of %d octets", h.Length, extra)
		}
		all = all[h.Length:]
		n++
	}
	if v == "" && n != 2 {
		v = fmt.Sprintf("%d answers recorded, expected 2", n)
	}
	if v != "" {
		r.Violation = fmt.Sprintf("handler answer (Answer(%d).WriteTo, %d extra octets) to a request (header only: %v; forwarded upstream on other streams before it was answered: %v, upstream failing: %v; writer stream pinned by the application: "+fmt.Sprint(pin)+") on SCTP stream %d with hop-by-hop %#x: %s", rc, extra, bare, forward, forwardFail, stream, hbh, v)
		r.Case = map[string]interface{}{"stream": stream, "hbh": hbh, "rc": rc, "extra": extra, "bare": bare}
	}
}

// c16Concurrent: two requests arrive on different streams; each handler hands its request to an
// application goroutine that writes the answer, so two replies are written concurrently on one
// association. Every schedule of the two writers (and the reader) up to the preemption bound.
var c16conc *vnet.SCTP

func c16Concurrent(s1, s2 uint16, retry bool, bound int) *Scenario {
	return c16ConcurrentOpt(s1, s2, retry, false, bound)
}

// withTimeouts: the association is accepted by a diam.Server with ReadTimeout and WriteTimeout set
// (the deadline-arming write path) instead of being attached with diam.NewConn.
func c16ConcurrentOpt(s1, s2 uint16, retry, withTimeouts bool, bound int) *Scenario {
	body := func() {
		be := vnet.NewSCTP("S")
		c16conc = be
		mux := diam.NewServeMux()
		mux.HandleFunc("ALL", func(c diam.Conn, m *diam.Message) {
			vs.GoNamed(fmt.Sprintf("worker%d", m.Header.HopByHopID), false, func() {
				if retry {
					m.Answer(2001).WriteToWithRetry(c, 1)
				} else {
					m.Answer(2001).WriteTo(c)
				}
			})
		})
		msc := diam.NewSCTPConnBackend(be)
		if withTimeouts {
			lis := vnet.NewListener()
			lis.Offer(vnet.AcceptItem{NetConn: msc})
			srv := &diam.Server{Handler: mux, Dict: dict.Default, ReadTimeout: time.Hour, WriteTimeout: time.Hour}
			vs.GoNamed("serve", false, func() { srv.Serve(lis) })
		} else if _, err := diam.NewConn(msc, "peer", mux, dict.Default); err != nil {
			return
		}
		be.Deliver(s1, refcodec.EncodeMessage(refcodec.Header{Version: 1, Flags: 0x80, Code: 258, HbH: 1, E2E: 1}, []refcodec.Node{ident(264, "c")}))
		be.Deliver(s2, refcodec.EncodeMessage(refcodec.Header{Version: 1, Flags: 0x80, Code: 258, HbH: 2, E2E: 2}, []refcodec.Node{ident(264, "c")}))
	}
	check := func(s *vs.Sched) string {
		be := c16conc
		if p := s.Panics(); len(p) > 0 {
			return "panic: " + p[0]
		}
		if len(be.Writes) != 2 {
			return fmt.Sprintf("%d answers written for 2 requests (blocked: %v)", len(be.Writes), s.BlockedLib())
		}
		for _, w := range be.Writes {
			h, err := refcodec.DecodeHeader(w.Data)
			if err != nil || (h.HbH != 1 && h.HbH != 2) {
				return "an answer that belongs to no request was written"
			}
			want := s1
			if h.HbH == 2 {
				want = s2
			}
			if w.Stream != want {
				return fmt.Sprintf("two application goroutines answer concurrently: the answer to request %d (arrived on stream %d) was written to stream %d", h.HbH, want, w.Stream)
			}
		}
		return ""
	}
	outcome := func(s *vs.Sched) string {
		var o []string
		for _, w := range c16conc.Writes {
			h, _ := refcodec.DecodeHeader(w.Data)
			o = append(o, fmt.Sprintf("%d@%d", h.HbH, w.Stream))
		}
		return fmt.Sprint(o)
	}
	name := fmt.Sprintf("streams/concurrent-answers/%d+%d/retry=%v", s1, s2, retry)
	if withTimeouts {
		name += "/server-with-read-and-write-timeouts"
	}
	return &Scenario{Name: name, Body: body, Check: check, Outcome: outcome, Bound: bound, Horizon: 5 * time.Second}
}

// c16SecondCER: a second CER on a connection whose handshake has completed. The statement does not
// say whether the state machine answers it; IF it does, that answer must mirror THIS request
// (command, application id, identifiers, P bit, stream) like every other answer it builds.
func c16SecondCER(r *SeqResult) {
	for _, hbh := range []uint32{0, 0x80000000} {
		for _, flags := range []uint8{0x80, 0xC0, 0x90} {
			for _, app := range []uint32{0, 4} {
				for _, stream := range []uint16{2, 5} {
					hbh, flags, app, stream := hbh, flags, app, stream
					var be *vnet.SCTP
					s := vs.Run(nil, false, 5*time.Second, false, func() {
						be = vnet.NewSCTP("S")
						mach := sm.New(c16Settings())
						msc := diam.NewSCTPConnBackend(be)
						if _, err := diam.NewConn(msc, "peer", mach, dict.Default); err != nil {
							return
						}
						be.Deliver(2, c16Request("cer-ok", 7, 8, 0x80))
						vs.BlockObj("wait-first-cea", be, func() bool { return len(be.Writes) >= 1 || be.Closed })
						second := c16Request("cer-ok", hbh, 9, flags)
						second[8], second[9], second[10], second[11] = byte(app>>24), byte(app>>16), byte(app>>8), byte(app)
						be.Deliver(stream, second)
						be.PeerEOF()
					})
					s.Teardown()
					r.Cases++
					r.Distinct++
					if r.Sample == "" {
						r.Sample = fmt.Sprintf("second CER (hbh %#x, flags %#x, header application %d, stream %d) after a completed handshake -> %d answers written in total", hbh, flags, app, stream, len(be.Writes))
					}
					if r.Violation != "" || len(be.Writes) < 2 {
						continue
					}
					w := be.Writes[1]
					h, _ := refcodec.DecodeHeader(w.Data)
					v := ""
					switch {
					case h.Code != 257 || h.Flags&0x80 != 0:
						v = fmt.Sprintf("answer has command %d flags %#x", h.Code, h.Flags)
					case h.App != app:
						v = fmt.Sprintf("answer has application id %d, the request has %d", h.App, app)
					case h.HbH != hbh || h.E2E != 9:
						v = fmt.Sprintf("answer ids %#x/%#x, request ids %#x/0x9", h.HbH, h.E2E, hbh)
					case h.Flags&0x40 != flags&0x40:
						v = fmt.Sprintf("proxiable bit changed: answer flags %#x, request flags %#x", h.Flags, flags)
					case w.Stream != stream:
						v = fmt.Sprintf("the request arrived on stream %d, the answer was written to stream %d", stream, w.Stream)
					}
					if v != "" {
						r.Violation = fmt.Sprintf("answer to a second CER (hop-by-hop %#x, flags %#x, header application %d, stream %d) on a connection whose handshake had completed on stream 2: %s", hbh, flags, app, stream, v)
						r.Case = map[string]interface{}{"hbh": hbh, "flags": flags, "app": app, "stream": stream}
					}
				}
			}
		}
	}
}

// c16Unhandled: requests nobody registered a handler for - on a bare ServeMux that serves another
// command only, and on a state machine after the handshake. The statement does not ask for an
// answer to them; if the library does send one, it is an answer the library built from a request
// and must mirror it like any other.
func c16Unhandled(r *SeqResult) {
	for _, mode := range []string{"mux", "state-machine"} {
		for _, cmd := range [][2]uint32{{275, 0}, {272, 4}, {258, 0}, {8388608, 7}} {
			for _, flags := range []uint8{0x80, 0xC0, 0xD0, 0x90} {
				for _, hbh := range c16IDs {
					mode, cmd, flags, hbh := mode, cmd, flags, hbh
					var conn *vnet.Conn
					skip := 0
					s := vs.Run(nil, false, 5*time.Second, false, func() {
						conn = vnet.NewConn("U")
						conn.Pieces = 1
						var h diam.Handler
						if mode == "mux" {
							mux := diam.NewServeMux()
							mux.HandleFunc("DWR", func(c diam.Conn, m *diam.Message) { m.Answer(2001).WriteTo(c) })
							vs.GoNamed("reports", true, func() {
								for {
									if _, ok := mux.ErrorReports().Recv2(); !ok {
										return
									}
								}
							})
							h = mux
						} else {
							mach := sm.New(c16Settings())
							vs.GoNamed("reports", true, func() {
								for {
									if _, ok := mach.ErrorReports().Recv2(); !ok {
										return
									}
								}
							})
							h = mach
						}
						if _, err := diam.NewConn(conn, "peer", h, dict.Default); err != nil {
							return
						}
						p := &Peer{C: conn}
						if mode == "state-machine" {
							conn.Deliver(c16Request("cer-ok", 7, 8, 0x80))
							if p.Next() == nil {
								return
							}
							skip = 1
						}
						conn.Deliver(refcodec.EncodeMessage(refcodec.Header{Version: 1, Flags: flags, Code: cmd[0], App: cmd[1], HbH: hbh, E2E: 0x55}, []refcodec.Node{ident(264, "c"), ident(296, "r")}))
						// end marker: a DWR, which both serve
						conn.Deliver(refcodec.EncodeMessage(refcodec.Header{Version: 1, Flags: 0x80, Code: 280, HbH: 0x7777, E2E: 0x7777}, []refcodec.Node{ident(264, "c"), ident(296, "r")}))
						for {
							m := p.Next()
							if m == nil || m.Hdr.HbH == 0x7777 {
								break
							}
						}
						conn.PeerEOF()
					})
					s.Teardown()
					r.Cases++
					r.Distinct++
					if r.Violation != "" {
						continue
					}
					msgs, _ := refcodec.SplitStream(conn.Out)
					v := ""
					for i, raw := range msgs {
						if i < skip {
							continue
						}
						a, _ := refcodec.DecodeHeader(raw)
						if a.Code == 280 && a.HbH == 0x7777 {
							continue
						}
						switch {
						case a.Flags&0x80 != 0:
							v = fmt.Sprintf("the library sent a request (command %d) of its own", a.Code)
						case a.Code != cmd[0] || a.App != cmd[1] || a.HbH != hbh || a.E2E != 0x55:
							v = fmt.Sprintf("answer header {code %d app %d ids %#x/%#x} does not mirror the request {code %d app %d ids %#x/0x55}", a.Code, a.App, a.HbH, a.E2E, cmd[0], cmd[1], hbh)
						case a.Flags&0x40 != flags&0x40:
							v = fmt.Sprintf("request flags %#x, answer flags %#x: the proxiable bit changed", flags, a.Flags)
						}
					}
					if p := s.Panics(); len(p) > 0 && v == "" {
						v = "panic: " + strings.Join(p, "; ")
					}
					if v != "" {
						r.Violation = fmt.Sprintf("%s, request for command %d (application %d) with flags %#x and hop-by-hop id %#x that no handler is registered for: %s", mode, cmd[0], cmd[1], flags, hbh, v)
						r.Case = map[string]interface{}{"mode": mode, "cmd": cmd, "flags": flags, "hbh": hbh}
					}
				}
			}
		}
	}
	if r.Sample == "" {
		r.Sample = "unhandled STR / CCR / RAR / undefined command, P bit set and clear, on a bare ServeMux and on a state machine after the handshake: whatever comes back must mirror the request"
	}
}

// c16SharedDuringDial: one state machine serves an accepted connection while a client dial through
// the same state machine is still waiting for its CEA. Requests arrive on the accepted connection
// (a CER, then a DWR) at that moment: whatever the library answers goes to the connection the
// request arrived on - nothing but the client's own CER is ever written to the dialled connection.
func c16SharedDuringDial(r *SeqResult) {
	for _, hbh := range c16IDs {
		for _, kind := range []string{"cer-ok", "cer-noapp", "dwr"} {
			hbh, kind := hbh, kind
			var out, in *vnet.Conn
			s := vs.Run(nil, false, 5*time.Second, false, func() {
				mach := sm.New(c16Settings())
				out, in = vnet.NewConn("OUT"), vnet.NewConn("IN")
				out.Pieces, in.Pieces = 1, 1
				cli := &sm.Client{Handler: mach, Dict: dict.Default, MaxRetransmits: 0, RetransmitInterval: time.Second,
					AuthApplicationID: []*diam.AVP{diam.NewAVP(avp.AuthApplicationID, avp.Mbit, 0, datatype.Unsigned32(4))}}
				vs.GoNamed("peer-out", true, func() {
					p := &Peer{C: out}
					if cer := p.Next(); cer != nil {
						vs.TimeSleep(500 * time.Millisecond) // the dialled peer is slow to answer
						out.Deliver(peerAnswer(cer, 2001, true))
					}
				})
				vs.GoNamed("dialer", true, func() { cli.NewConn(out, "peer") })
				vs.TimeSleep(100 * time.Millisecond) // the client's CER is out, its handshake waits
				in.Deliver(c16Request(kind, hbh, 0x22222222, 0x80))
				in.Deliver(c16Request("dwr", hbh+1, 0x33333333, 0x80))
				if _, err := diam.NewConn(in, "peer2", mach, dict.Default); err != nil {
					return
				}
				vs.TimeSleep(time.Second)
			})
			s.Teardown()
			r.Cases++
			r.Distinct++
			if r.Violation != "" {
				continue
			}
			v := ""
			msgs, _ := refcodec.SplitStream(out.Out)
			for _, raw := range msgs {
				if h, err := refcodec.DecodeHeader(raw); err == nil && h.Flags&0x80 == 0 {
					v = fmt.Sprintf("an answer (command %d, ids %#x/%#x) was written to the DIALLED connection; the request it answers arrived on the accepted one", h.Code, h.HbH, h.E2E)
				}
			}
			msgs, _ = refcodec.SplitStream(in.Out)
			for _, raw := range msgs {
				h, err := refcodec.DecodeHeader(raw)
				if err != nil || h.Flags&0x80 != 0 {
					continue
				}
				if !(h.HbH == hbh && h.E2E == 0x22222222) && !(h.HbH == hbh+1 && h.E2E == 0x33333333 && h.Code == 280) {
					v = fmt.Sprintf("answer with ids %#x/%#x (command %d) on the accepted connection mirrors none of the requests that arrived on it", h.HbH, h.E2E, h.Code)
				}
			}
			if p := s.Panics(); len(p) > 0 && v == "" {
				v = "panic: " + strings.Join(p, "; ")
			}
			if v != "" {
				r.Violation = fmt.Sprintf("state machine shared by an accepted connection and a client dial that is still waiting for its CEA; %s with hop-by-hop %#x, then a DWR, arrive on the accepted connection: %s", kind, hbh, v)
				r.Case = map[string]interface{}{"kind": kind, "hbh": hbh}
			}
		}
	}
	if r.Sample == "" {
		r.Sample = "CER / refused CER / DWR on an accepted connection while a dial through the same state machine waits for its CEA"
	}
}

// c16UnhandledStream: the same question on a multistream association: a request nobody handles (a
// defined command without a handler, a command the dictionary does not define) arrives on stream s;
// whatever the library writes in response mirrors the request and goes out on stream s.
func c16UnhandledStream(r *SeqResult) {
	for _, cmd := range [][2]uint32{{275, 0}, {272, 4}, {8388608, 7}, {999, 0}} {
		for _, flags := range []uint8{0x80, 0xC0} {
			for _, stream := range []uint16{0, 1, 5, 65535} {
				for _, pin := range []bool{false, true} {
					cmd, flags, stream, pin := cmd, flags, stream, pin
					hbh := 0x1000 + uint32(stream)
					var be *vnet.SCTP
					s := vs.Run(nil, false, 5*time.Second, false, func() {
						be = vnet.NewSCTP("US")
						mux := diam.NewServeMux()
						mux.HandleFunc("DWR", func(c diam.Conn, m *diam.Message) { m.Answer(2001).WriteTo(c) })
						vs.GoNamed("reports", true, func() {
							for {
								if _, ok := mux.ErrorReports().Recv2(); !ok {
									return
								}
							}
						})
						dc, err := diam.NewConn(diam.NewSCTPConnBackend(be), "peer", mux, dict.Default)
						if err != nil {
							return
						}
						if pin {
							if mw, ok := dc.(diam.MultistreamWriter); ok {
								mw.SetWriterStream(uint(stream) + 3)
							}
						}
						be.Deliver(stream, refcodec.EncodeMessage(refcodec.Header{Version: 1, Flags: flags, Code: cmd[0], App: cmd[1], HbH: hbh, E2E: 0x55}, []refcodec.Node{ident(264, "c"), ident(296, "r")}))
						be.PeerEOF()
					})
					s.Teardown()
					r.Cases++
					r.Distinct++
					if r.Violation != "" {
						continue
					}
					v := ""
					var all []byte
					for i, w := range be.Writes {
						if w.Stream != stream {
							v = fmt.Sprintf("write %d of the library's response (%d bytes) went to stream %d", i, len(w.Data), w.Stream)
							break
						}
						all = append(all, w.Data...)
					}
					for v == "" && len(all) > 0 {
						a, err := refcodec.DecodeHeader(all)
						if err != nil || int(a.Length) > len(all) || a.Length < 20 {
							v = "the bytes written are not a sequence of messages"
							break
						}
						switch {
						case a.Flags&0x80 != 0:
							v = fmt.Sprintf("the library sent a request (command %d) of its own", a.Code)
						case a.Code != cmd[0] || a.App != cmd[1] || a.HbH != hbh || a.E2E != 0x55:
							v = fmt.Sprintf("answer header {code %d app %d ids %#x/%#x} does not mirror the request", a.Code, a.App, a.HbH, a.E2E)
						case a.Flags&0x40 != flags&0x40:
							v = fmt.Sprintf("request flags %#x, answer flags %#x: the proxiable bit changed", flags, a.Flags)
						}
						all = all[a.Length:]
					}
					if p := s.Panics(); len(p) > 0 && v == "" {
						v = "panic: " + strings.Join(p, "; ")
					}
					if v != "" {
						r.Violation = fmt.Sprintf("multistream association, request for command %d (application %d) with flags %#x that nobody handles, arriving on stream %d (writer stream pinned by the application: %v): %s", cmd[0], cmd[1], flags, stream, pin, v)
						r.Case = map[string]interface{}{"cmd": cmd, "flags": flags, "stream": stream, "pin": pin}
					}
				}
			}
		}
	}
}

// c16ClientDWA: the state machine answers a peer's DWR on the CLIENT side of a multistream
// association too (the connection was dialled with sm.Client, watchdog on or off, with its own
// WatchdogStream): the DWA mirrors the DWR and goes out on the stream the DWR arrived on.
func c16ClientDWA(r *SeqResult) {
	for _, watchdog := range []bool{false, true} {
		for _, wdStream := range []uint{0, 5} {
			for _, stream := range []uint16{0, 3, 5, 9} {
				for _, hbh := range c16IDs {
					watchdog, wdStream, stream, hbh := watchdog, wdStream, stream, hbh
					var be *vnet.SCTP
					dialOK := false
					s := vs.Run(nil, false, 2*time.Second, false, func() {
						be = vnet.NewSCTP("C")
						mach := sm.New(c16Settings())
						cli := &sm.Client{Handler: mach, Dict: dict.Default, MaxRetransmits: 0, RetransmitInterval: time.Second,
							EnableWatchdog: watchdog, WatchdogInterval: time.Hour, WatchdogStream: wdStream,
							AuthApplicationID: []*diam.AVP{diam.NewAVP(avp.AuthApplicationID, avp.Mbit, 0, datatype.Unsigned32(4))}}
						vs.GoNamed("peer", true, func() {
							vs.BlockObj("wait-cer", be, func() bool { return len(be.Writes) > 0 || be.Closed })
							if len(be.Writes) == 0 {
								return
							}
							cer, _ := refcodec.DecodeHeader(be.Writes[0].Data)
							be.Deliver(be.Writes[0].Stream, refcodec.EncodeMessage(refcodec.Header{Version: 1, Code: 257, HbH: cer.HbH, E2E: cer.E2E}, []refcodec.Node{
								u32avp(268, 2001), ident(264, "srv"), ident(296, "realm"), {Code: 257, Flags: 0x40, Payload: refcodec.Address(1, []byte{10, 0, 0, 1})},
								u32avp(266, 13), {Code: 269, Payload: []byte("p")}, u32avp(258, 4)}))
							vs.BlockObj("wait-dial", be, func() bool { return dialOK || be.Closed })
							be.Deliver(stream, refcodec.EncodeMessage(refcodec.Header{Version: 1, Flags: 0x80, Code: 280, HbH: hbh, E2E: 0x42}, []refcodec.Node{ident(264, "srv"), ident(296, "realm")}))
						})
						c, err := cli.NewConn(diam.NewSCTPConnBackend(be), "peer")
						dialOK = c != nil && err == nil
						vs.Touch(be, "dialled")
						vs.BlockObj("wait-dwa", be, func() bool { return len(be.Writes) >= 2 || be.Closed })
					})
					s.Teardown()
					r.Cases++
					r.Distinct++
					if r.Violation != "" {
						continue
					}
					v := ""
					switch {
					case !dialOK:
						v = "harness: the dial failed"
					case len(be.Writes) < 2:
						v = "the peer's DWR was not answered"
					default:
						w := be.Writes[1]
						h, _ := refcodec.DecodeHeader(w.Data)
						switch {
						case h.Code != 280 || h.Flags&0x80 != 0 || h.HbH != hbh || h.E2E != 0x42:
							v = fmt.Sprintf("the answer {code %d flags %#x ids %#x/%#x} does not mirror the DWR", h.Code, h.Flags, h.HbH, h.E2E)
						case w.Stream != stream:
							v = fmt.Sprintf("the DWR arrived on stream %d but its DWA was written to stream %d", stream, w.Stream)
						}
					}
					if v != "" {
						r.Violation = fmt.Sprintf("client side (watchdog enabled: %v, WatchdogStream %d), peer's DWR on stream %d with hop-by-hop %#x: %s", watchdog, wdStream, stream, hbh, v)
						r.Case = map[string]interface{}{"watchdog": watchdog, "wdStream": wdStream, "stream": stream, "hbh": hbh}
					}
				}
			}
		}
	}
	if r.Sample == "" {
		r.Sample = "sm.Client over a multistream association; the peer sends a DWR on another stream than the client's WatchdogStream"
	}
}
