package bcheck

import (
	"fmt"
	"sort"
	"strings"
	"time"

	"github.com/fiorix/go-diameter/v4/diam"
	"github.com/fiorix/go-diameter/v4/diam/dict"
	"verif/internal/refcodec"
	"verif/vnet"
	vs "verif/vsched"
)

// C19 — SCTP multistream: every message is assembled from one stream, in order.

func init() {
	Registry["C19"] = &Check{
		Scenarios: c19Scenarios,
		Rule: "S in {1,2} streams (stream numbers rotating over {0,1,5}, {16,0,65535}, {21,15,0}, {1,17,16} from one history to the next): per stream every sequence of <=2 messages over sizes {20 (header only), 40, 1100 bytes} from a list of eight; each stream's bytes cut into <=3 chunks at every choice of <=2 cut points from {inside the first header, header/body border, inside the body, message border, inside the second header, spanning point}; ALL merges (interleavings) of the per-stream chunk sequences; then EOF. Bursts: between the two chunks of one stream's 40-byte message (cut at 10, 20, 30) a burst of another stream {30, 64, 66, 70, 140 x 1000 bytes, 100 x 1100, 3 x 30000, 192 x 1024, 256 / 257 / 1000 x 40, 300 x 100} arrives, one message per chunk or re-cut into 8000-byte chunks, with or without a short message of a third stream in its middle (stream buffers of 30 KB to 192 KiB). More than sixteen streams: 15, 16, 17 or 20 streams deliver a whole message each behind the stalled first message of stream 0; behind its stalled second message one of them delivers again and a never-seen stream delivers for the first time (either order, four size assignments). A long-lived association: 72 rounds in which a 1 MiB message waits in its stream buffer behind a stalled message of another stream (72 MiB through the buffers in total). No stream information: three messages (40, 1100, 20 bytes) on an association that delivers data without SndRcvInfo, cut at every offset of the first 60 bytes and at later offsets, and in 1-, 7- and 100-byte chunks. Empty reads: after the first k bytes (k = 1..20, 30) of a stream's message a read returns 0 bytes and no error (once or twice), then a whole message of another stream arrives, then the rest - also with CloseNotify requested on the association beforehand. In every other history the application has pinned a writer stream (SetWriterStream): replies still follow their requests. S = 5: the first stream's message (40 or 1100 bytes) in two chunks around whole messages of four other streams with sizes from {40,48,56,80} (all 256 assignments x 24 arrival orders). S = 3: single messages of 20, 40 and 48 bytes per stream with <=1 cut, all merges (thorough: also the general family with <=1 cut). The chunks are fed through the in-memory SCTP backend (partial delivery: a read returns at most the buffer size of the head chunk) to a real diam.Conn created with diam.NewConn over diam.NewSCTPConnBackend, i.e. consumed by the library's own reader loop; the handler records (message, MessageStream()) and answers. One deterministic schedule per history (the quantifier is over chunk histories). Last clause: additionally the deferred-answer grid of C16 (all 16 stream pairs x 0-2 temporarily failing write attempts) and two application goroutines answering requests of streams {3,5} / {0,7} concurrently, every schedule up to preemption bound 2.",
		Assume: []string{"the in-memory backend models one-to-one-socket recvmsg partial delivery (hook diam/sctp_verif.go, build tag verif)", "single default schedule per history"},
		QuickBudget: 150, ThoroughBudget: 2400,
	}
}

// stream numbers rotate over these sets from one chunk history to the next: the default stream,
// small numbers, numbers at and above the library dialer's default of 16 outbound streams, and
// the largest stream id.
var c19StreamSets = [][]uint16{{0, 1, 5}, {16, 0, 65535}, {21, 15, 0}, {1, 17, 16}}
var c19Streams = c19StreamSets[0]

func c19Msg(si, seq, size int) []byte {
	var nodes []refcodec.Node
	if size > 20 {
		p := make([]byte, size-28)
		for i := range p {
			p[i] = byte(si*50 + seq*7 + i)
		}
		nodes = append(nodes, refcodec.Node{Code: 60001, Payload: p})
	}
	b := refcodec.EncodeMessage(refcodec.Header{Version: 1, Flags: 0x80, Code: 257, App: 0, HbH: uint32(si + 1), E2E: uint32(seq + 1)}, nodes)
	if len(b) != size {
		panic("c19Msg size")
	}
	return b
}

// streamCfg is one stream's byte sequence cut into chunks.
type streamCfg struct {
	sizes  []int
	chunks [][]byte
	desc   string
}

func c19StreamCfgs(si int) []streamCfg {
	seqs := [][]int{{20}, {40}, {1100}, {20, 40}, {40, 20}, {40, 40}, {1100, 40}, {40, 1100}}
	var out []streamCfg
	for _, sq := range seqs {
		var all []byte
		for j, sz := range sq {
			all = append(all, c19Msg(si, j, sz)...)
		}
		cand := map[int]bool{}
		add := func(o int) {
			if o > 0 && o < len(all) {
				cand[o] = true
			}
		}
		add(10)
		add(20)
		add(30)
		add(sq[0])
		if len(sq) > 1 {
			add(sq[0] + 10)
			add(sq[0] + 20)
			add(sq[0] - 5)
		}
		var offs []int
		for o := range cand {
			offs = append(offs, o)
		}
		sort.Ints(offs)
		var cuts [][]int
		cuts = append(cuts, nil)
		for i, a := range offs {
			cuts = append(cuts, []int{a})
			for _, b := range offs[i+1:] {
				cuts = append(cuts, []int{a, b})
			}
		}
		for _, c := range cuts {
			var chunks [][]byte
			prev := 0
			for _, o := range c {
				chunks = append(chunks, all[prev:o])
				prev = o
			}
			chunks = append(chunks, all[prev:])
			out = append(out, streamCfg{sizes: sq, chunks: chunks, desc: fmt.Sprintf("sizes%v cuts%v", sq, c)})
		}
	}
	return out
}

// merges enumerates all interleavings of sequences with the given lengths.
func merges(lens []int, fn func(order []int)) {
	total := 0
	for _, l := range lens {
		total += l
	}
	pos := make([]int, len(lens))
	cur := make([]int, 0, total)
	var rec func()
	rec = func() {
		if len(cur) == total {
			fn(cur)
			return
		}
		for s := range lens {
			if pos[s] < lens[s] {
				pos[s]++
				cur = append(cur, s)
				rec()
				cur = cur[:len(cur)-1]
				pos[s]--
			}
		}
	}
	rec()
}

// c19Capped counts executions that hit the step cap (they give no verdict).
var c19Capped int

type c19Rec struct {
	hbh, e2e uint32
	stream   uint
	size     int
}

// c19NoInfoMode: the in-memory association hands out data without SndRcvInfo.
var c19NoInfoMode bool

// c19NoInfo: three messages (one with a body above 1 KiB) back to back on an association without
// stream information, cut at every single offset of the first 60 bytes and at a set of later
// offsets, and delivered in chunks of 1, 7 and 100 bytes. Every message is delivered, in order.
func c19NoInfo(r *SeqResult) {
	saved := c19Streams
	c19NoInfoMode = true
	defer func() { c19Streams = saved; c19NoInfoMode = false; r.Capped += c19Capped; c19Capped = 0 }()
	c19Streams = []uint16{0}
	sizes := []int{40, 1100, 20}
	var all []byte
	for j, sz := range sizes {
		all = append(all, c19Msg(0, j, sz)...)
	}
	run := func(chunks [][]byte, desc string) {
		order := make([]int, len(chunks))
		r.Cases++
		r.Distinct++
		if r.Violation != "" {
			return
		}
		if v := c19Run([]streamCfg{{sizes: sizes, chunks: chunks, desc: desc}}, order); v != "" {
			r.Violation = fmt.Sprintf("%s | association without stream information: sizes%v %s", v, sizes, desc)
			r.Case = map[string]interface{}{"noinfo": desc}
		}
	}
	run([][]byte{all}, "uncut")
	for cut := 1; cut < len(all); cut++ {
		if cut > 60 && cut%97 != 0 && cut != 40+20 && cut != 40+1100 && cut != 40+1100+10 {
			continue
		}
		run([][]byte{all[:cut], all[cut:]}, fmt.Sprintf("cut at %d", cut))
	}
	for _, k := range []int{1, 7, 100} {
		var chunks [][]byte
		for p := 0; p < len(all); p += k {
			e := p + k
			if e > len(all) {
				e = len(all)
			}
			chunks = append(chunks, all[p:e])
		}
		run(chunks, fmt.Sprintf("%d-byte chunks", k))
	}
	if r.Sample == "" {
		r.Sample = "three messages on an association that delivers no stream information, every cut"
	}
}

func c19Run(cfgs []streamCfg, order []int) string {
	var recs []c19Rec
	var be *vnet.SCTP
	s := vs.Run(nil, false, 5*time.Second, false, func() {
		be = vnet.NewSCTP("M")
		be.NoInfo = c19NoInfoMode
		pos := make([]int, len(cfgs))
		for _, si := range order {
			if len(cfgs[si].chunks[pos[si]]) == 0 {
				be.DeliverEmpty(c19Streams[si])
			} else {
				be.Deliver(c19Streams[si], cfgs[si].chunks[pos[si]])
			}
			pos[si]++
		}
		be.PeerEOF()
		mux := diam.NewServeMux()
		mux.HandleFunc("ALL", func(c diam.Conn, m *diam.Message) {
			recs = append(recs, c19Rec{m.Header.HopByHopID, m.Header.EndToEndID, m.MessageStream(), m.Len()})
			// replies are built with a Result-Code and, every other time, without one (Answer(0))
			a := m.Answer([]uint32{2001, 0}[len(recs)%2])
			a.Header.HopByHopID, a.Header.EndToEndID = m.Header.HopByHopID, m.Header.EndToEndID
			a.WriteTo(c)
		})
		msc := diam.NewSCTPConnBackend(be)
		dc, err := diam.NewConn(msc, "peer", mux, dict.Default)
		if err != nil {
			panic(err)
		}
		if c19CloseNotify {
			// the application asked to be told when the association ends (before anything arrives)
			dc.(diam.CloseNotifier).CloseNotify()
		}
		if len(order)%2 == 0 {
			// every other history: the application has pinned a writer stream for its own traffic
			if mw, ok := dc.(diam.MultistreamWriter); ok {
				mw.SetWriterStream(uint(c19Streams[0]) + 11)
			}
		}
	})
	panics := s.Panics()
	blocked := s.BlockedLib()
	s.Teardown()
	if s.Capped {
		c19Capped++
		return ""
	}
	if len(panics) > 0 {
		return "panic: " + strings.Join(panics, "; ")
	}
	// per stream: delivered messages = reference framing of that stream's bytes, in order
	next := make([]int, len(cfgs))
	for _, r := range recs {
		si := int(r.hbh) - 1
		if si < 0 || si >= len(cfgs) {
			return fmt.Sprintf("a message with unknown id %d.%d was delivered (bytes of different streams mixed)", r.hbh, r.e2e)
		}
		if !c19NoInfoMode && r.stream != uint(c19Streams[si]) {
			return fmt.Sprintf("message %d of stream %d reports MessageStream()=%d", r.e2e, c19Streams[si], r.stream)
		}
		if int(r.e2e)-1 != next[si] {
			return fmt.Sprintf("stream %d: message %d delivered where message %d was expected (lost / duplicated / reordered)", c19Streams[si], r.e2e, next[si]+1)
		}
		if r.size != cfgs[si].sizes[next[si]] {
			return fmt.Sprintf("stream %d message %d delivered with %d bytes, sent with %d", c19Streams[si], r.e2e, r.size, cfgs[si].sizes[next[si]])
		}
		next[si]++
	}
	for si := range cfgs {
		if next[si] != len(cfgs[si].sizes) {
			return fmt.Sprintf("stream %d: %d of %d messages delivered before the connection ended (handled in total: %d, blocked: %v)", c19Streams[si], next[si], len(cfgs[si].sizes), len(recs), blocked)
		}
	}
	// answers on the request's stream
	if len(be.Writes) != len(recs) {
		return fmt.Sprintf("%d answers written for %d requests", len(be.Writes), len(recs))
	}
	for i, w := range be.Writes {
		h, err := refcodec.DecodeHeader(w.Data)
		if err != nil || h.HbH != recs[i].hbh || h.E2E != recs[i].e2e {
			return fmt.Sprintf("answer %d does not answer request %d.%d", i, recs[i].hbh, recs[i].e2e)
		}
		if !c19NoInfoMode && uint(w.Stream) != recs[i].stream {
			return fmt.Sprintf("answer to request %d.%d (arrived on stream %d) was written to stream %d", recs[i].hbh, recs[i].e2e, recs[i].stream, w.Stream)
		}
	}
	if !be.Closed {
		return "the association was not closed after EOF"
	}
	return ""
}

func c19Scenarios(tier string) []*Scenario {
	var out []*Scenario
	maxS := 2
	if tier == "thorough" {
		maxS = 3
	}
	all := make([][]streamCfg, 3)
	for si := range all {
		all[si] = c19StreamCfgs(si)
	}
	// S = 1
	out = append(out, &Scenario{Name: "streams=1", Seq: func(r *SeqResult) {
		for _, a := range all[0] {
			c19Eval(r, []streamCfg{a})
		}
	}})
	// S = 2: one scenario per configuration of the first stream (for sharding)
	for ai := range all[0] {
		ai := ai
		out = append(out, &Scenario{Name: fmt.Sprintf("streams=2/first=%d:%s", ai, all[0][ai].desc), Seq: func(r *SeqResult) {
			for _, b := range all[1] {
				c19Eval(r, []streamCfg{all[0][ai], b})
			}
		}})
	}
	// S = 5: the first stream's message (40 or 1100 bytes) in two chunks around whole messages of four other streams with sizes from {40,48,56,80} (all 256 assignments x 24 arrival orders). S = 3: single messages of 20, 40 and 48 bytes per stream (two buffered streams whose lengths
	// differ by less than a header are needed to reorder the demultiplexer's heap), <=1 cut, all merges
	small := make([][]streamCfg, 3)
	for si := range small {
		for _, sz := range []int{20, 40, 48} {
			all := c19Msg(si, 0, sz)
			small[si] = append(small[si], streamCfg{sizes: []int{sz}, chunks: [][]byte{all}, desc: fmt.Sprintf("sizes[%d] cuts[]", sz)})
			for _, o := range []int{10, 20, 30} {
				if o < sz {
					small[si] = append(small[si], streamCfg{sizes: []int{sz}, chunks: [][]byte{all[:o], all[o:]}, desc: fmt.Sprintf("sizes[%d] cuts[%d]", sz, o)})
				}
			}
		}
	}
	for ai := range small[0] {
		ai := ai
		out = append(out, &Scenario{Name: fmt.Sprintf("streams=3/small/first=%d:%s", ai, small[0][ai].desc), Seq: func(r *SeqResult) {
			for _, b := range small[1] {
				for _, c := range small[2] {
					c19Eval(r, []streamCfg{small[0][ai], b, c})
				}
			}
		}})
	}
	if maxS >= 3 {
		// thorough: S = 3 over the general per-stream family restricted to <=1 cut
		red := make([][]streamCfg, 3)
		for si := range red {
			for _, c := range all[si] {
				if len(c.chunks) <= 2 && (len(c.sizes) == 1 || c.sizes[0] == 40) {
					red[si] = append(red[si], c)
				}
			}
		}
		for ai := range red[0] {
			ai := ai
			out = append(out, &Scenario{Name: fmt.Sprintf("streams=3/first=%d:%s", ai, red[0][ai].desc), Seq: func(r *SeqResult) {
				for _, b := range red[1] {
					for _, c := range red[2] {
						c19Eval(r, []streamCfg{red[0][ai], b, c})
					}
				}
			}})
		}
	}
	// S = 5: four parked streams while a fifth message is being assembled
	for _, fs := range []int{40, 1100} {
		fs := fs
		out = append(out, &Scenario{Name: fmt.Sprintf("streams=5/first-size=%d", fs), Seq: func(r *SeqResult) { c19Five(r, fs) }})
	}
	// a long burst of one stream (below, around and beyond 64 KiB, up to 192 KiB) piles up in its
	// stream buffer while the message of another stream is stalled in the middle of its assembly
	out = append(out, &Scenario{Name: "streams/burst-behind-a-stalled-stream", Seq: c19Burst})
	// more streams than the 16 the library sizes its tables for: 15..20 parked streams, then a
	// second round in which a parked stream and a never-seen stream deliver behind a stalled message
	out = append(out, &Scenario{Name: "streams/more-than-sixteen", Seq: c19Many})
	// a long-lived association: 72 rounds in which a 1 MiB message of one stream waits in its buffer
	// behind a stalled message of another - 72 MiB pass through the stream buffers in total, never
	// more than 1 MiB at a time
	out = append(out, &Scenario{Name: "streams/long-lived-association", Seq: c19LongLived})
	// an association that delivers data WITHOUT stream information (the socket is not subscribed to
	// the data-io event, or the stack does not fill it in): one byte stream, every cut
	out = append(out, &Scenario{Name: "streams/no-stream-information", Seq: c19NoInfo})
	// empty reads: the association answers a read with no data and no error while a message is
	// incomplete (inside the header, at its end, inside the body), and the next data that arrives
	// belongs to another stream
	out = append(out, &Scenario{Name: "streams/empty-read-inside-a-message", Seq: c19EmptyRead})
	// replies written later, while another stream's request is being handled, with and without
	// temporary write errors that are retried (shared with C16)
	out = append(out, &Scenario{Name: "streams/deferred-answer", Seq: c16Deferred})
	// replies written concurrently by two application goroutines (shared with C16)
	for _, p := range [][2]uint16{{3, 5}, {0, 7}} {
		out = append(out, c16Concurrent(p[0], p[1], false, 2))
	}
	return out
}

func c19Eval(r *SeqResult, cfgs []streamCfg) {
	defer func() { r.Capped += c19Capped; c19Capped = 0 }()
	lens := make([]int, len(cfgs))
	for i, c := range cfgs {
		lens[i] = len(c.chunks)
	}
	merges(lens, func(order []int) {
		c19Streams = c19StreamSets[r.Cases%len(c19StreamSets)]
		r.Cases++
		r.Distinct++
		if r.Violation != "" {
			return
		}
		v := c19Run(cfgs, order)
		if r.Sample == "" && len(order) >= 4 {
			var d []string
			for i, c := range cfgs {
				d = append(d, fmt.Sprintf("stream %d: %s", c19Streams[i], c.desc))
			}
			r.Sample = fmt.Sprintf("%s; chunk arrival order (stream index) %v", strings.Join(d, "; "), order)
		}
		if v != "" {
			var d []string
			for i, c := range cfgs {
				d = append(d, fmt.Sprintf("stream %d: %s", c19Streams[i], c.desc))
			}
			r.Violation = fmt.Sprintf("%s | %s; chunk arrival order (stream index) %v", v, strings.Join(d, "; "), append([]int{}, order...))
			r.Case = map[string]interface{}{"streams": d, "order": append([]int{}, order...)}
		}
	})
}

// c19Five: five streams. The message of the first stream arrives in two chunks; between them whole
// messages of the four other streams arrive (sizes from {40, 48, 56, 80}, every assignment, every
// arrival order), so that four stream buffers are held at once while the first message is being
// assembled.
func c19Five(r *SeqResult, firstSize int) {
	defer func() { r.Capped += c19Capped; c19Capped = 0 }()
	saved := c19Streams
	defer func() { c19Streams = saved }()
	c19Streams = []uint16{3, 0, 17, 1, 65535}
	sizes := []int{40, 48, 56, 80}
	first := c19Msg(0, 0, firstSize)
	var perms [][]int
	var rec func(cur []int, used int)
	rec = func(cur []int, used int) {
		if len(cur) == 4 {
			perms = append(perms, append([]int{}, cur...))
			return
		}
		for i := 1; i <= 4; i++ {
			if used&(1<<uint(i)) == 0 {
				rec(append(cur, i), used|1<<uint(i))
			}
		}
	}
	rec(nil, 0)
	for assign := 0; assign < 256; assign++ {
		cfgs := []streamCfg{{sizes: []int{firstSize}, chunks: [][]byte{first[:10], first[10:]}, desc: fmt.Sprintf("sizes[%d] cuts[10]", firstSize)}}
		for si := 1; si <= 4; si++ {
			sz := sizes[(assign>>(2*uint(si-1)))&3]
			cfgs = append(cfgs, streamCfg{sizes: []int{sz}, chunks: [][]byte{c19Msg(si, 0, sz)}, desc: fmt.Sprintf("sizes[%d] cuts[]", sz)})
		}
		for _, p := range perms {
			order := append(append([]int{0}, p...), 0)
			r.Cases++
			r.Distinct++
			if r.Violation != "" {
				continue
			}
			if v := c19Run(cfgs, order); v != "" {
				var d []string
				for i, c := range cfgs {
					d = append(d, fmt.Sprintf("stream %d: %s", c19Streams[i], c.desc))
				}
				r.Violation = fmt.Sprintf("%s | %s; chunk arrival order (stream index) %v", v, strings.Join(d, "; "), order)
				r.Case = map[string]interface{}{"streams": d, "order": order}
			}
		}
	}
	if r.Sample == "" {
		r.Sample = "five streams: the first stream's message in two chunks around whole messages of four other streams (256 size assignments x 24 orders)"
	}
}

// c19Burst: the message of stream index 0 arrives in two chunks (cut inside the header, at its end,
// inside the body); between them a burst of n messages of another stream arrives - one message per
// chunk, or re-cut into chunks of 8000 bytes that ignore message boundaries - and, in some cases, a
// short message of a third stream. All of it has to wait in the stream buffers.
func c19Burst(r *SeqResult) {
	saved := c19Streams
	defer func() { c19Streams = saved }()
	c19Streams = []uint16{0, 1, 9}
	savedSteps := vs.DefaultMaxSteps
	vs.DefaultMaxSteps = 5000000
	c19Capped = 0
	defer func() { vs.DefaultMaxSteps = savedSteps; r.Capped += c19Capped; c19Capped = 0 }()
	for _, burst := range [][2]int{{30, 1000}, {64, 1000}, {66, 1000}, {70, 1000}, {100, 1100}, {3, 30000}, {140, 1000}, {192, 1024}, {256, 40}, {257, 40}, {300, 100}, {1000, 40}} {
		for _, cut := range []int{10, 20, 30} {
			for _, recut := range []bool{false, true} {
				for _, third := range []bool{false, true} {
					n, sz := burst[0], burst[1]
					first := c19Msg(0, 0, 40)
					cfgs := []streamCfg{{sizes: []int{40}, chunks: [][]byte{first[:cut], first[cut:]}, desc: fmt.Sprintf("sizes[40] cuts[%d]", cut)}}
					var sizes []int
					var chunks [][]byte
					var all []byte
					for j := 0; j < n; j++ {
						m := c19Msg(1, j, sz)
						sizes = append(sizes, sz)
						chunks = append(chunks, m)
						all = append(all, m...)
					}
					if recut {
						chunks = nil
						for len(all) > 0 {
							k := 8000
							if k > len(all) {
								k = len(all)
							}
							chunks = append(chunks, all[:k])
							all = all[k:]
						}
					}
					cfgs = append(cfgs, streamCfg{sizes: sizes, chunks: chunks, desc: fmt.Sprintf("%d messages of %d bytes in %d chunks", n, sz, len(chunks))})
					order := []int{0}
					for range chunks {
						order = append(order, 1)
					}
					if third {
						cfgs = append(cfgs, streamCfg{sizes: []int{48}, chunks: [][]byte{c19Msg(2, 0, 48)}, desc: "sizes[48] cuts[]"})
						order = append(order[:1+len(chunks)/2], append([]int{2}, order[1+len(chunks)/2:]...)...)
					}
					order = append(order, 0)
					r.Cases++
					r.Distinct++
					if r.Violation != "" {
						continue
					}
					if v := c19Run(cfgs, order); v != "" {
						var d []string
						for i, c := range cfgs {
							d = append(d, fmt.Sprintf("stream %d: %s", c19Streams[i], c.desc))
						}
						r.Violation = fmt.Sprintf("%s | %s; the burst arrives between the two chunks of stream %d", v, strings.Join(d, "; "), c19Streams[0])
						r.Case = map[string]interface{}{"streams": d, "burst": burst, "cut": cut, "recut": recut, "third": third}
					}
				}
			}
		}
	}
	if r.Sample == "" {
		r.Sample = "bursts of 30..192 messages (30 KB..192 KiB) of one stream between the two chunks of another stream's message"
	}
}

// c19Many: round one - the first message of stream index 0 stalls inside its header while whole
// messages of N other streams arrive (N in {15, 16, 17, 20}: around and beyond the library's
// default of 16 inbound streams), then completes and everything drains. Round two - the second
// message of stream 0 stalls again; a second message arrives on one of the parked streams k and a
// first message on a stream never seen before (in either order); stream 0 completes.
func c19Many(r *SeqResult) {
	saved := c19Streams
	defer func() { c19Streams = saved; r.Capped += c19Capped; c19Capped = 0 }()
	sizes := []int{40, 48, 56, 80}
	for _, N := range []int{15, 16, 17, 20} {
		for _, k := range []int{1, N / 2, N} {
			for _, newFirst := range []bool{false, true} {
				for rot := 0; rot < 4; rot++ {
					c19Streams = nil
					for i := 0; i <= N+1; i++ {
						c19Streams = append(c19Streams, uint16(i))
					}
					a, b := c19Msg(0, 0, 40), c19Msg(0, 1, 40)
					cfgs := []streamCfg{{sizes: []int{40, 40}, chunks: [][]byte{a[:10], a[10:], b[:10], b[10:]}, desc: "sizes[40 40] cuts[10 40 50]"}}
					order := []int{0}
					for i := 1; i <= N; i++ {
						sz := sizes[(i+rot)%4]
						c := streamCfg{sizes: []int{sz}, chunks: [][]byte{c19Msg(i, 0, sz)}, desc: fmt.Sprintf("sizes[%d]", sz)}
						if i == k {
							sz2 := sizes[(i+rot+1)%4]
							c.sizes = append(c.sizes, sz2)
							c.chunks = append(c.chunks, c19Msg(i, 1, sz2))
							c.desc = fmt.Sprintf("sizes[%d %d] cuts[%d]", sz, sz2, sz)
						}
						cfgs = append(cfgs, c)
						order = append(order, i)
					}
					szn := sizes[rot]
					cfgs = append(cfgs, streamCfg{sizes: []int{szn}, chunks: [][]byte{c19Msg(N+1, 0, szn)}, desc: fmt.Sprintf("sizes[%d]", szn)})
					order = append(order, 0, 0)
					if newFirst {
						order = append(order, N+1, k)
					} else {
						order = append(order, k, N+1)
					}
					order = append(order, 0)
					r.Cases++
					r.Distinct++
					if r.Violation != "" {
						continue
					}
					if v := c19Run(cfgs, order); v != "" {
						r.Violation = fmt.Sprintf("%s | %d streams parked behind the stalled first message of stream 0, then stream %d again and the new stream %d behind its stalled second message; chunk arrival order (stream index) %v", v, N, k, N+1, order)
						r.Case = map[string]interface{}{"N": N, "k": k, "newFirst": newFirst, "rot": rot, "order": order}
					}
				}
			}
		}
	}
	if r.Sample == "" {
		r.Sample = "15..20 streams parked behind a stalled message, then a parked stream and a never-seen stream deliver behind the next stalled message"
	}
}

// c19EmptyRead: stream index 0 delivers the first k bytes of its message (k = 1..19 inside the
// header, 20, 30 inside the body), then a read comes back empty - 0 bytes, no error, as a
// non-blocking or interrupted receive does - then a whole message of another stream arrives, then
// the rest of the first one. With and without a second empty read before the rest.
// c19CloseNotify: the histories run while it is set request CloseNotify on the association first
var c19CloseNotify = false

func c19EmptyRead(r *SeqResult) {
	saved := c19Streams
	defer func() { c19Streams = saved; c19CloseNotify = false; r.Capped += c19Capped; c19Capped = 0 }()
	for si, streams := range [][]uint16{{1, 2}, {0, 7}, {9, 0}, {1, 2}} {
		c19Streams = streams
		c19CloseNotify = si == 3 // the fourth pass: the same histories with CloseNotify requested on the association
		for k := 1; k <= 30; k++ {
			if k > 20 && k != 30 {
				continue
			}
			for _, second := range []bool{false, true} {
				for _, szB := range []int{20, 48} {
					a := c19Msg(0, 0, 40)
					chunks := [][]byte{a[:k], {}}
					if second {
						chunks = append(chunks, []byte{})
					}
					chunks = append(chunks, a[k:])
					cfgs := []streamCfg{{sizes: []int{40}, chunks: chunks, desc: fmt.Sprintf("sizes[40] cuts[%d], then an empty read", k)},
						{sizes: []int{szB}, chunks: [][]byte{c19Msg(1, 0, szB)}, desc: fmt.Sprintf("sizes[%d] cuts[]", szB)}}
					order := []int{0, 0, 1}
					if second {
						order = append(order, 0)
					}
					order = append(order, 0)
					r.Cases++
					r.Distinct++
					if r.Violation != "" {
						continue
					}
					if v := c19Run(cfgs, order); v != "" {
						r.Violation = fmt.Sprintf("%s | stream %d: %s; stream %d: %s; chunk arrival order (stream index) %v", v, streams[0], cfgs[0].desc, streams[1], cfgs[1].desc, order)
						r.Case = map[string]interface{}{"streams": streams, "cut": k, "second-empty": second, "order": order}
					}
				}
			}
		}
	}
	if r.Sample == "" {
		r.Sample = "k bytes of one stream's message, an empty read, a whole message of another stream, the rest"
	}
}

// c19LongLived: cumulative volume, not instantaneous size.
func c19LongLived(r *SeqResult) {
	saved := c19Streams
	savedSteps := vs.DefaultMaxSteps
	vs.DefaultMaxSteps = 5000000
	defer func() { c19Streams = saved; vs.DefaultMaxSteps = savedSteps; r.Capped += c19Capped; c19Capped = 0 }()
	c19Streams = []uint16{1, 2}
	const rounds = 72
	big := 1 << 20
	var a, b streamCfg
	var order []int
	for i := 0; i < rounds; i++ {
		ma := c19Msg(0, i, 8192) // (a larger stalled message: the parked megabyte is drained in 8 KiB reads)
		a.sizes = append(a.sizes, 8192)
		a.chunks = append(a.chunks, ma[:20], ma[20:])
		b.sizes = append(b.sizes, big)
		b.chunks = append(b.chunks, c19Msg(1, i, big))
		order = append(order, 0, 1, 0)
	}
	a.desc, b.desc = fmt.Sprintf("%d messages of 8 KiB, each cut after its header", rounds), fmt.Sprintf("%d messages of 1 MiB, each arriving whole between the two chunks of a stream-1 message", rounds)
	r.Cases++
	r.Distinct++
	if v := c19Run([]streamCfg{a, b}, order); v != "" {
		r.Violation = fmt.Sprintf("%s | stream 1: %s; stream 2: %s", v, a.desc, b.desc)
		r.Case = map[string]interface{}{"long-lived": rounds}
	}
	r.Sample = "72 rounds: a 1 MiB message of stream 2 parked behind a stalled 8 KiB message of stream 1"
}
