// Package bcheck holds the Engine B checks: scenarios of the real diam / diam/sm code
// (rebuilt through the scheduler overlay) explored exhaustively by vsched.
package bcheck

import (
	"encoding/json"
	"fmt"
	"io"
	"log"
	"os"
	"os/exec"
	"path/filepath"
	"runtime"
	"runtime/pprof"
	"sort"
	"strings"
	"sync"
	"time"

	"verif/internal/ev"
	vs "verif/vsched"
)

// Scenario is one closed harness around the real code.
type Scenario struct {
	Name     string
	Body     func()
	Check    func(*vs.Sched) string // "" = property holds on this execution
	Outcome  func(*vs.Sched) string // coarse outcome label (vacuity guard)
	Classify func(what string) string
	Horizon  time.Duration
	Bound    int
	Split    bool // shard the level-2 subtrees of this scenario over the workers
	NoCache  bool // cache-validation variant: explored without state caching
	Pair     string // name of the scenario whose outcome/terminal sets must equal this one's (cache validation)
	Weight   int    // scheduling hint: heavier scenarios are started first
	// Seq marks a scenario that is a plain sequential enumeration (no schedules): Body runs
	// once outside the scheduler and reports through SeqResult.
	Seq func(r *SeqResult)
}

// SeqResult is filled by sequential (fault-enumeration) scenarios.
type SeqResult struct {
	Cases     int
	Distinct  int
	Violation string
	Case      interface{}
	Sample    string
	Capped    int // executions that hit the step cap (no verdict from them)
}

// Check is an Engine B property check.
type Check struct {
	Scenarios func(tier string) []*Scenario
	Rule      string
	Assume    []string
	// wall-clock budget in seconds per tier (internal; hitting it clears exhaustive, never fails)
	QuickBudget, ThoroughBudget int
}

var Registry = map[string]*Check{}

func repoRoot() string {
	if r := os.Getenv("VERIF_REPO"); r != "" {
		return r
	}
	return "/repo"
}

// ScenResult is what a worker reports per scenario.
type ScenResult struct {
	Name      string         `json:"name"`
	Execs     int            `json:"execs"`
	Steps     int            `json:"steps"`
	States    int            `json:"states"`
	Pruned    int            `json:"pruned"`
	MaxDepth  int            `json:"maxdepth"`
	Capped    int            `json:"capped"`
	TimedOut  bool           `json:"timedout"`
	Outcomes  map[string]int `json:"outcomes"`
	Terminals []uint64       `json:"terminals,omitempty"`
	Violation string         `json:"violation,omitempty"`
	Choices   []int          `json:"choices,omitempty"`
	SeqCases  int            `json:"seqcases,omitempty"`
	SeqCase   interface{}    `json:"seqcase,omitempty"`
	Sample    string         `json:"sample,omitempty"`
	Bound     int            `json:"bound"`
}

type workerOut struct {
	Results []ScenResult `json:"results"`
}

func budget(c *Check, tier string) time.Duration {
	b := c.QuickBudget
	if tier == "thorough" {
		b = c.ThoroughBudget
	}
	if b == 0 {
		b = 120
		if tier == "thorough" {
			b = 1800
		}
	}
	return time.Duration(b) * time.Second
}

// RunWorker explores this shard's share and writes the results to out.
func RunWorker(id, tier string, shard, nshards int, out string) {
	log.SetOutput(io.Discard)
	c := Registry[id]
	deadline := time.Now().Add(budget(c, tier))
	if pf := os.Getenv("VERIF_CPUPROF"); pf != "" && shard == 0 {
		if f, err := os.Create(pf); err == nil {
			pprof.StartCPUProfile(f)
			defer pprof.StopCPUProfile()
		}
	}
	var res workerOut
	claimDir := os.Getenv("VERIF_CLAIMDIR")
	mine := func(i int) bool {
		if claimDir == "" {
			return i%nshards == shard
		}
		// dynamic distribution: the first worker to create the claim file owns the scenario
		f, err := os.OpenFile(filepath.Join(claimDir, fmt.Sprintf("s%d", i)), os.O_CREATE|os.O_EXCL|os.O_WRONLY, 0o644)
		if err != nil {
			return false
		}
		f.Close()
		return true
	}
	scs := c.Scenarios(tier)
	// heavier scenarios first (Weight is a hint; ties keep the declared order)
	order := make([]int, len(scs))
	for i := range order {
		order[i] = i
	}
	sort.SliceStable(order, func(a, b int) bool { return scs[order[a]].Weight > scs[order[b]].Weight })
	only := os.Getenv("VERIF_ONLY") // debugging aid: restrict a run to the scenarios whose name contains this
	for _, i := range order {
		sc := scs[i]
		if only != "" && !strings.Contains(sc.Name, only) {
			continue
		}
		if sc.Seq != nil {
			if !mine(i) {
				continue
			}
			var r SeqResult
			func() {
				defer func() {
					if p := recover(); p != nil && r.Violation == "" {
						r.Violation = fmt.Sprintf("PANIC in the library during sequential scenario %s after %d cases: %v", sc.Name, r.Cases, p)
					}
				}()
				sc.Seq(&r)
			}()
			res.Results = append(res.Results, ScenResult{Name: sc.Name, Execs: r.Cases, States: r.Distinct, Steps: r.Cases, SeqCases: r.Cases, Capped: r.Capped,
				Violation: r.Violation, SeqCase: r.Case, Sample: r.Sample, Outcomes: map[string]int{}})
			continue
		}
		if !sc.Split && !mine(i) {
			continue
		}
		e := &vs.Explorer{Bound: sc.Bound, Horizon: sc.Horizon, Body: sc.Body, Check: sc.Check, Outcome: sc.Outcome, NoCache: sc.NoCache, Deadline: deadline}
		if sc.Split {
			e.Shard, e.NShards = shard, nshards
		}
		e.Run()
		r := ScenResult{Name: sc.Name, Execs: e.Execs, Steps: e.Steps, States: e.States, Pruned: e.Pruned, MaxDepth: e.MaxDepth,
			Capped: e.Capped, TimedOut: e.TimedOut, Outcomes: e.Outcomes, Violation: e.Violation, Choices: e.VChoices, Bound: sc.Bound}
		if sc.Pair != "" || sc.NoCache {
			for t := range e.Terminal {
				r.Terminals = append(r.Terminals, t)
			}
		}
		res.Results = append(res.Results, r)
	}
	js, err := json.Marshal(res)
	if err != nil {
		ev.Infra("worker: %v", err)
	}
	if err := os.WriteFile(out, js, 0o644); err != nil {
		ev.Infra("worker: %v", err)
	}
}

func findScenario(c *Check, name string) *Scenario {
	for _, tier := range []string{"quick", "thorough"} {
		for _, sc := range c.Scenarios(tier) {
			if sc.Name == name {
				return sc
			}
		}
	}
	return nil
}

// BReplay is the replay artefact of an Engine B violation.
type BReplay struct {
	Scenario string      `json:"scenario"`
	Bound    int         `json:"bound"`
	Choices  []int       `json:"choices,omitempty"`
	SeqCase  interface{} `json:"seqcase,omitempty"`
	Trace    []string    `json:"trace,omitempty"`
}

// replayOnce runs a recorded schedule and returns (verdict, trace).
func replayOnce(sc *Scenario, choices []int) (string, []string, string) {
	s := vs.Replay(choices, sc.Horizon, sc.Bound >= vs.Unbounded, sc.Body)
	v := sc.Check(s)
	tr := append([]string{}, s.Trace...)
	div := s.Diverged
	s.Teardown()
	return v, tr, div
}

// RunParent spawns the workers, merges their results, confirms violations by replay and
// writes evidence.
func RunParent(ctx *ev.Ctx) {
	log.SetOutput(io.Discard)
	c := Registry[ctx.ID]
	_ = c.Scenarios(ctx.Tier)
	n := runtime.NumCPU()
	if n > 16 {
		n = 16
	}
	dir, err := os.MkdirTemp("", "verifb-"+ctx.ID+"-")
	if err != nil {
		ev.Infra("%v", err)
	}
	defer os.RemoveAll(dir)
	outs := make([]workerOut, n)
	errs := make([]error, n)
	var wg sync.WaitGroup
	for i := 0; i < n; i++ {
		wg.Add(1)
		go func(i int) {
			defer wg.Done()
			o := filepath.Join(dir, fmt.Sprintf("w%d.json", i))
			cmd := exec.Command(os.Args[0], ctx.ID, "--tier", ctx.Tier, "--shard", fmt.Sprintf("%d/%d", i, n), "--out", o)
			cmd.Env = append(os.Environ(), "GOMAXPROCS=1", "VERIF_CLAIMDIR="+dir)
			cmd.Stderr = os.Stderr
			cmd.Stdout = os.Stderr
			if err := cmd.Run(); err != nil {
				errs[i] = fmt.Errorf("worker %d: %v", i, err)
				return
			}
			b, err := os.ReadFile(o)
			if err != nil {
				errs[i] = err
				return
			}
			errs[i] = json.Unmarshal(b, &outs[i])
		}(i)
	}
	wg.Wait()
	for _, e := range errs {
		if e != nil {
			os.RemoveAll(dir)
			ev.Infra("%v", e)
		}
	}
	// merge per scenario
	type agg struct {
		ScenResult
		terms map[uint64]bool
	}
	merged := map[string]*agg{}
	var order []string
	for _, o := range outs {
		for _, r := range o.Results {
			a := merged[r.Name]
			if a == nil {
				a = &agg{terms: map[uint64]bool{}}
				a.Name = r.Name
				a.Outcomes = map[string]int{}
				a.Bound = r.Bound
				merged[r.Name] = a
				order = append(order, r.Name)
			}
			a.Execs += r.Execs
			a.Steps += r.Steps
			a.States += r.States
			a.Pruned += r.Pruned
			a.Capped += r.Capped
			a.SeqCases += r.SeqCases
			if r.MaxDepth > a.MaxDepth {
				a.MaxDepth = r.MaxDepth
			}
			a.TimedOut = a.TimedOut || r.TimedOut
			for k, v := range r.Outcomes {
				a.Outcomes[k] += v
			}
			for _, t := range r.Terminals {
				a.terms[t] = true
			}
			if r.Violation != "" && (a.Violation == "" || len(r.Choices) < len(a.Choices)) {
				a.Violation, a.Choices, a.SeqCase = r.Violation, r.Choices, r.SeqCase
			}
			if a.Sample == "" {
				a.Sample = r.Sample
			}
		}
	}
	sort.Strings(order)
	var perScen []map[string]interface{}
	totalOutcomes := 0
	minOutcomes := -1
	for _, name := range order {
		a := merged[name]
		sc := findScenario(c, name)
		ctx.AddMC(int64(a.States), int64(a.Steps), int64(a.Execs))
		ctx.AddEvals(int64(a.Execs), int64(a.States))
		if a.TimedOut {
			ctx.Cap(fmt.Sprintf("scenario %s: time budget reached after %d executions (bound %s not completed)", name, a.Execs, boundStr(a.Bound)))
		}
		if a.Capped > 0 {
			ctx.Cap(fmt.Sprintf("scenario %s: %d executions hit the step cap", name, a.Capped))
		}
		if sc != nil && sc.Seq == nil {
			totalOutcomes += len(a.Outcomes)
			if minOutcomes < 0 || len(a.Outcomes) < minOutcomes {
				minOutcomes = len(a.Outcomes)
			}
		}
		if len(perScen) < 400 {
			perScen = append(perScen, map[string]interface{}{"scenario": name, "executions": a.Execs, "states": a.States, "transitions": a.Steps,
				"pruned": a.Pruned, "max_depth": a.MaxDepth, "bound": boundStr(a.Bound), "outcomes": len(a.Outcomes), "completed": !a.TimedOut})
		}
		if a.Violation == "" {
			continue
		}
		if sc == nil {
			ev.Infra("violation in unknown scenario %s", name)
		}
		class := ""
		if sc.Classify != nil {
			class = sc.Classify(a.Violation)
		}
		rep := BReplay{Scenario: name, Bound: a.Bound, Choices: a.Choices, SeqCase: a.SeqCase}
		detail := a.Violation
		if sc.Seq == nil {
			// confirm: the same schedule must fail identically twice more
			v1, tr1, d1 := replayOnce(sc, a.Choices)
			v2, tr2, d2 := replayOnce(sc, a.Choices)
			if d1 != "" || d2 != "" || v1 != v2 || strings.Join(tr1, "\n") != strings.Join(tr2, "\n") {
				ev.Infra("scenario %s: replay of the violating schedule is not deterministic (%q vs %q, divergence %q %q)", name, v1, v2, d1, d2)
			}
			if v1 == "" {
				ev.Infra("scenario %s: violating schedule does not fail on replay (worker said: %s)", name, a.Violation)
			}
			rep.Trace = tr1
			detail = v1 + fmt.Sprintf(" | scenario %s, schedule of %d choices, bound %s", name, len(a.Choices), boundStr(a.Bound))
		} else {
			detail += " | scenario " + name
		}
		ctx.Report(class, generalise(a.Violation), detail, rep)
	}
	// cache validation: paired scenarios must have equal outcome and terminal-state sets
	var cacheVal []string
	for _, name := range order {
		sc := findScenario(c, name)
		if sc == nil || sc.Pair == "" {
			continue
		}
		a, b := merged[name], merged[sc.Pair]
		if a == nil || b == nil || a.Violation != "" || b.Violation != "" || a.TimedOut || b.TimedOut {
			continue
		}
		if !sameKeys(a.Outcomes, b.Outcomes) || !sameSet(a.terms, b.terms) {
			ev.Infra("state-caching validation failed: scenario %s (cached: %d outcomes, %d terminal states) and %s (uncached: %d outcomes, %d terminal states) disagree",
				name, len(a.Outcomes), len(a.terms), sc.Pair, len(b.Outcomes), len(b.terms))
		}
		cacheVal = append(cacheVal, fmt.Sprintf("%s vs %s: %d outcomes and %d terminal states identical with and without state caching (%d vs %d executions)",
			name, sc.Pair, len(a.Outcomes), len(a.terms), a.Execs, b.Execs))
		ctx.Set("cache_validation", strings.Join(cacheVal, "; "))
	}
	for _, name := range order {
		a := merged[name]
		if len(a.Outcomes) > 0 {
			var ks []string
			for k, v := range a.Outcomes {
				ks = append(ks, fmt.Sprintf("%s (x%d)", k, v))
			}
			sort.Strings(ks)
			if len(ks) > 6 {
				ks = ks[:6]
			}
			ctx.Sample(map[string]interface{}{"scenario": name, "executions": a.Execs, "bound": boundStr(a.Bound), "outcomes_observed": ks})
		} else if a.Sample != "" {
			ctx.Sample(map[string]interface{}{"scenario": name, "cases": a.SeqCases, "sample": a.Sample})
		}
	}
	ctx.Set("scenarios", len(order))
	ctx.Set("per_scenario", perScen)
	ctx.Set("distinct_outcomes_total", totalOutcomes)
	ctx.Set("min_outcomes_per_scenario", minOutcomes)
	ctx.Rule = c.Rule
	ctx.Assume = c.Assume
	os.RemoveAll(dir)
	ctx.Finish()
}

func boundStr(b int) string {
	if b >= vs.Unbounded {
		return "unbounded"
	}
	return fmt.Sprint(b)
}

func sameKeys(a, b map[string]int) bool {
	if len(a) != len(b) {
		return false
	}
	for k := range a {
		if _, ok := b[k]; !ok {
			return false
		}
	}
	return true
}

func sameSet(a, b map[uint64]bool) bool {
	if len(a) != len(b) {
		return false
	}
	for k := range a {
		if !b[k] {
			return false
		}
	}
	return true
}

// RunReplay re-executes a recorded case and prints the trace.
func RunReplay(ctx *ev.Ctx, raw json.RawMessage) string {
	log.SetOutput(io.Discard)
	var r BReplay
	if err := json.Unmarshal(raw, &r); err != nil {
		ev.Infra("replay: %v", err)
	}
	sc := findScenario(Registry[ctx.ID], r.Scenario)
	if sc == nil {
		ev.Infra("replay: unknown scenario %q", r.Scenario)
	}
	if sc.Seq != nil {
		var res SeqResult
		sc.Seq(&res)
		return res.Violation
	}
	sc.Bound = r.Bound
	v, tr, div := replayOnce(sc, r.Choices)
	if div != "" {
		return "replay diverged: " + div
	}
	for _, l := range tr {
		fmt.Println("    " + l)
	}
	return v
}

func generalise(s string) string {
	out := make([]byte, 0, len(s))
	inNum := false
	for i := 0; i < len(s); i++ {
		ch := s[i]
		isHex := (ch >= '0' && ch <= '9') || (inNum && ((ch >= 'a' && ch <= 'f') || ch == 'x'))
		if isHex {
			if !inNum {
				out = append(out, '#')
				inNum = true
			}
			continue
		}
		inNum = false
		out = append(out, ch)
	}
	if len(out) > 200 {
		out = out[:200]
	}
	return string(out)
}
