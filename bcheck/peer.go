package bcheck

import (
	"verif/internal/refcodec"
	"verif/vnet"
	vs "verif/vsched"
)

// Peer is the scripted remote end of a vnet.Conn. It parses what the library wrote with the
// reference codec only (no library code runs on the peer's side).
type Peer struct {
	C   *vnet.Conn
	off int
}

// PMsg is a message as the peer sees it.
type PMsg struct {
	Hdr  refcodec.Header
	Raw  []byte
	AVPs []refcodec.Rec
	At   int64 // virtual time (ns) at which the last byte was written
}

// Next blocks until the library has written another complete message (nil if the
// transport was closed first).
func (p *Peer) Next() *PMsg {
	if !p.C.WaitOut(p.off + 20) {
		return nil
	}
	h, _ := refcodec.DecodeHeader(p.C.Out[p.off:])
	l := int(h.Length)
	if l < 20 {
		vs.Event("peer: library wrote a header with length %d", l)
		return nil
	}
	if !p.C.WaitOut(p.off + l) {
		return nil
	}
	raw := append([]byte{}, p.C.Out[p.off:p.off+l]...)
	p.off += l
	recs, _, _ := refcodec.Frame(raw[20:], func(code, vendor uint32, v bool) bool { return code == 260 || code == 279 })
	return &PMsg{Hdr: h, Raw: raw, AVPs: recs, At: int64(vs.Now())}
}

func peerReadMsg(c *vnet.Conn, off int) *PMsg {
	p := &Peer{C: c, off: off}
	return p.Next()
}

func (m *PMsg) Find(code uint32) *refcodec.Rec {
	for i := range m.AVPs {
		if m.AVPs[i].Code == code {
			return &m.AVPs[i]
		}
	}
	return nil
}

func (m *PMsg) FindAll(code uint32) []refcodec.Rec {
	var out []refcodec.Rec
	for _, r := range m.AVPs {
		if r.Code == code {
			out = append(out, r)
		}
	}
	return out
}

func ident(code uint32, s string) refcodec.Node {
	return refcodec.Node{Code: code, Flags: 0x40, Payload: []byte(s)}
}

func u32avp(code uint32, v uint32) refcodec.Node {
	return refcodec.Node{Code: code, Flags: 0x40, Payload: refcodec.U32(v)}
}

// peerAnswer builds an answer to req with the given Result-Code. For a CER the answer is a
// CEA; withApp adds Auth-Application-Id 4.
func peerAnswer(req *PMsg, rc uint32, withApp bool) []byte {
	return peerAnswerOpt(req, rc, withApp, true, true)
}

func peerAnswerOpt(req *PMsg, rc uint32, withApp, withHost, withRC bool) []byte {
	h := req.Hdr
	h.Flags &^= 0x80
	var avps []refcodec.Node
	if withRC {
		avps = append(avps, u32avp(268, rc))
	}
	if withHost {
		avps = append(avps, ident(264, "srv"))
	}
	avps = append(avps, ident(296, "test"))
	if h.Code == 257 {
		avps = append(avps, refcodec.Node{Code: 257, Flags: 0x40, Payload: refcodec.Address(1, []byte{10, 0, 0, 1})},
			u32avp(266, 13), refcodec.Node{Code: 269, Payload: []byte("peer")})
		if withApp {
			avps = append(avps, u32avp(258, 4))
		}
	}
	return refcodec.EncodeMessage(h, avps)
}
