package checks

import (
	"bytes"
	"encoding/json"
	"fmt"
	"strings"

	"github.com/fiorix/go-diameter/v4/diam"
	"github.com/fiorix/go-diameter/v4/diam/datatype"
	"github.com/fiorix/go-diameter/v4/diam/dict"
	"verif/internal/atoms"
	"verif/internal/ev"
	"verif/internal/refcodec"
)

// C01 — messages survive a wire round trip in both directions.

func init() {
	Registry["C01"] = &Check{Run: runC01, Replay: replayC01, Sharded: true}
}

// c01Eval runs both directions for one case and returns "" or a description.
// c01Spy wraps the value of an AVP; the first time it is asked for its bytes it runs f (a second
// serialisation of the same message, standing for another goroutine at that point).
type c01Spy struct {
	inner datatype.Type
	f     func()
	fired bool
}

func (s *c01Spy) Serialize() []byte {
	if !s.fired {
		s.fired = true
		s.f()
	}
	return s.inner.Serialize()
}
func (s *c01Spy) Len() int              { return s.inner.Len() }
func (s *c01Spy) Padding() int          { return s.inner.Padding() }
func (s *c01Spy) Type() datatype.TypeID { return s.inner.Type() }
func (s *c01Spy) String() string        { return s.inner.String() }

func c01Eval(c *Config, t TreeCase) string {
	return safely(func() string {
		// direction 1: API -> wire -> API -> wire
		atoms.ResetGuards()
		m := BuildMsg(c, t.Hdr, t.Tree)
		b1, err := m.Serialize()
		if err != nil {
			return "api: Serialize failed: " + err.Error()
		}
		if s := atoms.GuardsIntact(); s != "" {
			return "api: " + s
		}
		if hasGroup(t.Tree) {
			mt := BuildMsgTopDown(c, t.Hdr, t.Tree)
			bt, err := mt.Serialize()
			if err != nil || !bytes.Equal(bt, b1) {
				return fmt.Sprintf("api: the same tree assembled top-down (grouped AVP created with NewAVP around an empty group, members added afterwards) serialises differently at byte %d (err %v)", firstDiff(bt, b1), err)
			}
			if _, err := diam.ReadMessage(bytes.NewReader(bt), c.A.D.P); err != nil {
				return "api: a message assembled top-down cannot be read back: " + err.Error()
			}
		}
		// the same message serialised by TWO callers at once (one notification fanned out to several
		// peers, a retransmission racing the first send): serialising only reads the message, so a
		// second serialisation that runs while the first is in the middle of its walk - here: inside
		// the Serialize() of the first AVP's value - changes nothing for either
		if len(m.AVP) > 0 {
			var nested []byte
			var nerr error
			inner := m.AVP[0].Data
			spy := &c01Spy{inner: inner}
			spy.f = func() { nested, nerr = m.Serialize() }
			m.AVP[0].Data = spy
			outer, oerr := m.Serialize()
			m.AVP[0].Data = inner
			switch {
			case !spy.fired:
				// the value was not asked for its bytes: nothing overlapped
			case oerr != nil || nerr != nil:
				return fmt.Sprintf("api: two overlapping serialisations of one message failed: %v / %v", oerr, nerr)
			case !bytes.Equal(outer, b1) || !bytes.Equal(nested, b1):
				return fmt.Sprintf("api: two overlapping serialisations of one message: the outer one differs from the message's wire image at byte %d, the one nested inside it at byte %d", firstDiff(outer, b1), firstDiff(nested, b1))
			case int(m.Header.MessageLength) != len(b1):
				return fmt.Sprintf("api: after two overlapping serialisations the message's Header.MessageLength is %d, its wire image has %d bytes", m.Header.MessageLength, len(b1))
			}
		}
		m2, err := diam.ReadMessage(bytes.NewReader(b1), c.A.D.P)
		if err != nil {
			return "api: a message built through the API cannot be read back: " + err.Error()
		}
		if s := CompareHeader(m2.Header, t.Hdr, len(b1)); s != "" {
			return "api: header after round trip: " + s
		}
		if s := CompareTree(m2.AVP, t.Tree, "avp"); s != "" {
			return "api: tree after round trip: " + s
		}
		b2, err := m2.Serialize()
		if err != nil {
			return "api: second Serialize failed: " + err.Error()
		}
		if !bytes.Equal(b1, b2) {
			return fmt.Sprintf("api: re-serialisation differs: first %x second %x", b1, b2)
		}
		if wb, err := WireViaWriteTo(m2); err != nil || !bytes.Equal(wb, b1) {
			return fmt.Sprintf("api: bytes written by WriteTo (after an unrelated write reused the serialisation buffer) differ from Serialize() at byte %d (err %v)", firstDiff(wb, b1), err)
		}
		// direction 2: reference wire image -> API -> wire
		w := refcodec.EncodeMessage(t.Hdr, atoms.RefNodes(t.Tree))
		m3, err := diam.ReadMessage(bytes.NewReader(w), c.A.D.P)
		if err != nil {
			return "wire: a well-formed message cannot be read: " + err.Error()
		}
		b3, err := m3.Serialize()
		if err != nil {
			return "wire: Serialize failed: " + err.Error()
		}
		if !bytes.Equal(w, b3) {
			return fmt.Sprintf("wire: read+serialise does not reproduce the bytes: in %x out %x", w, b3)
		}
		// the same read overlapping with a read on another source, after an oversize message
		if len(w) > 20 {
			m4, err := ReadOverlapped(w, c.A.D.P)
			if err != nil {
				return "wire: a well-formed message cannot be read while another source is being read: " + err.Error()
			}
			b4, err := m4.Serialize()
			if err != nil || !bytes.Equal(w, b4) {
				return fmt.Sprintf("wire: read (overlapping with a read from another source, after an oversize message) + serialise does not reproduce the bytes at byte %d (err %v)", firstDiff(b4, w), err)
			}
		}
		return ""
	})
}

// c01Class gives the narrow class of a failing single-AVP case ("" if not classifiable).
func c01Class(t TreeCase, what string) string {
	leaves := flatten(t.Tree)
	if len(leaves) != 1 || len(t.Tree) != 1 {
		return "" // only a minimal single-AVP case can be a listed finding
	}
	// classify by the first leaf that fails on its own
	for _, n := range leaves {
		if n.V.K != atoms.KAddr {
			continue
		}
		tot := 2 + len(n.V.S)
		switch {
		case n.V.Fam == 2 && len(n.V.S) == 16 && isV4Mapped(n.V.S):
			return "address-ipv4-mapped-ipv6-reserialised-as-ipv4"
		case n.V.Fam != 1 && n.V.Fam != 2 && tot == 4:
			return "address-other-family-total-length-4-reserialised-as-ipv4"
		case n.V.Fam != 1 && n.V.Fam != 2 && tot == 16:
			return "address-other-family-total-length-16-reserialised-as-ipv6"
		}
	}
	return ""
}

func isV4Mapped(b []byte) bool {
	for i := 0; i < 10; i++ {
		if b[i] != 0 {
			return false
		}
	}
	return b[10] == 0xff && b[11] == 0xff
}

func flatten(t []atoms.N) []atoms.N {
	var out []atoms.N
	for _, n := range t {
		if n.V.K == atoms.KGroup {
			out = append(out, flatten(n.Kids)...)
		} else {
			out = append(out, n)
		}
	}
	return out
}

// minimise drops AVPs (and unwraps groups) while the case keeps failing.
func minimise(c *Config, t TreeCase, eval func(*Config, TreeCase) string) TreeCase {
	for changed := true; changed; {
		changed = false
		for i := range t.Tree {
			// drop element i
			nt := t
			nt.Tree = append(append([]atoms.N{}, t.Tree[:i]...), t.Tree[i+1:]...)
			if eval(c, nt) != "" {
				t, changed = nt, true
				break
			}
			// replace a group by its children
			if t.Tree[i].V.K == atoms.KGroup {
				nt = t
				nt.Tree = append(append(append([]atoms.N{}, t.Tree[:i]...), t.Tree[i].Kids...), t.Tree[i+1:]...)
				if eval(c, nt) != "" {
					t, changed = nt, true
					break
				}
			}
		}
	}
	return t
}

func runC01(ctx *ev.Ctx) {
	n := 0
	ctx.Rule = EnumTrees(ctx, func(c *Config, t TreeCase) {
		if ctx.Stop() {
			return
		}
		ctx.Eval(t.Key())
		if n%50000 == 0 {
			ctx.Sample(t.Desc())
		}
		n++
		if what := c01Eval(c, t); what != "" {
			mt := minimise(c, t, c01Eval)
			what = c01Eval(c, mt)
			ctx.Report(c01Class(mt, what), generalise(what), what+" | case: "+mt.Desc(), mt)
		}
	})
	// a dictionary that grows after first use: the parser first decodes the AVPs while they are
	// still undefined (opaque), then the dictionary defining them is loaded, then the round trip runs
	if c := ConfigByName("generated/app0"); c != nil && ctx.Mine() {
		_, mid, _ := c.Atoms(false)
		p, err := dict.NewParser()
		if err != nil {
			ev.Infra("%v", err)
		}
		stub := `<?xml version="1.0" encoding="UTF-8"?><diameter><application id="0" name="Gen"><command code="777" short="GT" name="Gen-Test"><request><rule avp="Stub-Note" required="false"/></request><answer><rule avp="Stub-Note" required="false"/></answer></command><avp name="Stub-Note" code="79999" must="-" may="P" must-not="V" may-encrypt="-"><data type="UTF8String"/></avp></application></diameter>`
		if err := p.Load(strings.NewReader(stub)); err != nil {
			ev.Infra("stub dictionary: %v", err)
		}
		hd := c.Headers(1)[0]
		for _, a := range mid {
			w := refcodec.EncodeMessage(hd, atoms.RefNodes([]atoms.N{a}))
			if _, err := diam.ReadMessage(bytes.NewReader(w), p); err != nil {
				ctx.Report("", "a message with a not yet defined AVP cannot be read", "a message with a not yet defined AVP cannot be read: "+err.Error()+" | "+a.Desc(), nil)
			}
		}
		for _, x := range c.A.D.XMLs {
			// the command is already defined by the stub: load the AVP definitions only
			var kept []string
			for _, l := range strings.Split(x, "\n") {
				if !strings.HasPrefix(strings.TrimSpace(l), "<command ") {
					kept = append(kept, l)
				}
			}
			if err := p.Load(strings.NewReader(strings.Join(kept, "\n"))); err != nil {
				ev.Infra("generated dictionary: %v", err)
			}
		}
		a2, d2 := *c.A, *c.A.D
		d2.P = p
		a2.D = &d2
		c2 := &Config{Name: c.Name, A: &a2}
		for _, a := range mid {
			t := TreeCase{Config: c.Name, Hdr: hd, Tree: []atoms.N{a}, Note: "dictionary loaded after the parser had decoded this AVP as undefined"}
			ctx.Eval(ev.Mix(t.Key(), 77))
			if what := c01Eval(c2, t); what != "" {
				ctx.Report("", generalise(what), "the dictionary defining the AVP was loaded after the parser had already decoded it as undefined: "+what+" | case: "+t.Desc(), t)
			}
		}
	}
	// AVPs beyond 64 KiB (far below the 24-bit limit): one leaf, one group whose small members add up
	for _, name := range []string{"default/app4", "generated/app0"} {
		c := ConfigByName(name)
		if c == nil || !ctx.Mine() {
			continue
		}
		oct, ok := c.A.Plain[atoms.KOctet]
		if !ok || len(c.A.Groups) == 0 {
			continue
		}
		hd := c.Headers(1)[0]
		leaf := func(n int, fill byte) atoms.N {
			return atoms.N{Code: oct.Code, Flags: mflag(oct.Must), V: atoms.Val{K: atoms.KOctet, S: bytes.Repeat([]byte{fill}, n)}}
		}
		var members []atoms.N
		for i := 0; i < 70; i++ {
			members = append(members, leaf(1000+i%3, byte(i)))
		}
		for _, tree := range [][]atoms.N{{leaf(65527, 1)}, {leaf(65528, 2)}, {leaf(70001, 3), leaf(5, 4)}, {c.groupNode(0, members), leaf(3, 5)}} {
			t := TreeCase{Config: name, Hdr: hd, Tree: tree, Note: "AVP longer than 64 KiB"}
			ctx.Eval(ev.Mix(t.Key(), 78))
			if what := c01Eval(c, t); what != "" {
				if len(what) > 600 {
					what = what[:600] + "..."
				}
				ctx.Report("", generalise(what), what+" | case: "+name+" "+t.Note, nil)
			}
		}
	}
	ctx.Rule += " Every assembled message is also serialised by two callers at once: a second Serialize of the same message runs inside the Serialize() of its first AVP's value; both results and Header.MessageLength must be the message's wire image."
	ctx.Rule += " Four trees per configuration carry AVPs longer than 64 KiB (a leaf of 65527 / 65528 / 70001 bytes, a group of 70 members of about 1 KB)."
	ctx.Rule += " One configuration is also exercised with a dictionary that grows after first use: the parser decodes every AVP of the alphabet while it is still undefined, the defining dictionary is loaded, then the round trips run on that parser."
	ctx.Rule += " Every case is written with WriteTo into a destination that, before it consumes the bytes, lets another message pass through WriteTo on another writer; and every wire image is read a second time overlapping with a complete read from another source (nested inside the reader's third Read call, i.e. after the header and half of the body), after a message too large for the pooled read buffer has been read."
	ctx.Assume = []string{"refcodec (independent RFC 6733 encoder) is correct; it has its own self-test", "values are drawn from finite boundary-first alphabets per data type; nothing outside them is claimed"}
}

func replayC01(ctx *ev.Ctx, raw json.RawMessage) string {
	var t TreeCase
	if err := json.Unmarshal(raw, &t); err != nil {
		ev.Infra("replay: %v", err)
	}
	c := ConfigByName(t.Config)
	if c == nil {
		ev.Infra("replay: unknown configuration %q", t.Config)
	}
	fmt.Println("  case:", t.Desc())
	return c01Eval(c, t)
}
