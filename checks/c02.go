package checks

import (
	"github.com/fiorix/go-diameter/v4/diam/dict"
	"bytes"
	"encoding/json"
	"fmt"
	"math"
	"net"
	"runtime"
	"sync"
	"time"

	"github.com/fiorix/go-diameter/v4/diam"
	"github.com/fiorix/go-diameter/v4/diam/datatype"
	"verif/internal/atoms"
	"verif/internal/ev"
	"verif/internal/refcodec"
)

// C02 — wire images match the RFC 6733 layout of an independent reference codec.

func init() {
	Registry["C02"] = &Check{Run: runC02, Replay: replayC02, Sharded: true, Parent: c02Sweeps}
}

func c02Eval(c *Config, t TreeCase) string {
	return safely(func() string {
		atoms.ResetGuards()
		m := BuildMsg(c, t.Hdr, t.Tree)
		got, err := m.Serialize()
		if err != nil {
			return "Serialize failed: " + err.Error()
		}
		want := refcodec.EncodeMessage(t.Hdr, atoms.RefNodes(t.Tree))
		if s := atoms.GuardsIntact(); s != "" {
			return "Serialize: " + s
		}
		if hasGroup(t.Tree) {
			// the other order of steps: grouped AVPs created first, members added afterwards
			mt := BuildMsgTopDown(c, t.Hdr, t.Tree)
			gt, err := mt.Serialize()
			if err != nil || !bytes.Equal(gt, want) || int(mt.Header.MessageLength) != len(want) {
				return fmt.Sprintf("grouped AVPs created with NewAVP around an empty group and filled afterwards: wire image differs from the reference encoding at byte %d (err %v, Header.MessageLength %d, reference %d bytes)", firstDiff(gt, want), err, mt.Header.MessageLength, len(want))
			}
		}
		if int(m.Header.MessageLength) != len(got) {
			return fmt.Sprintf("Header.MessageLength %d but %d bytes serialised", m.Header.MessageLength, len(got))
		}
		if !bytes.Equal(got, want) {
			return fmt.Sprintf("wire image differs from the reference encoding at byte %d: library %x reference %x", firstDiff(got, want), got, want)
		}
		// the exported SerializeTo with a destination larger than the message (a reusable scratch
		// buffer), pre-filled with 0xFF
		for _, extra := range []int{0, 1, 4, 100} {
			buf := bytes.Repeat([]byte{0xff}, len(want)+extra)
			if err := m.SerializeTo(buf); err != nil {
				return "SerializeTo failed: " + err.Error()
			}
			if !bytes.Equal(buf[:len(want)], want) {
				return fmt.Sprintf("SerializeTo into a buffer %d bytes longer than the message differs from the reference encoding at byte %d", extra, firstDiff(buf[:len(want)], want))
			}
			if int(m.Header.MessageLength) != len(want) {
				return fmt.Sprintf("after SerializeTo into a buffer %d bytes longer than the message Header.MessageLength is %d, the message has %d bytes", extra, m.Header.MessageLength, len(want))
			}
		}
		if wb, err := WireViaWriteTo(m); err != nil || !bytes.Equal(wb, want) {
			return fmt.Sprintf("bytes written by WriteTo (after an unrelated write reused the serialisation buffer) differ from the reference encoding at byte %d (err %v)", firstDiff(wb, want), err)
		}
		if s := atoms.GuardsIntact(); s != "" {
			return "SerializeTo / WriteTo: " + s
		}
		// symmetric direction: typed values read from the reference encoding
		m2, err := diam.ReadMessage(bytes.NewReader(want), c.A.D.P)
		if err != nil {
			return "reference-encoded message cannot be read: " + err.Error()
		}
		if s := CompareHeader(m2.Header, t.Hdr, len(want)); s != "" {
			return "header read from the reference encoding: " + s
		}
		if s := CompareTree(m2.AVP, t.Tree, "avp"); s != "" {
			return "values read from the reference encoding: " + s
		}
		return ""
	})
}

func firstDiff(a, b []byte) int {
	for i := 0; i < len(a) && i < len(b); i++ {
		if a[i] != b[i] {
			return i
		}
	}
	if len(a) < len(b) {
		return len(a)
	}
	return len(b)
}

// ---- operation histories ---------------------------------------------------------

// HistCase is a sequence of assembly operations applied to an empty message.
type HistCase struct {
	Config string
	Ops    []HistOp
}
type HistOp struct {
	Op   string // "new-int" "new-u32" "new-name" "add" "insert" "marshal"
	Atom atoms.N
	Name string
}

func (h HistCase) Desc() string {
	s := h.Config + " ops:"
	for _, o := range h.Ops {
		s += " " + o.Op + "(" + o.Atom.Desc() + ")"
	}
	return s
}

// c02BadMarshal cannot be marshalled: its second field names an AVP no dictionary defines (the
// first field is fine, so the struct walk has already produced an AVP when it fails).
type c02BadMarshal struct {
	OriginHost datatype.DiameterIdentity `avp:"Origin-Host"`
	Nope       uint32                    `avp:"No-Such-AVP-Anywhere"`
}

// c02BadMarshalType cannot be marshalled either: the field type does not fit the AVP's data type.
type c02BadMarshalType struct {
	ResultCode struct{ X int } `avp:"Result-Code"`
}

type c02Marshal struct {
	OriginHost datatype.DiameterIdentity `avp:"Origin-Host"`
	ResultCode uint32                    `avp:"Result-Code"`
}

// histEval applies the operations and checks the length bookkeeping and the reference
// image after every step.
func histEval(c *Config, h HistCase) string {
	return safely(func() string {
		hd := c.Headers(1)[0]
		m := diam.NewMessage(hd.Code, hd.Flags, hd.App, 7, 9, c.A.D.P)
		hd.HbH, hd.E2E = 7, 9
		var model []atoms.N
		for i, o := range h.Ops {
			// a second view of the message as it is BEFORE the operation (a shallow copy with a header
			// of its own - what a forwarder keeps, or a saved m.AVP restored later): the operation must
			// not reach it through the AVP list the two share
			before := *m
			beforeHdr := *m.Header
			before.Header = &beforeHdr
			beforeWant := refcodec.EncodeMessage(hd, atoms.RefNodes(model))
			switch o.Op {
			case "new-int":
				if _, err := m.NewAVP(int(o.Atom.Code), o.Atom.Flags, o.Atom.Vendor, o.Atom.V.Lib()); err != nil {
					return fmt.Sprintf("op %d NewAVP(int): %v", i, err)
				}
				model = append(model, o.Atom)
			case "new-u32":
				if _, err := m.NewAVP(o.Atom.Code, o.Atom.Flags, o.Atom.Vendor, o.Atom.V.Lib()); err != nil {
					return fmt.Sprintf("op %d NewAVP(uint32): %v", i, err)
				}
				model = append(model, o.Atom)
			case "new-name":
				if _, err := m.NewAVP(o.Name, o.Atom.Flags, o.Atom.Vendor, o.Atom.V.Lib()); err != nil {
					return fmt.Sprintf("op %d NewAVP(%q): %v", i, o.Name, err)
				}
				model = append(model, o.Atom)
			case "add":
				m.AddAVP(o.Atom.Lib())
				model = append(model, o.Atom)
			case "insert":
				m.InsertAVP(o.Atom.Lib())
				model = append([]atoms.N{o.Atom}, model...)
			case "marshal-rejected":
				// a Marshal that fails leaves the message as it was (in particular its length)
				if err := m.Marshal(&c02BadMarshal{OriginHost: "x.example", Nope: 1}); err == nil {
					return fmt.Sprintf("op %d: Marshal of a struct naming an undefined AVP succeeded", i)
				}
				_ = m.Marshal(&c02BadMarshalType{})
				_ = m.Marshal(c02Marshal{}) // not a pointer
			case "marshal":
				// Marshal replaces the AVP list by the struct's AVPs
				src := &c02Marshal{OriginHost: "h.example", ResultCode: 2001}
				if err := m.Marshal(src); err != nil {
					return fmt.Sprintf("op %d Marshal: %v", i, err)
				}
				model = []atoms.N{
					{Code: 264, Flags: 0x40, V: atoms.Val{K: atoms.KIdent, S: []byte("h.example")}},
					{Code: 268, Flags: 0x40, V: atoms.Val{K: atoms.KU32, U: 2001}},
				}
			}
			b, err := m.Serialize()
			if err != nil {
				return fmt.Sprintf("after op %d: Serialize: %v", i, err)
			}
			if int(m.Header.MessageLength) != len(b) {
				return fmt.Sprintf("after op %d (%s): Header.MessageLength %d but %d bytes serialised", i, o.Op, m.Header.MessageLength, len(b))
			}
			want := refcodec.EncodeMessage(hd, atoms.RefNodes(model))
			if !bytes.Equal(b, want) {
				return fmt.Sprintf("after op %d (%s): wire image differs from the reference at byte %d: %x vs %x", i, o.Op, firstDiff(b, want), b, want)
			}
			if bb, err := before.Serialize(); err != nil || !bytes.Equal(bb, beforeWant) {
				return fmt.Sprintf("op %d (%s) changed a shallow copy of the message taken before it (the copy shares the AVP list): it now serialises to %x (err %v), before the operation to %x", i, o.Op, bb, err, beforeWant)
			}
		}
		return ""
	})
}

func enumHistories(ctx *ev.Ctx, fn func(*Config, HistCase)) {
	maxLen := 4
	if ctx.Tier == "thorough" {
		maxLen = 5
	}
	c := ConfigByName("default/app0")
	// atoms with payload length mod 4 = 0,1,2,3, with and without vendor id
	base := []atoms.N{
		{Code: 264, Flags: 0x40, V: atoms.Val{K: atoms.KIdent, S: []byte("abcd")}},
		{Code: 264, Flags: 0x40, V: atoms.Val{K: atoms.KIdent, S: []byte("abcde")}},
		{Code: 1, Flags: 0x40, V: atoms.Val{K: atoms.KUTF8, S: []byte("ab")}},
		{Code: 25, Flags: 0x40, V: atoms.Val{K: atoms.KOctet, S: []byte("abc")}},
		{Code: 60002, Flags: 0x80, Vendor: 4242, V: atoms.Val{K: atoms.KUnknown, S: []byte{9}}},
		{Code: 268, Flags: 0x40, V: atoms.Val{K: atoms.KU32, U: 2001}},
		// vendor id without the V flag: NewAVP adds the flag (and the four vendor bytes)
		{Code: 60003, Flags: 0x40, Vendor: 4242, V: atoms.Val{K: atoms.KUnknown, S: []byte{7, 7, 7}}},
	}
	names := map[uint32]string{264: "Origin-Host", 1: "User-Name", 25: "Class", 268: "Result-Code"}
	var ops []HistOp
	for _, a := range base {
		ops = append(ops, HistOp{Op: "add", Atom: a}, HistOp{Op: "insert", Atom: a})
		if a.V.K != atoms.KUnknown {
			ops = append(ops, HistOp{Op: "new-name", Atom: a, Name: names[a.Code]})
		}
	}
	ops = append(ops, HistOp{Op: "new-int", Atom: base[0]}, HistOp{Op: "new-u32", Atom: base[1]}, HistOp{Op: "new-u32", Atom: base[4]}, HistOp{Op: "new-u32", Atom: base[6]},
		HistOp{Op: "marshal"}, HistOp{Op: "marshal-rejected"})
	var rec func(prefix []HistOp)
	rec = func(prefix []HistOp) {
		if len(prefix) > 0 && ctx.Mine() {
			fn(c, HistCase{Config: c.Name, Ops: append([]HistOp{}, prefix...)})
		}
		if len(prefix) == maxLen {
			return
		}
		for _, o := range ops {
			rec(append(prefix, o))
		}
	}
	rec(nil)
}

func runC02(ctx *ev.Ctx) {
	n := 0
	rule := EnumTrees(ctx, func(c *Config, t TreeCase) {
		if ctx.Stop() {
			return
		}
		ctx.Eval(t.Key())
		if n%60000 == 0 {
			ctx.Sample(t.Desc())
		}
		n++
		if what := c02Eval(c, t); what != "" {
			mt := minimise(c, t, c02Eval)
			what = c02Eval(c, mt)
			ctx.Report(c01Class(mt, what), generalise(what), what+" | case: "+mt.Desc(), map[string]interface{}{"tree": mt})
		}
	})
	// Time values with a sub-second part: the wire carries the whole seconds (the fraction is
	// dropped, never rounded), for every value of the alphabet's seconds x six fractions
	if ctx.Mine() {
		for _, sec := range []int64{-2208988800, -1, 0, 1, 1700000000, 2085978495, 2085978496, 4294967295 - 2208988800, 3000000000} {
			for _, ns := range []int64{0, 1, 499999999, 500000000, 750000000, 999999999} {
				t := time.Unix(sec, ns)
				ctx.Eval(ev.Mix(0x71AE, uint64(sec), uint64(ns)))
				want := refcodec.U32(uint32(uint64(sec+2208988800) & 0xffffffff))
				got := datatype.Time(t).Serialize()
				if !bytes.Equal(got, want) {
					what := fmt.Sprintf("Time %s (Unix %d s + %d ns) is encoded as %x, the whole-seconds NTP value is %x", t.UTC().Format(time.RFC3339Nano), sec, ns, got, want)
					ctx.Report("", generalise(what), what, nil)
				}
				m := diam.NewMessage(271, 0x80, 3, 1, 1, dict.Default)
				m.NewAVP(55, 0x40, 0, datatype.Time(t)) // Event-Timestamp
				b, _ := m.Serialize()
				if len(b) != 32 || !bytes.Equal(b[28:32], want) {
					what := fmt.Sprintf("a message carrying Time %s serialises its Event-Timestamp as %x, the reference encoding is %x", t.UTC().Format(time.RFC3339Nano), b[len(b)-4:], want)
					ctx.Report("", generalise(what), what, nil)
				}
			}
		}
	}
	// decode - edit the decoded message - decode another message: what the first receiver does with
	// its message (members added to a decoded group, a member-less one in particular; AVPs appended;
	// values overwritten) must not show in a message decoded afterwards
	for _, name := range []string{"default/app4", "generated/app0", "base/app0"} {
		c := ConfigByName(name)
		if c == nil || len(c.A.Groups) < 2 || !ctx.Mine() {
			continue
		}
		_, _, core := c.Atoms(false)
		hd := c.Headers(1)[0]
		trees := [][]atoms.N{
			{c.groupNode(0, nil)},
			{c.groupNode(0, []atoms.N{c.groupNode(1, nil)})},
			{core[0], c.groupNode(1, nil), c.groupNode(0, nil)},
			{c.groupNode(0, []atoms.N{core[0]})},
		}
		for ti, tree := range trees {
			w := refcodec.EncodeMessage(hd, atoms.RefNodes(tree))
			ctx.Eval(ev.Mix(ev.HS(name), 0xED17, uint64(ti)))
			what := safely(func() string {
				m1, err := diam.ReadMessage(bytes.NewReader(w), c.A.D.P)
				if err != nil {
					return "first read failed: " + err.Error()
				}
				var edit func(avps []*diam.AVP)
				edit = func(avps []*diam.AVP) {
					for _, a := range avps {
						if g, ok := a.Data.(*diam.GroupedAVP); ok {
							edit(g.AVP)
							g.AddAVP(core[1].Lib())
							g.AddAVP(core[2].Lib())
						}
					}
				}
				edit(m1.AVP)
				m1.AddAVP(core[1].Lib())
				m2, err := diam.ReadMessage(bytes.NewReader(w), c.A.D.P)
				if err != nil {
					return "second read failed: " + err.Error()
				}
				if s := CompareTree(m2.AVP, tree, "avp"); s != "" {
					return "values read from the reference encoding after an earlier decoded message had been edited: " + s
				}
				b, err := m2.Serialize()
				if err != nil || !bytes.Equal(b, w) || int(m2.Header.MessageLength) != len(w) {
					return fmt.Sprintf("a message decoded after an earlier decoded message had been edited re-serialises to %d bytes (header says %d), the wire image has %d (err %v)", len(b), m2.Header.MessageLength, len(w), err)
				}
				return ""
			})
			if what != "" {
				ctx.Report("", generalise(what), what+" | case: "+name+" tree "+TreeCase{Config: name, Hdr: hd, Tree: tree}.Desc(), nil)
			}
		}
	}
	hn := 0
	enumHistories(ctx, func(c *Config, h HistCase) {
		if ctx.Stop() {
			return
		}
		ctx.Eval(ev.HS(h.Desc()))
		if hn%40000 == 0 {
			ctx.Sample(h.Desc())
		}
		hn++
		if what := histEval(c, h); what != "" {
			// minimise: drop operations while it still fails
			for changed := true; changed; {
				changed = false
				for i := range h.Ops {
					nh := HistCase{Config: h.Config, Ops: append(append([]HistOp{}, h.Ops[:i]...), h.Ops[i+1:]...)}
					if len(nh.Ops) > 0 && histEval(c, nh) != "" {
						h, changed = nh, true
						break
					}
				}
			}
			what = histEval(c, h)
			ctx.Report("", generalise(what), what+" | case: "+h.Desc(), map[string]interface{}{"hist": h})
		}
	})
	ctx.Rule = rule + " PLUS every sequence of <=4 (thorough 5) assembly operations {NewAVP by int / uint32 / name, AddAVP, InsertAVP, Marshal, a Marshal that is rejected} over seven atoms with payload length mod 4 = 0..3, with and without vendor id (one with a vendor id but no V flag given), checking Header.MessageLength and the reference image after every operation, and that a shallow copy of the message taken before the operation (sharing its AVP list) still serialises as before; PLUS Time values with sub-second parts (9 seconds values x 6 fractions: the fraction is dropped). PLUS decode - edit - decode: after a decoded message has been edited (members added to its decoded groups, member-less ones included) a second message of the same wire image must read back as encoded. PLUS complete sweeps (see sweep_* keys). WriteTo images are taken by a destination that lets another message pass through WriteTo on another writer before it consumes its bytes."
	ctx.Assume = []string{"refcodec (independent RFC 6733 encoder/decoder, written from the RFC) is correct; self-tested against the RFC layouts"}
}

// c02Sweeps runs in the parent: complete value-space sweeps through the real API.
func c02Sweeps(ctx *ev.Ctx) {
	c := ConfigByName("default/app0")
	dp := c.A.D.P
	// 1. every 24-bit value through the header length / command code fields and the AVP length field
	var bad string
	var mu sync.Mutex
	fail := func(s string) {
		mu.Lock()
		if bad == "" {
			bad = s
		}
		mu.Unlock()
	}
	par(1<<24, func(lo, hi int) {
		buf := make([]byte, 20)
		for v := lo; v < hi; v++ {
			h := diam.Header{Version: 1, MessageLength: uint32(v), CommandFlags: 0x80, CommandCode: uint32(v) ^ 0xa5a5a5&0xffffff, ApplicationID: 3, HopByHopID: 5, EndToEndID: 6}
			h.SerializeTo(buf)
			want := refcodec.EncodeHeader(refcodec.Header{Version: 1, Length: h.MessageLength, Flags: 0x80, Code: h.CommandCode, App: 3, HbH: 5, E2E: 6})
			if !bytes.Equal(buf, want) {
				fail(fmt.Sprintf("header with 24-bit values %d/%d: %x, reference %x", h.MessageLength, h.CommandCode, buf, want))
				return
			}
			g, err := diam.DecodeHeader(want)
			if err != nil || g.MessageLength != h.MessageLength || g.CommandCode != h.CommandCode {
				fail(fmt.Sprintf("DecodeHeader of reference header with 24-bit values %d/%d: %+v %v", h.MessageLength, h.CommandCode, g, err))
				return
			}
		}
	})
	ctx.EvalN(1<<24, 1<<24)
	ctx.Set("sweep_24bit_header_fields", 1<<24)
	if bad != "" {
		ctx.Report("", "24-bit conversion differs from the reference", bad, map[string]string{"sweep": "uint24", "detail": bad})
		bad = ""
	}
	// 2. pad rule for every payload length 0..65535 through real AVPs (OctetString and undefined code)
	payload := make([]byte, 1<<16)
	for i := range payload {
		payload[i] = byte(i*7 + 1)
	}
	par(1<<16, func(lo, hi int) {
		for l := lo; l < hi; l++ {
			for _, n := range []atoms.N{
				{Code: 25, Flags: 0x40, V: atoms.Val{K: atoms.KOctet, S: payload[:l]}},
				{Code: 60001, Flags: 0x80, Vendor: 77, V: atoms.Val{K: atoms.KUnknown, S: payload[:l]}},
			} {
				got, err := n.Lib().Serialize()
				want := refcodec.EncodeAVP(n.Ref())
				if err != nil || !bytes.Equal(got, want) {
					fail(fmt.Sprintf("AVP code %d with %d payload bytes: library %d bytes, reference %d bytes (first difference at %d) err=%v", n.Code, l, len(got), len(want), firstDiff(got, want), err))
					return
				}
				a, err := diam.DecodeAVP(want, 0, dp)
				hl := 8
				if n.Vendor != 0 {
					hl = 12
				}
				if err != nil || a.Length != hl+l {
					fail(fmt.Sprintf("DecodeAVP of reference AVP with %d payload bytes: Length %d err %v", l, a.Length, err))
					return
				}
				_, p, _ := atoms.Canon(a.Data)
				if !bytes.Equal(p, payload[:l]) {
					fail(fmt.Sprintf("DecodeAVP of reference AVP code %d with %d payload bytes returns a different payload", n.Code, l))
					return
				}
			}
		}
	})
	ctx.EvalN(2<<16, 2<<16)
	ctx.Set("sweep_pad_lengths", 1<<16)
	if bad != "" {
		ctx.Report("", "padding / length rule differs from the reference", bad, map[string]string{"sweep": "pad", "detail": bad})
		bad = ""
	}
	// 3. 32-bit payload sweeps of the fixed-width types (thorough: every value; quick: a
	//    complete 2^16 x 2^8 lattice = all values of the two high bytes x 256 low patterns)
	thorough := ctx.Tier == "thorough"
	total := 1 << 24
	if thorough {
		total = 1 << 32
	}
	val := func(i int) uint32 {
		if thorough {
			return uint32(i)
		}
		// high 16 bits exhaustive, low 16 bits from a 256-entry lattice of boundary-ish patterns
		hi := uint32(i>>8) << 16
		lo := uint32(i & 0xff)
		return hi | lo<<8 | (lo ^ 0xff)
	}
	par(total, func(lo, hi int) {
		b := make([]byte, 4)
		for i := lo; i < hi; i++ {
			v := val(i)
			b[0], b[1], b[2], b[3] = byte(v>>24), byte(v>>16), byte(v>>8), byte(v)
			if s := check32(b, v); s != "" {
				fail(s)
				return
			}
		}
	})
	// boundary values explicitly (both tiers): sign / era / NaN edges
	for _, v := range []uint32{0, 1, 2, 0x7ffffffe, 0x7fffffff, 0x80000000, 0x80000001, 0xfffffffe, 0xffffffff, 0x7f800000, 0x7f800001, 0xff800000, 0x00800000, 0x007fffff,
		2208988800 - 1, 2208988800, 2208988800 + 1, 2085978496 - 1, 2085978496, 2085978496 + 1} {
		b := []byte{byte(v >> 24), byte(v >> 16), byte(v >> 8), byte(v)}
		if s := check32(b, v); s != "" {
			fail(s)
		}
	}
	ctx.EvalN(int64(total)*7, int64(total)*7)
	ctx.Set("sweep_32bit_payloads_per_type", total)
	ctx.Set("sweep_32bit_types", []string{"Unsigned32", "Integer32", "Float32", "Enumerated", "Time", "IPv4", "Address(family 1)"})
	if bad != "" {
		ctx.Report("", "a 32-bit payload decodes/encodes differently from the reference", bad, map[string]string{"sweep": "32bit", "detail": bad})
		bad = ""
	}
	// 3b. Address: every 16-bit address family with data of 1, 3, 4, 5, 14, 16 and 17 octets. Families 1
	// and 2 have a layout of their own (4 / 16 octets, anything else is malformed); every other
	// family is carried as it is, family octets included (0 and 65535 are reserved: no demand).
	for fam := 1; fam < 65535; fam++ {
		for _, n := range []int{1, 3, 4, 5, 14, 16, 17} {
			ab := make([]byte, 2+n)
			ab[0], ab[1] = byte(fam>>8), byte(fam)
			for i := 0; i < n; i++ {
				ab[2+i] = byte(0xa0 + i)
			}
			d, err := datatype.DecodeAddress(ab)
			wantErr := fam == 1 && n != 4 || fam == 2 && n != 16
			want := ab
			if fam == 1 || fam == 2 {
				want = ab[2:]
			}
			switch {
			case wantErr && err == nil:
				fail(fmt.Sprintf("Address payload %x (family %d with %d octets) accepted as %v", ab, fam, n, d))
			case !wantErr && err != nil:
				fail(fmt.Sprintf("Address payload %x (family %d, %d octets): %v", ab, fam, n, err))
			case !wantErr && !bytes.Equal([]byte(d.(datatype.Address)), want):
				fail(fmt.Sprintf("Address payload %x (family %d, %d octets) decoded as %x, the encoded value is %x", ab, fam, n, []byte(d.(datatype.Address)), want))
			}
		}
	}
	ctx.EvalN(65534*7, 65534*7)
	ctx.Set("sweep_address_families", "1..65534 x data of {1,3,4,5,14,16,17} octets")
	if bad != "" {
		ctx.Report("", "an Address payload decodes differently from the reference", bad, map[string]string{"sweep": "address-family", "detail": bad})
		bad = ""
	}
	// 4. 64-bit types: boundary values, walking one / walking zero / all two-bit patterns
	var pats []uint64
	for i := 0; i < 64; i++ {
		pats = append(pats, 1<<uint(i), ^(uint64(1) << uint(i)))
		for j := i + 1; j < 64; j++ {
			pats = append(pats, 1<<uint(i)|1<<uint(j))
		}
	}
	pats = append(pats, 0, ^uint64(0), 0x7ff0000000000000, 0xfff0000000000000, 0x7ff8000000000001, 0x000fffffffffffff)
	for _, v := range pats {
		b := refcodec.U64(v)
		if s := check64(b, v); s != "" {
			ctx.Report("", "a 64-bit payload decodes/encodes differently from the reference", s, map[string]string{"sweep": "64bit", "detail": s})
			break
		}
	}
	ctx.EvalN(int64(len(pats))*3, int64(len(pats))*3)
	ctx.Set("sweep_64bit_patterns", len(pats))
}

func check32(b []byte, v uint32) string {
	// decode the reference bytes with the library, compare the typed value, encode it again
	d, err := datatype.DecodeUnsigned32(b)
	if err != nil || uint32(d.(datatype.Unsigned32)) != v || !bytes.Equal(d.Serialize(), b) {
		return fmt.Sprintf("Unsigned32 payload %x: decoded %v err %v", b, d, err)
	}
	d, err = datatype.DecodeInteger32(b)
	if err != nil || int32(d.(datatype.Integer32)) != int32(v) || !bytes.Equal(d.Serialize(), b) {
		return fmt.Sprintf("Integer32 payload %x: decoded %v err %v", b, d, err)
	}
	d, err = datatype.DecodeEnumerated(b)
	if err != nil || int32(d.(datatype.Enumerated)) != int32(v) || !bytes.Equal(d.Serialize(), b) {
		return fmt.Sprintf("Enumerated payload %x: decoded %v err %v", b, d, err)
	}
	d, err = datatype.DecodeFloat32(b)
	if err != nil {
		return fmt.Sprintf("Float32 payload %x: %v", b, err)
	}
	f := float32(d.(datatype.Float32))
	// signalling NaNs may be quietened by a float32 move on some hardware; compare exactly
	// except for that one bit
	if fb := math.Float32bits(f); fb != v && !(f != f && fb|0x00400000 == v|0x00400000) {
		return fmt.Sprintf("Float32 payload %x: decoded bits %#x", b, fb)
	}
	if s := d.Serialize(); !bytes.Equal(s, b) && !(f != f) {
		return fmt.Sprintf("Float32 payload %x re-encoded as %x", b, s)
	}
	d, err = datatype.DecodeTime(b)
	if err != nil {
		return fmt.Sprintf("Time payload %x: %v", b, err)
	}
	tt, ok := d.(datatype.Time)
	if !ok {
		return fmt.Sprintf("Time payload %x: decoded as %T", b, d)
	}
	if got, want := time.Time(tt).Unix(), refcodec.TimeToUnix(b); got != want {
		return fmt.Sprintf("Time payload %x: decoded as unix %d (%s), reference %d (%s)", b, got, time.Unix(got, 0).UTC(), want, time.Unix(want, 0).UTC())
	}
	if s := d.Serialize(); !bytes.Equal(s, b) {
		return fmt.Sprintf("Time payload %x re-encoded as %x", b, s)
	}
	d, err = datatype.DecodeIPv4(b)
	if err != nil || !bytes.Equal(net.IP(d.(datatype.IPv4)), b) || !bytes.Equal(d.Serialize(), b) {
		return fmt.Sprintf("IPv4 payload %x: decoded %v err %v", b, d, err)
	}
	ab := []byte{0, 1, b[0], b[1], b[2], b[3]}
	d, err = datatype.DecodeAddress(ab)
	if err != nil || !bytes.Equal([]byte(d.(datatype.Address)), b) || !bytes.Equal(d.Serialize(), ab) || d.Len() != 6 || d.Padding() != 2 {
		return fmt.Sprintf("Address payload %x: decoded %v err %v", ab, d, err)
	}
	return ""
}

func check64(b []byte, v uint64) string {
	d, err := datatype.DecodeUnsigned64(b)
	if err != nil || uint64(d.(datatype.Unsigned64)) != v || !bytes.Equal(d.Serialize(), b) {
		return fmt.Sprintf("Unsigned64 payload %x: decoded %v err %v", b, d, err)
	}
	d, err = datatype.DecodeInteger64(b)
	if err != nil || int64(d.(datatype.Integer64)) != int64(v) || !bytes.Equal(d.Serialize(), b) {
		return fmt.Sprintf("Integer64 payload %x: decoded %v err %v", b, d, err)
	}
	d, err = datatype.DecodeFloat64(b)
	if err != nil {
		return fmt.Sprintf("Float64 payload %x: %v", b, err)
	}
	f := float64(d.(datatype.Float64))
	if fb := math.Float64bits(f); fb != v && !(f != f && fb|0x0008000000000000 == v|0x0008000000000000) {
		return fmt.Sprintf("Float64 payload %x: decoded bits %#x", b, fb)
	}
	return ""
}

// par splits [0,n) over the CPUs.
func par(n int, f func(lo, hi int)) {
	w := runtime.NumCPU()
	if w > 16 {
		w = 16
	}
	var wg sync.WaitGroup
	for i := 0; i < w; i++ {
		lo, hi := n/w*i, n/w*(i+1)
		if i == w-1 {
			hi = n
		}
		wg.Add(1)
		go func() { defer wg.Done(); f(lo, hi) }()
	}
	wg.Wait()
}

func replayC02(ctx *ev.Ctx, raw json.RawMessage) string {
	var r struct {
		Tree  *TreeCase `json:"tree"`
		Hist  *HistCase `json:"hist"`
		Sweep string    `json:"sweep"`
	}
	if err := json.Unmarshal(raw, &r); err != nil {
		ev.Infra("replay: %v", err)
	}
	switch {
	case r.Tree != nil:
		fmt.Println("  case:", r.Tree.Desc())
		return c02Eval(ConfigByName(r.Tree.Config), *r.Tree)
	case r.Hist != nil:
		fmt.Println("  case:", r.Hist.Desc())
		return histEval(ConfigByName(r.Hist.Config), *r.Hist)
	}
	// sweeps are re-run completely
	c02Sweeps(ctx)
	if ctx.NViolations() > 0 {
		return "sweep still fails"
	}
	return ""
}
