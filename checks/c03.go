package checks

import (
	"github.com/fiorix/go-diameter/v4/diam/avp"
	"reflect"
	"strconv"
	"bytes"
	"encoding/json"
	"fmt"
	"os"
	"os/exec"
	"runtime"
	"runtime/debug"
	"strings"
	"time"

	"github.com/fiorix/go-diameter/v4/diam"
	"github.com/fiorix/go-diameter/v4/diam/dict"
	"github.com/fiorix/go-diameter/v4/diam/datatype"
	"github.com/fiorix/go-diameter/v4/diam/sm/smparser"
	"verif/internal/atoms"
	"verif/internal/ev"
	"verif/internal/refcodec"
)

// C03 — decoding arbitrary bytes never panics, crashes or over-allocates.

func init() {
	Registry["C03"] = &Check{Run: runC03, Replay: replayC03, Sharded: true, Parent: c03Deep}
}

// C03Case is one input offered to the decoder.
type C03Case struct {
	Config string
	Entry  string // "message" "header" "avp" "grouped" "datatype:<n>"
	Data   []byte
	Note   string
}

func (c C03Case) Desc() string {
	d := fmt.Sprintf("%x", c.Data)
	if len(d) > 200 {
		d = d[:200] + fmt.Sprintf("...(%d bytes)", len(c.Data))
	}
	return fmt.Sprintf("%s %s [%s] %s", c.Config, c.Entry, c.Note, d)
}

type c03Generic struct {
	OriginHost  datatype.DiameterIdentity `avp:"Origin-Host"`
	OriginRealm string                    `avp:"Origin-Realm"`
	ResultCode  uint32                    `avp:"Result-Code"`
	HostIP      []datatype.Address        `avp:"Host-IP-Address"`
	Failed      []*diam.AVP               `avp:"Failed-AVP"`
	VSA         []struct {
		VendorID uint32 `avp:"Vendor-Id"`
		Auth     uint32 `avp:"Auth-Application-Id"`
	} `avp:"Vendor-Specific-Application-Id"`
	SessionID *string `avp:"Session-Id"`
}

// c03Arrays: fixed-size array fields (a decoded value may be shorter or longer than the array).
type c03Arrays struct {
	IP16  [16]byte `avp:"Host-IP-Address"`
	Host4 [4]byte  `avp:"Origin-Host"`
	RC    [8]byte  `avp:"Result-Code"`
	Class [2]byte  `avp:"Class"`
}

// inspect exercises every later inspection of a decoded message.
func inspect(c *Config, m *diam.Message) {
	_ = m.String()
	_ = m.PrettyDump()
	_, _ = m.Serialize()
	_ = m.Len()
	var sink bytes.Buffer
	_, _ = m.WriteTo(&sink) // the pooled write path sizes its buffer separately from Serialize
	_, _ = m.WriteToWithRetry(&sink, 1)
	_ = m.Unmarshal(new(smparser.CER))
	_ = m.Unmarshal(new(smparser.CEA))
	_ = m.Unmarshal(new(smparser.DWR))
	_ = m.Unmarshal(new(smparser.DWA))
	_ = m.Unmarshal(new(c03Generic))
	_ = m.Unmarshal(new(c03Arrays))
	// ... and into a struct built for THIS configuration: every Grouped AVP of its alphabet mapped
	// onto a nested struct, a pointer to one and a slice of them (so the nested scan runs for the
	// groups the inputs really carry)
	if t := c03NestedType(c); t != nil {
		_ = m.Unmarshal(reflect.New(t).Interface())
		// ... and into a destination that is NOT fresh: one value per configuration, filled from
		// every message that came before (a request struct kept per connection, or taken from a
		// pool), its slices already non-nil and of whatever capacity the earlier messages left
		d, ok := c03Reused[c.Name]
		if !ok {
			d = reflect.New(t)
			c03Reused[c.Name] = d
		}
		_ = m.Unmarshal(d.Interface())
	}
	_ = m.Unmarshal(c03ReusedGeneric)
	codes := []interface{}{264, uint32(268), "Origin-Host", "Result-Code", "Vendor-Specific-Application-Id", uint32(c.A.Undef[0]), "No-Such-AVP", uint32(260)}
	for _, a := range m.AVP {
		codes = append(codes, a.Code)
	}
	for _, k := range codes {
		_, _ = m.FindAVP(k, 0)
		_, _ = m.FindAVPs(k, 0)
		_, _ = m.FindAVPsWithPath([]interface{}{k}, 0)
		_, _ = m.FindAVPsWithPath([]interface{}{uint32(260), k}, 0)
		// paths that lead through whatever the message itself carries at top level (an AVP with the
		// code of a Grouped AVP need not have decoded as a group: codes are per-vendor name spaces)
		for i, a := range m.AVP {
			if i >= 4 {
				break
			}
			_, _ = m.FindAVPsWithPath([]interface{}{a.Code, k}, 0)
			_, _ = m.FindAVPsWithPath([]interface{}{a.Code, k}, a.VendorID)
		}
	}
	for _, a := range m.AVP {
		_ = a.String()
		_, _ = a.Serialize()
	}
}

var c03NestedTypes = map[string]reflect.Type{}
var c03Reused = map[string]reflect.Value{}
var c03ReusedGeneric = &c03Generic{HostIP: []datatype.Address{}, Failed: make([]*diam.AVP, 0, 1)}

func c03NestedType(c *Config) reflect.Type {
	if t, ok := c03NestedTypes[c.Name]; ok {
		return t
	}
	var t reflect.Type
	leaf, ok := c.A.Plain[atoms.KU32]
	if ok && len(c.A.Groups) > 0 {
		inner := reflect.StructOf([]reflect.StructField{{Name: "M", Type: reflect.TypeOf(uint32(0)), Tag: reflect.StructTag(fmt.Sprintf(`avp:"%s"`, leaf.Name))}})
		var fs []reflect.StructField
		for i, g := range c.A.Groups {
			ft := []reflect.Type{reflect.SliceOf(inner), inner, reflect.PtrTo(inner)}[i%3]
			fs = append(fs, reflect.StructField{Name: fmt.Sprintf("G%d", i), Type: ft, Tag: reflect.StructTag(fmt.Sprintf(`avp:"%s"`, g.Name))})
		}
		// ... and every plain leaf of the alphabet as a slice of a natural Go holder type
		holders := map[atoms.Kind]reflect.Type{atoms.KU32: reflect.TypeOf([]uint32(nil)), atoms.KU64: reflect.TypeOf([]uint64(nil)), atoms.KI32: reflect.TypeOf([]int32(nil)),
			atoms.KI64: reflect.TypeOf([]int64(nil)), atoms.KEnum: reflect.TypeOf([]int32(nil)), atoms.KF32: reflect.TypeOf([]float32(nil)), atoms.KF64: reflect.TypeOf([]float64(nil)),
			atoms.KUTF8: reflect.TypeOf([]string(nil)), atoms.KIdent: reflect.TypeOf([]string(nil)), atoms.KOctet: reflect.TypeOf([][]byte(nil)), atoms.KTime: reflect.TypeOf([]time.Time(nil))}
		for k := atoms.Kind(0); k < atoms.NKinds; k++ {
			d, ok := c.A.Plain[k]
			ht, ok2 := holders[k]
			if ok && ok2 {
				fs = append(fs, reflect.StructField{Name: fmt.Sprintf("L%d", int(k)), Type: ht, Tag: reflect.StructTag(fmt.Sprintf(`avp:"%s"`, d.Name))})
			}
		}
		t = reflect.StructOf(fs)
	}
	c03NestedTypes[c.Name] = t
	return t
}

var c03ms runtime.MemStats

// totalAlloc returns the cumulative bytes allocated by this process. ReadMemStats stops the
// world and flushes the per-P statistics, so deltas are exact for a single-goroutine worker
// (runtime/metrics is cheaper but attributes allocations late).
func totalAlloc() uint64 {
	runtime.ReadMemStats(&c03ms)
	return c03ms.TotalAlloc
}

// c03Eval offers one input to its entry point; every outcome except a value or an error is a
// violation. Allocation during the decode itself is bounded by the bytes supplied.
func c03Eval(c *Config, cs C03Case, measure bool) (res string) {
	defer func() {
		if r := recover(); r != nil {
			st := string(debug.Stack())
			where := ""
			for _, l := range strings.Split(st, "\n") {
				if strings.Contains(l, "go-diameter") || strings.Contains(l, "/repo/") {
					where = strings.TrimSpace(l)
					break
				}
			}
			res = fmt.Sprintf("PANIC: %v (at %s)", r, where)
		}
	}()
	dp := c.A.D.P
	phase := "decoding"
	defer func() {
		if res != "" && strings.HasPrefix(res, "PANIC") {
			res = strings.Replace(res, "PANIC:", "PANIC while "+phase+":", 1)
		}
	}()
	_ = c03NestedType(c) // built once per configuration, outside any measured window
	var before uint64
	if measure {
		before = totalAlloc()
	}
	limit := uint64(128*len(cs.Data) + 64<<10)
	checkAlloc := func() string {
		if !measure {
			return ""
		}
		if got := totalAlloc() - before; got > limit {
			return fmt.Sprintf("decoding %d supplied bytes allocated %d bytes (bound: 128 x supplied + 64 KiB = %d)", len(cs.Data), got, limit)
		}
		return ""
	}
	switch {
	case cs.Entry == "message":
		m, err := diam.ReadMessage(bytes.NewReader(cs.Data), dp)
		if s := checkAlloc(); s != "" {
			return s
		}
		if err == nil && m != nil {
			phase = "inspecting the decoded message"
			inspect(c, m)
		}
		if dp == dict.Default {
			// the dictionary argument omitted (nil stands for dict.Default): same decode, same inspections
			phase = "decoding with a nil dictionary argument"
			if m2, err := diam.ReadMessage(bytes.NewReader(cs.Data), nil); err == nil && m2 != nil {
				phase = "inspecting the message decoded with a nil dictionary argument"
				inspect(c, m2)
			}
		}
	case strings.HasPrefix(cs.Entry, "stream:"):
		// messages read one after another from one stream; the exported diam.MessageBufferLength
		// is set to the i-th listed value before the i-th read
		var mbls []int
		for _, f := range strings.Split(strings.TrimPrefix(cs.Entry, "stream:"), ",") {
			n, _ := strconv.Atoi(f)
			mbls = append(mbls, n)
		}
		old := diam.MessageBufferLength
		defer func() { diam.MessageBufferLength = old }()
		rd := bytes.NewReader(cs.Data)
		for i := 0; i < 8; i++ {
			if i < len(mbls) {
				diam.MessageBufferLength = mbls[i]
			}
			phase = fmt.Sprintf("reading message %d of the stream", i+1)
			if measure {
				before = totalAlloc() // the decode of this message alone (not the inspections of the ones before)
			}
			m, err := diam.ReadMessage(rd, dp)
			if s := checkAlloc(); s != "" {
				return s
			}
			if err != nil || m == nil {
				break
			}
			phase = "inspecting the decoded message"
			inspect(c, m)
		}
	case cs.Entry == "header":
		h, err := diam.DecodeHeader(cs.Data)
		if err == nil && h != nil {
			_ = h.String()
			_ = h.Serialize()
		}
	case cs.Entry == "avp":
		a, err := diam.DecodeAVP(cs.Data, c.A.App, dp)
		if s := checkAlloc(); s != "" {
			return s
		}
		if err == nil && a != nil && a.Data != nil {
			phase = "inspecting the decoded AVP"
			_ = a.String()
			_, _ = a.Serialize()
			m := diam.NewMessage(257, 0x80, c.A.App, 1, 1, dp)
			m.AddAVP(a)
			inspect(c, m)
		}
	case cs.Entry == "grouped":
		g, err := diam.DecodeGrouped(datatype.Grouped(cs.Data), c.A.App, dp)
		if s := checkAlloc(); s != "" {
			return s
		}
		if err == nil && g != nil {
			phase = "inspecting the decoded group"
			_ = g.String()
			_ = g.Serialize()
		}
	case strings.HasPrefix(cs.Entry, "datatype:"):
		var id int
		fmt.Sscanf(cs.Entry, "datatype:%d", &id)
		v, err := datatype.Decode(datatype.TypeID(id), cs.Data)
		if err == nil && v != nil {
			phase = "inspecting the decoded value"
			if n, lim := len(v.String()), 32*len(cs.Data)+256; n > lim {
				return fmt.Sprintf("rendering a %d-byte value of data type %d produced %d bytes of text (bound: 32 x supplied + 256 = %d)", len(cs.Data), id, n, lim)
			}
			_ = v.Serialize()
			_ = v.Len()
			_ = v.Padding()
			_ = v.Type()
		}
	}
	return ""
}

// ---- structured corruptions -----------------------------------------------------

type avpLoc struct {
	off       int // offset of the AVP in the message
	container int // end offset of the enclosing container
	length    int
	hl        int // header length (8, or 12 with the V bit)
}

func locate(body []byte, base, end int, isGroup func(uint32, uint32, bool) bool, out *[]avpLoc) {
	for off := 0; off+8 <= len(body); {
		l := int(body[off+5])<<16 | int(body[off+6])<<8 | int(body[off+7])
		hl := 8
		if body[off+4]&0x80 != 0 {
			hl = 12
		}
		*out = append(*out, avpLoc{off: base + off, container: end, length: l, hl: hl})
		var vendor uint32
		if hl == 12 {
			if off+12 <= len(body) {
				vendor = uint32(body[off+8])<<24 | uint32(body[off+9])<<16 | uint32(body[off+10])<<8 | uint32(body[off+11])
			}
		}
		code := uint32(body[off])<<24 | uint32(body[off+1])<<16 | uint32(body[off+2])<<8 | uint32(body[off+3])
		if l < hl || off+l > len(body) {
			return
		}
		if isGroup(code, vendor, hl == 12) {
			locate(body[off+hl:off+l], base+off+hl, base+off+l, isGroup, out)
		}
		off += refcodec.Pad4(l)
	}
}

// deviation is one single corruption of a wire image.
type deviation struct {
	kind string
	off  int
	val  int
}

func (d deviation) apply(w []byte) []byte {
	switch d.kind {
	case "trunc":
		if d.off >= len(w) {
			return nil
		}
		return append([]byte{}, w[:d.off]...)
	case "trunc-fixlen": // truncate and make the header agree
		if d.off >= len(w) || d.off < 20 {
			return nil
		}
		o := append([]byte{}, w[:d.off]...)
		o[1], o[2], o[3] = byte(d.off>>16), byte(d.off>>8), byte(d.off)
		return o
	case "len24": // set a 24-bit length field at off
		if d.off+3 > len(w) {
			return nil
		}
		o := append([]byte{}, w...)
		o[d.off], o[d.off+1], o[d.off+2] = byte(d.val>>16), byte(d.val>>8), byte(d.val)
		return o
	case "flip":
		if d.off >= len(w) {
			return nil
		}
		o := append([]byte{}, w...)
		o[d.off] ^= byte(d.val)
		return o
	case "set32":
		if d.off+4 > len(w) {
			return nil
		}
		o := append([]byte{}, w...)
		o[d.off], o[d.off+1], o[d.off+2], o[d.off+3] = byte(d.val>>24), byte(d.val>>16), byte(d.val>>8), byte(d.val)
		return o
	case "fillff":
		if d.off+d.val > len(w) || d.val <= 0 {
			return nil
		}
		o := append([]byte{}, w...)
		for i := 0; i < d.val; i++ {
			o[d.off+i] = 0xff
		}
		return o
	case "set8":
		if d.off >= len(w) {
			return nil
		}
		o := append([]byte{}, w...)
		o[d.off] = byte(d.val)
		return o
	}
	return nil
}

func deviations(c *Config, w []byte) []deviation {
	var ds []deviation
	isGroup := func(code, vendor uint32, v bool) bool {
		if !v {
			vendor = 0
		}
		d := c.A.D.M.FindCode(c.A.App, code, vendor)
		return d != nil && d.Data.Type == "Grouped"
	}
	var locs []avpLoc
	locate(w[20:], 20, len(w), isGroup, &locs)
	// header
	for _, v := range []int{0, 1, 19, 20, 21, 24, 28, len(w) - 4, len(w) - 1, len(w) + 1, len(w) + 4, 1044, 1045, 4096, 65536, 0xffffff} {
		if v >= 0 && v != len(w) {
			ds = append(ds, deviation{"len24", 1, v})
		}
	}
	for b := 0; b < 8; b++ {
		ds = append(ds, deviation{"flip", 4, 1 << uint(b)})
	}
	ds = append(ds, deviation{"set8", 0, 0}, deviation{"set8", 0, 2}, deviation{"len24", 5, 0xfffffe}, deviation{"set32", 8, 0x7fffffff})
	for _, l := range locs {
		rem := l.container - l.off
		for _, v := range []int{0, 1, 7, 8, 9, 11, 12, 13, 16, l.length - 1, l.length + 1, l.length + 4, rem, rem + 1, rem + 4, 0xffffff} {
			if v >= 0 && v != l.length {
				ds = append(ds, deviation{"len24", l.off + 5, v})
			}
		}
		for b := 0; b < 8; b++ {
			ds = append(ds, deviation{"flip", l.off + 4, 1 << uint(b)})
		}
		ds = append(ds, deviation{"set32", l.off, int(c.A.Undef[0])}, deviation{"set32", l.off, 0}, deviation{"set32", l.off, 0x7fffffff})
		// the value itself: the first word of the payload at the ends of the signed and unsigned
		// 32-bit ranges (a decoded number must never be trusted as an index, a count or a size by a
		// later inspection), and a payload of 0xff octets throughout
		if l.length >= l.hl+4 {
			for _, v := range []int{0x80000000, 0xffffffff, 0x7fffffff, 0, 0x80000001} {
				ds = append(ds, deviation{"set32", l.off + l.hl, v})
			}
			ds = append(ds, deviation{"fillff", l.off + l.hl, l.length - l.hl})
		}
	}
	for o := 0; o < len(w); o++ {
		ds = append(ds, deviation{"trunc", o, 0})
		if o >= 20 {
			ds = append(ds, deviation{"trunc-fixlen", o, 0})
		}
	}
	return ds
}

// c03Seeds returns well-formed wire images covering every type and nesting.
func c03Seeds(c *Config) (seeds [][]byte, small [][]byte) {
	full, mid, core := c.Atoms(false)
	_ = full
	hd := c.Headers(2)
	seen := map[atoms.Kind]bool{}
	var firstOfKind []atoms.N
	for _, a := range mid {
		if !seen[a.V.K] || a.Vendor != 0 && !seen[a.V.K+100] {
			if a.Vendor != 0 {
				seen[a.V.K+100] = true
			} else {
				seen[a.V.K] = true
			}
			firstOfKind = append(firstOfKind, a)
		}
	}
	enc := func(h refcodec.Header, t []atoms.N) []byte { return refcodec.EncodeMessage(h, atoms.RefNodes(t)) }
	for i, a := range firstOfKind {
		seeds = append(seeds, enc(hd[i%2], []atoms.N{a}))
	}
	if len(c.A.Groups) > 0 {
		seeds = append(seeds, enc(hd[0], []atoms.N{c.groupNode(0, core)}))
		seeds = append(seeds, enc(hd[0], []atoms.N{c.groupNode(0, []atoms.N{core[0], c.groupNode(1, []atoms.N{core[1], c.groupNode(2, nil)}), core[2]}), core[3]}))
		seeds = append(seeds, enc(hd[1], []atoms.N{c.groupNode(0, nil)}))
		small = append(small, seeds[len(seeds)-2])
	}
	// the code of a Grouped AVP under a vendor id the dictionary does not know: decodes as opaque data
	inner := refcodec.EncodeAVP(refcodec.Node{Code: c.A.Undef[0], Payload: []byte{1, 2, 3, 4}})
	for _, g := range c.A.Groups {
		seeds = append(seeds, refcodec.EncodeMessage(hd[0], []refcodec.Node{{Code: g.Code, Flags: 0xC0, Vendor: 4242, Payload: inner}, atoms.RefNodes(core[:1])[0]}))
	}
	for _, code := range []uint32{260, 279, 284} {
		if c.A.D.M.FindCode(c.A.App, code, 0) != nil {
			seeds = append(seeds, refcodec.EncodeMessage(hd[0], []refcodec.Node{{Code: code, Flags: 0xC0, Vendor: 4242, Payload: inner}, atoms.RefNodes(core[:1])[0]}))
		}
	}
	// text values whose byte length and character count fall on different sides of typical
	// display limits (multi-byte UTF-8: 33..60 characters in 65..120 bytes)
	for _, k := range []atoms.Kind{atoms.KUTF8, atoms.KOctet, atoms.KIdent, atoms.KURI, atoms.KIPFilter} {
		d, ok := c.A.Plain[k]
		if !ok {
			continue
		}
		for _, txt := range []string{strings.Repeat("\u0436", 40), strings.Repeat("\u4e16", 30), strings.Repeat("\u03b1", 33), strings.Repeat("\u00e9", 60), strings.Repeat("\U0001F600", 17), "ab" + strings.Repeat("\u0436", 32)} {
			seeds = append(seeds, refcodec.EncodeMessage(hd[0], []refcodec.Node{{Code: d.Code, Flags: mflag(d.Must), Payload: []byte(txt)}}))
		}
	}
	// one code three times in a message, the middle occurrence under a vendor id the dictionary does
	// not know (codes are per-vendor name spaces: it decodes as opaque data next to typed siblings)
	for _, a := range firstOfKind {
		if a.Vendor != 0 {
			continue
		}
		n := atoms.RefNodes([]atoms.N{a})[0]
		foreign := refcodec.Node{Code: n.Code, Flags: n.Flags | 0x80, Vendor: 4242, Payload: []byte{1, 2, 3, 4, 5}}
		seeds = append(seeds, refcodec.EncodeMessage(hd[0], []refcodec.Node{n, foreign, n}))
		seeds = append(seeds, refcodec.EncodeMessage(hd[0], []refcodec.Node{foreign, n}))
	}
	seeds = append(seeds, enc(hd[0], core), enc(hd[1], nil))
	small = append(small, enc(hd[0], core[:3]), enc(hd[0], []atoms.N{firstOfKind[0]}))
	return
}

func c03Enum(ctx *ev.Ctx, fn func(*Config, C03Case)) string {
	thorough := ctx.Tier == "thorough"
	emit := func(c *Config, entry, note string, data []byte) {
		if ctx.Mine() {
			fn(c, C03Case{Config: c.Name, Entry: entry, Note: note, Data: data})
		}
	}
	cfgs := []*Config{ConfigByName("default/app4"), ConfigByName("generated/app0"), ConfigByName("default/app0")}
	if thorough {
		cfgs = Configs()
	}
	// (i) tiny inputs and headers
	c0 := cfgs[0]
	// (vii) 1..7 stray octets behind the last complete AVP (covered by the Message Length), behind
	// bodies below, around and above the 1 KiB pooled read buffer
	for _, size := range []int{8, 400, 900, 948, 960, 1000, 1004, 1008, 1012, 1016, 1100, 3000, 70000} {
		for stray := 1; stray <= 7; stray++ {
			for _, fill := range []byte{0, 0xff} {
				m := refcodec.EncodeMessage(refcodec.Header{Version: 1, Flags: 0x80, Code: 257, HbH: 1, E2E: 1},
					[]refcodec.Node{{Code: 264, Flags: 0x40, Payload: []byte("h.example")}, {Code: 269, Payload: make([]byte, size)}})
				for i := 0; i < stray; i++ {
					m = append(m, fill)
				}
				m[1], m[2], m[3] = byte(len(m)>>16), byte(len(m)>>8), byte(len(m))
				emit(c0, "message", fmt.Sprintf("%d stray octets behind the last AVP of a %d-byte message", stray, len(m)), m)
			}
		}
	}
	// (0) streams of <=3 pieces read with diam.MessageBufferLength changed between the reads
	{
		mk := func(body int) []byte {
			h := refcodec.Header{Version: 1, Flags: 0x80, Code: 257, HbH: 1, E2E: 1}
			if body == 0 {
				return refcodec.EncodeMessage(h, nil)
			}
			return refcodec.EncodeMessage(h, []refcodec.Node{{Code: 60001, Payload: make([]byte, body-8)}})
		}
		claim := func(l int, supplied int) []byte {
			return append(refcodec.EncodeHeader(refcodec.Header{Version: 1, Length: uint32(l), Flags: 0x80, Code: 257, HbH: 1, E2E: 1}), make([]byte, supplied)...)
		}
		pieces := []struct {
			name string
			b    []byte
			last bool // leaves the stream unusable: only as the last piece
		}{
			{"8-byte body", mk(8), false}, {"600-byte body", mk(600), false}, {"2036-byte body", mk(2036), false}, {"5000-byte body", mk(5000), false},
			{"bare header claiming 2056", claim(2056, 0), true}, {"header claiming 620 + 10 bytes", claim(620, 10), true}, {"header claiming 3000 + 1500 bytes", claim(3000, 1500), true},
		}
		mbls := []int{1024, 4096, 512}
		var rec func(names []string, data []byte, ms []int, closed bool)
		rec = func(names []string, data []byte, ms []int, closed bool) {
			if len(names) > 0 {
				var f []string
				for _, m := range ms {
					f = append(f, strconv.Itoa(m))
				}
				emit(c0, "stream:"+strings.Join(f, ","), strings.Join(names, " | "), data)
			}
			if len(names) == 3 || closed {
				return
			}
			for _, p := range pieces {
				for _, m := range mbls {
					rec(append(append([]string{}, names...), p.name), append(append([]byte{}, data...), p.b...), append(append([]int{}, ms...), m), p.last)
				}
			}
		}
		rec(nil, nil, nil, false)
	}
	for _, entry := range []string{"message", "header", "avp", "grouped"} {
		emit(c0, entry, "empty", nil)
		for a := 0; a < 256; a++ {
			emit(c0, entry, "1 byte", []byte{byte(a)})
		}
		for a := 0; a < 256; a++ {
			for b := 0; b < 256; b += 1 {
				if !thorough && b%17 != 0 && b != 255 && b != 1 && b != 8 {
					continue
				}
				emit(c0, entry, "2 bytes", []byte{byte(a), byte(b)})
			}
		}
	}
	var lens []int
	for l := 0; l <= 2100; l++ {
		lens = append(lens, l)
	}
	for k := uint(12); k <= 24; k++ {
		lens = append(lens, 1<<k-1, 1<<k, 1<<k+1)
	}
	for _, l := range lens {
		if l > 0xffffff {
			continue
		}
		for _, cmd := range []uint32{257, 280, 272, 0xfffffe} {
			for _, fl := range []uint8{0x80, 0x00} {
				h := refcodec.EncodeHeader(refcodec.Header{Version: 1, Length: uint32(l), Flags: fl, Code: cmd, App: 0, HbH: 1, E2E: 2})
				emit(c0, "message", fmt.Sprintf("header only, declared length %d", l), h)
				emit(c0, "header", "20-byte header", h)
				if l >= 20 && l <= 4200 && cmd != 280 {
					emit(c0, "message", fmt.Sprintf("declared length %d, zero body supplied", l), append(h, make([]byte, l-20)...))
					if l >= 28 {
						body := make([]byte, l-20)
						// one AVP spanning the body
						body[0], body[1], body[2], body[3] = 0, 0, 0xea, 0x61
						body[5], body[6], body[7] = byte((l-20)>>16), byte((l-20)>>8), byte(l-20)
						emit(c0, "message", fmt.Sprintf("declared length %d, one undefined AVP spanning the body", l), append(append([]byte{}, h...), body...))
					}
				}
			}
		}
	}
	// (ii) AVP shapes: code x flags x declared length x bytes available
	for _, c := range cfgs[:2] {
		var codes []atoms.Def
		for k := atoms.Kind(0); k < atoms.NKinds; k++ {
			if d, ok := c.A.Plain[k]; ok {
				codes = append(codes, d)
			}
			if d, ok := c.A.Vend[k]; ok && k%4 == 0 {
				codes = append(codes, d)
			}
		}
		for _, g := range c.A.Groups {
			codes = append(codes, g)
		}
		codes = append(codes, atoms.Def{Code: c.A.Undef[0]})
		for _, d := range codes {
			for _, fl := range []uint8{0, 0x20, 0x40, 0x80, 0xC0, 0xFF} {
				for decl := 0; decl <= 44; decl++ {
					for avail := 0; avail <= 44; avail++ {
						if !thorough && avail != decl && avail != decl+1 && avail != decl-1 && avail != refcodec.Pad4(decl) && avail%8 != 0 && avail != 44 {
							continue
						}
						b := make([]byte, avail)
						hdr := []byte{byte(d.Code >> 24), byte(d.Code >> 16), byte(d.Code >> 8), byte(d.Code), fl, 0, 0, byte(decl)}
						copy(b, hdr)
						if fl&0x80 != 0 && avail >= 12 {
							b[8], b[9], b[10], b[11] = byte(d.Vendor>>24), byte(d.Vendor>>16), byte(d.Vendor>>8), byte(d.Vendor)
						}
						for i := 12; i < avail; i++ {
							b[i] = byte(i * 3)
						}
						emit(c, "avp", fmt.Sprintf("code %d flags %#x declared %d available %d", d.Code, fl, decl, avail), b)
						if avail%4 == 0 && avail >= 8 {
							h := c.Headers(1)[0]
							h.Length = uint32(20 + avail)
							emit(c, "message", fmt.Sprintf("body = AVP code %d flags %#x declared %d available %d", d.Code, fl, decl, avail), append(refcodec.EncodeHeader(h), b...))
						}
						if avail >= 8 && decl == avail {
							emit(c, "grouped", fmt.Sprintf("group payload = AVP code %d flags %#x declared %d", d.Code, fl, decl), b)
						}
					}
				}
			}
		}
	}
	// (iii) datatype decoders on every payload length 0..40 (rendering must stay linear in the input)
	for id := 0; id <= 20; id++ {
		for l := 0; l <= 40; l++ {
			for _, fill := range []byte{0, 0xff, 0x01, 0x80} {
				b := bytes.Repeat([]byte{fill}, l)
				if l >= 2 {
					b[1] = fill | 1
				}
				emit(c0, fmt.Sprintf("datatype:%d", id), fmt.Sprintf("payload of %d bytes", l), b)
			}
		}
	}
	// (iv) structured corruptions of well-formed seeds: bound 1 on every seed, bound 2 on the small ones
	for _, c := range cfgs {
		seeds, small := c03Seeds(c)
		for si, w := range seeds {
			emit(c, "message", fmt.Sprintf("seed %d intact", si), w)
			for _, d := range deviations(c, w) {
				if x := d.apply(w); x != nil {
					emit(c, "message", fmt.Sprintf("seed %d, %s@%d=%d", si, d.kind, d.off, d.val), x)
				}
			}
		}
		for si, w := range small {
			ds := deviations(c, w)
			for i, d1 := range ds {
				x := d1.apply(w)
				if x == nil {
					continue
				}
				for j, d2 := range ds {
					if j <= i && d1.kind != "trunc" {
						continue
					}
					if y := d2.apply(x); y != nil {
						emit(c, "message", fmt.Sprintf("small seed %d, %s@%d=%d then %s@%d=%d", si, d1.kind, d1.off, d1.val, d2.kind, d2.off, d2.val), y)
					}
				}
			}
			if thorough && si == 0 && c == cfgs[0] {
				for _, d1 := range ds {
					x := d1.apply(w)
					if x == nil || (d1.kind != "len24" && d1.kind != "flip") {
						continue
					}
					for _, d2 := range ds {
						y := d2.apply(x)
						if y == nil || d2.kind != "len24" {
							continue
						}
						for _, d3 := range ds {
							if d3.kind == "trunc" || d3.kind == "flip" {
								if z := d3.apply(y); z != nil {
									emit(c, "message", "small seed 0, three deviations", z)
								}
							}
						}
					}
				}
			}
		}
	}
	// (v) nesting family, in-process depths
	for _, c := range cfgs[:2] {
		if len(c.A.Groups) == 0 {
			continue
		}
		for _, depth := range []int{1, 2, 3, 10, 100, 300, 1000} {
			emit(c, "message", fmt.Sprintf("grouped AVP nested in itself %d deep", depth), nestedMessage(c, depth))
		}
	}
	return "(0) every stream of <=3 pieces over {messages with 8 / 600 / 2036 / 5000-byte bodies, a bare header claiming 2056 bytes, headers claiming 620 / 3000 bytes followed by 10 / 1500} read message by message with the exported diam.MessageBufferLength set to one of {1024, 4096, 512} before each read; (i) every byte string of length <=1 and a lattice of length 2 (thorough: all) on every entry point; 20-byte headers with every declared length 0..2100 and 2^k-1, 2^k, 2^k+1 up to 2^24-1 x 4 commands x R bit, header only and with the body supplied; (ii) AVP shapes code {one per type, vendor variants, groups, undefined} x flags {0,0x20,0x40,0x80,0xC0,0xFF} x declared length 0..44 x bytes available 0..44 (quick: the neighbourhood of declared, multiples of 8) as DecodeAVP input, as message body and as group payload; (iii) every datatype decoder on payloads of 0..40 bytes x 4 fill patterns (address families 1, 257, 65535, 32897), the rendered text bounded by 32 x supplied + 256 bytes; (iv) every single structured corruption (each length field to 16 boundary values, every flag bit, code to undefined/0/2^31-1, the first word of every AVP payload to 0, 2^31-1, 2^31, 2^31+1 and 2^32-1 and the whole payload to 0xff octets, truncation at every offset with and without a consistent header) of well-formed seeds covering every type and nesting, and every pair of corruptions on small seeds (thorough: triples on one seed); (v) a grouped AVP nested 1..1000 deep in-process with every inspection (String/PrettyDump are cubic in depth), 3000 deep with re-serialisation measured, and 6*10^4 (thorough) and 2*10^6 deep in child processes under an 8 GiB address-space cap. (vii) 1..7 stray octets (0x00 / 0xff) behind the last complete AVP of messages with 8..70000-byte values, i.e. bodies below, around and above the 1 KiB pooled read buffer; (vi) text values spelled in formatting directives: every sequence of <=4 tokens over 16 tokens of fmt syntax (%, verbs, [n], *, widths up to 999999, flags) in a UTF8String and of <=3 in a DiameterIdentity, OctetString, DiameterURI and Session-Id, decoded and rendered: String / PrettyDump show the text as received and stay within 32 x supplied + 1024 bytes. Message input of the configurations built on dict.Default is also decoded with the dictionary argument omitted (nil) and inspected the same way. On everything that decodes: String, PrettyDump, Serialize, WriteTo, Unmarshal into CER/CEA/DWR/DWA, a generic struct, a struct of fixed-size byte arrays and a struct that maps every Grouped AVP of the configuration's alphabet onto a nested struct / pointer / slice and every plain leaf onto a slice of a Go holder type (seeds repeat one code three times, once under a foreign vendor id), once into a fresh value and once into a value reused across all inputs of the configuration (slices non-nil, capacities as the earlier inputs left them), FindAVP/FindAVPs/FindAVPsWithPath by code and name. Distinct by (configuration, entry point, bytes)."
}

func nestedMessage(c *Config, depth int) []byte {
	g := c.A.Groups[0]
	fl := mflag(g.Must)
	hl := 8
	if g.Vendor != 0 {
		fl |= 0x80
		hl = 12
	}
	total := depth * hl
	b := make([]byte, 20+total)
	h := refcodec.EncodeHeader(refcodec.Header{Version: 1, Length: uint32(20 + total), Flags: 0x80, Code: c.cmdFor().Code, App: c.A.App, HbH: 1, E2E: 1})
	copy(b, h)
	for i := 0; i < depth; i++ {
		o := 20 + i*hl
		l := total - i*hl
		b[o], b[o+1], b[o+2], b[o+3] = byte(g.Code>>24), byte(g.Code>>16), byte(g.Code>>8), byte(g.Code)
		b[o+4] = fl
		b[o+5], b[o+6], b[o+7] = byte(l>>16), byte(l>>8), byte(l)
		if hl == 12 {
			b[o+8], b[o+9], b[o+10], b[o+11] = byte(g.Vendor>>24), byte(g.Vendor>>16), byte(g.Vendor>>8), byte(g.Vendor)
		}
	}
	return b
}

func c03Class(cs C03Case, what string) string {
	// the allocation is explained by the declared message length: readBody allocates the whole
	// declared body before reading it
	if cs.Entry == "message" && strings.HasPrefix(what, "decoding ") && strings.Contains(what, "allocated") && len(cs.Data) >= 20 {
		decl := int(cs.Data[1])<<16 | int(cs.Data[2])<<8 | int(cs.Data[3])
		var got int
		fmt.Sscanf(what[strings.Index(what, "allocated ")+10:], "%d", &got)
		if decl > len(cs.Data) && got <= decl+128*len(cs.Data)+(64<<10) {
			return "declared-body-allocated-before-it-arrives"
		}
	}
	if strings.HasPrefix(what, "re-serialising") {
		return "grouped-nesting-depth-at-least-5e4"
	}
	return ""
}

func runC03(ctx *ev.Ctx) {
	debug.SetMaxStack(512 << 20)
	n := 0
	ctx.Rule = c03Enum(ctx, func(c *Config, cs C03Case) {
		if ctx.Stop() {
			return
		}
		ctx.Eval(ev.Mix(ev.HS(cs.Config+cs.Entry), ev.H(cs.Data)))
		if n%60000 == 0 {
			ctx.Sample(cs.Desc())
		}
		n++
		if what := c03Eval(c, cs, true); what != "" {
			ctx.Report(c03Class(cs, what), generalise(what), what+" | case: "+cs.Desc(), cs)
		}
	})
	ctx.Assume = []string{"allocation is measured as the runtime.MemStats.TotalAlloc delta of a single-goroutine worker process", "bound 128 x supplied + 64 KiB is far above any consumption linear in the input (worst linear shape measured: 67 bytes per input byte)"}
}

// c03Directives: text values that are made of formatting directives. A received value is data: the
// renderings (String, PrettyDump) show it as it is, and their size stays within a small multiple
// of the message - whatever the value spells. Every sequence of <=4 tokens over a 16-token
// alphabet of fmt syntax in a UTF8String AVP, every sequence of <=3 in a DiameterIdentity, an
// OctetString, a DiameterURI and a second UTF8String.
func c03Directives(ctx *ev.Ctx) {
	tokens := []string{"%", "d", "s", "v", "x", "[2]", "[1]", "*", "9", "999999", "-", "+", "#", " ", ".", "0"}
	type holder struct {
		code   uint32
		mk     func(string) datatype.Type
		maxLen int
	}
	holders := []holder{
		{avp.ProductName, func(v string) datatype.Type { return datatype.UTF8String(v) }, 4},
		{avp.OriginHost, func(v string) datatype.Type { return datatype.DiameterIdentity(v) }, 3},
		{avp.Class, func(v string) datatype.Type { return datatype.OctetString(v) }, 3},
		{avp.RedirectHost, func(v string) datatype.Type { return datatype.DiameterURI(v) }, 3},
		{avp.SessionID, func(v string) datatype.Type { return datatype.UTF8String(v) }, 3},
	}
	c := ConfigByName("default/app0")
	if c == nil {
		c = ConfigByName("default/app4")
	}
	done := false
	for _, h := range holders {
		// does the clean rendering of this holder show a plain value verbatim?
		verbatim := map[string]bool{}
		var rec func(prefix string, n int)
		rec = func(prefix string, n int) {
			if done {
				return
			}
			if prefix != "" {
				m := diam.NewMessage(257, 0x80, 0, 1, 2, c.A.D.P)
				m.NewAVP(h.code, 0x40, 0, h.mk(prefix))
				w, err := m.Serialize()
				if err != nil {
					return
				}
				ctx.Eval(ev.HS(fmt.Sprintf("directive/%d/%s", h.code, prefix)))
				r, err := diam.ReadMessage(bytes.NewReader(w), c.A.D.P)
				if err != nil {
					return
				}
				what := ""
				for name, out := range map[string]string{"String": r.String(), "PrettyDump": r.PrettyDump()} {
					if prefix == "zqzq" {
						// calibration on a directive-free value: does this rendering show text verbatim at all?
						verbatim[name] = strings.Contains(out, prefix)
					}
					if limit := 32*len(w) + 1024; len(out) > limit {
						what = fmt.Sprintf("%s of a %d-byte message whose AVP %d carries the text %q is %d bytes long (bound 32 x supplied + 1024 = %d)", name, len(w), h.code, prefix, len(out), limit)
					} else if verbatim[name] && !strings.Contains(out, prefix) {
						what = fmt.Sprintf("%s of a message whose AVP %d carries the text %q does not show that text: %q", name, h.code, prefix, out)
					}
				}
				if what != "" {
					done = true
					ctx.Report("", generalise(what), what, map[string]interface{}{"directive": prefix, "code": h.code})
					return
				}
			}
			if n == 0 {
				return
			}
			for _, t := range tokens {
				rec(prefix+t, n-1)
			}
		}
		// the calibration value first
		rec("zqzq", 0)
		rec("", h.maxLen)
	}
}

// c03Deep runs in the parent: deep nesting in child processes under an address-space cap.
func c03Deep(ctx *ev.Ctx) {
	// cheap witness of the nested re-serialisation blow-up (both tiers): allocation of
	// Serialize() at depth 3000, measured in-process
	{
		c := ConfigByName("default/app4")
		w := nestedMessage(c, 3000)
		if m, err := diam.ReadMessage(bytes.NewReader(w), c.A.D.P); err == nil {
			before := totalAlloc()
			_, _ = m.Serialize()
			got := totalAlloc() - before
			ctx.Eval(ev.HS("deep-witness-3000"))
			ctx.Set("nested_3000_reserialise_alloc_bytes", got)
			if limit := uint64(128*len(w) + 64<<10); got > limit {
				cs := C03Case{Config: c.Name, Entry: "message", Note: "grouped AVP nested in itself 3000 deep", Data: w}
				what := fmt.Sprintf("re-serialising a %d-byte message of grouped AVPs nested 3000 deep allocated %d bytes (one buffer per nesting level; 128 x supplied + 64 KiB = %d)", len(w), got, limit)
				ctx.Report(c03Class(cs, what), generalise(what), what, map[string]interface{}{"deep": 3000})
			}
		}
	}
	c03Directives(ctx)
	depths := []int{60000, 2097149}
	if ctx.Tier != "thorough" {
		depths = []int{2097149}
	}
	var results []string
	for _, d := range depths {
		budget := 60
		if ctx.Tier == "thorough" {
			budget = 240
		}
		cmd := exec.Command("/bin/bash", "-c", fmt.Sprintf("ulimit -v 8388608; exec timeout %d %q C03 --deepchild %d", budget, os.Args[0], d))
		cmd.Env = append(os.Environ(), "GOMAXPROCS=2")
		out, err := cmd.CombinedOutput()
		s := string(out)
		verdict := ""
		switch {
		case strings.Contains(s, "DEEP-OK"):
			verdict = "completed"
		case err != nil && strings.Contains(s, "stack overflow"):
			verdict = "ABORT: fatal error: stack overflow"
		case err != nil && (strings.Contains(s, "out of memory") || strings.Contains(s, "cannot allocate")):
			verdict = "ABORT: out of memory under the 8 GiB address-space cap"
		case err != nil && (strings.Contains(err.Error(), "124") || strings.Contains(s, "DEEP-SLOW")):
			verdict = "not completed within the time guard (decode is quadratic in depth): no verdict"
		case strings.Contains(s, "DEEP-VIOLATION"):
			verdict = "VIOLATION: " + strings.TrimSpace(s[strings.Index(s, "DEEP-VIOLATION"):])
		default:
			verdict = fmt.Sprintf("child ended abnormally: %v: %s", err, tailStr(s, 300))
		}
		results = append(results, fmt.Sprintf("depth %d: %s", d, verdict))
		ctx.Eval(ev.HS(fmt.Sprintf("deep%d", d)))
		if strings.HasPrefix(verdict, "ABORT") || strings.HasPrefix(verdict, "VIOLATION") || strings.HasPrefix(verdict, "child ended") {
			class := ""
			if d >= 50000 && d <= 100000 && strings.Contains(verdict, "out of memory") {
				class = "grouped-nesting-depth-at-least-5e4"
			}
			ctx.Report(class, "process abort / violation while decoding or inspecting deeply nested grouped AVPs", fmt.Sprintf("grouped AVP nested in itself %d deep (%d bytes): %s", d, 20+8*d, verdict),
				map[string]interface{}{"deep": d})
		}
	}
	ctx.Set("deep_nesting_children", results)
}

func tailStr(s string, n int) string {
	if len(s) > n {
		return s[len(s)-n:]
	}
	return s
}

// DeepChild decodes and inspects one deeply nested message; it is run in its own process.
func DeepChild(depth int) {
	debug.SetMaxStack(1 << 30)
	c := ConfigByName("default/app4")
	w := nestedMessage(c, depth)
	t0 := time.Now()
	res := make(chan string, 1)
	go func() {
		defer func() {
			if r := recover(); r != nil {
				res <- fmt.Sprintf("DEEP-VIOLATION panic: %v", r)
			}
		}()
		m, err := diam.ReadMessage(bytes.NewReader(w), c.A.D.P)
		if err == nil && m != nil && depth <= 100000 {
			_, _ = m.Serialize()
			_, _ = m.FindAVP(264, 0)
		}
		res <- fmt.Sprintf("DEEP-OK depth %d decoded=%v in %v", depth, err == nil, time.Since(t0))
	}()
	fmt.Println(<-res)
}

func replayC03(ctx *ev.Ctx, raw json.RawMessage) string {
	var probe struct {
		Deep int `json:"deep"`
	}
	json.Unmarshal(raw, &probe)
	if probe.Deep > 0 {
		ctx.Tier = "thorough"
		c03Deep(ctx)
		if ctx.NViolations() > 0 {
			return "deep nesting still aborts"
		}
		return ""
	}
	var cs C03Case
	if err := json.Unmarshal(raw, &cs); err != nil {
		ev.Infra("replay: %v", err)
	}
	fmt.Println("  case:", cs.Desc())
	return c03Eval(ConfigByName(cs.Config), cs, true)
}
