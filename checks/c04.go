package checks

import (
	"github.com/fiorix/go-diameter/v4/diam/datatype"
	"github.com/fiorix/go-diameter/v4/diam/dict"
	"verif/internal/refdict"
	"bytes"
	"encoding/json"
	"fmt"
	"strings"

	"github.com/fiorix/go-diameter/v4/diam"
	"verif/internal/atoms"
	"verif/internal/ev"
	"verif/internal/refcodec"
)

// C04 — AVP boundaries are taken from the Length fields only.

func init() {
	Registry["C04"] = &Check{Run: runC04, Replay: replayC04, Sharded: true}
}

// WRec is a raw wire record: the declared length may disagree with the payload.
type WRec struct {
	Code    uint32
	Flags   uint8
	Vendor  uint32
	Decl    int // declared length; -1 = header + payload
	Payload []byte
	Group   bool
	Kids    []WRec
	Tag     string // human description
}

func (r WRec) hl() int {
	if r.Flags&0x80 != 0 {
		return 12
	}
	return 8
}

func (r WRec) bytes() []byte {
	p := r.Payload
	if r.Group {
		p = nil
		for _, k := range r.Kids {
			p = append(p, k.bytes()...)
		}
	}
	decl := r.Decl
	if decl < 0 {
		decl = r.hl() + len(p)
	}
	b := []byte{byte(r.Code >> 24), byte(r.Code >> 16), byte(r.Code >> 8), byte(r.Code), r.Flags, byte(decl >> 16), byte(decl >> 8), byte(decl)}
	if r.Flags&0x80 != 0 {
		b = append(b, byte(r.Vendor>>24), byte(r.Vendor>>16), byte(r.Vendor>>8), byte(r.Vendor))
	}
	b = append(b, p...)
	for len(b)%4 != 0 {
		b = append(b, 0)
	}
	return b
}

func (r WRec) desc() string {
	s := r.Tag
	if s == "" {
		s = fmt.Sprintf("%d", r.Code)
	}
	if r.Decl >= 0 {
		s += fmt.Sprintf("<decl %d>", r.Decl)
	}
	if r.Group {
		var k []string
		for _, x := range r.Kids {
			k = append(k, x.desc())
		}
		return s + "{" + strings.Join(k, " ") + "}"
	}
	return s + fmt.Sprintf("[%d]", len(r.Payload))
}

type C04Case struct {
	Config string
	Recs   []WRec
}

func (c C04Case) Desc() string {
	var s []string
	for _, r := range c.Recs {
		s = append(s, r.desc())
	}
	return c.Config + " body: " + strings.Join(s, " ")
}

func (c C04Case) body() []byte {
	var b []byte
	for _, r := range c.Recs {
		b = append(b, r.bytes()...)
	}
	return b
}

// kindWidth is the payload width the RFC fixes for a kind (0 = variable).
func kindWidth(k atoms.Kind) int {
	switch k {
	case atoms.KU32, atoms.KI32, atoms.KF32, atoms.KEnum, atoms.KTime, atoms.KIPv4:
		return 4
	case atoms.KU64, atoms.KI64, atoms.KF64:
		return 8
	case atoms.KIPv6:
		return 16
	}
	return 0
}

// smuggle builds a payload of exactly n bytes: the first w bytes look like a value, the rest
// is a run of well-formed AVP images (the shape a peer would use to hide AVPs from a
// parser that frames by Length).
func smuggle(w, n int, inner []byte) []byte {
	p := make([]byte, 0, n+len(inner))
	for i := 0; i < w; i++ {
		p = append(p, byte(i+1))
	}
	for len(p) < n {
		p = append(p, inner...)
	}
	return p[:n]
}

// c04Alphabet builds the record alphabets for a configuration.
func c04Alphabet(c *Config, thorough bool) (full, mid []WRec) {
	a := c.A
	inner := WRec{Code: a.Undef[1], Payload: []byte("xy")}.bytes() // a 12-byte well-formed AVP image
	inner8 := WRec{Code: a.Undef[1]}.bytes()                       // an 8-byte one
	for k := atoms.Kind(0); k < atoms.NKinds; k++ {
		w := kindWidth(k)
		if w == 0 {
			continue
		}
		for _, which := range []map[atoms.Kind]atoms.Def{a.Plain, a.Vend} {
			d, ok := which[k]
			if !ok {
				continue
			}
			fl := mflag(d.Must)
			if d.Vendor != 0 {
				fl |= 0x80
			}
			for n := 0; n <= 20; n++ {
				in := inner
				if (n-w)%12 != 0 {
					in = inner8
				}
				r := WRec{Code: d.Code, Flags: fl, Vendor: d.Vendor, Decl: -1, Payload: smuggle(w, n, in), Tag: fmt.Sprintf("%s/%d", k, d.Code)}
				if d.Vendor != 0 {
					r.Tag += "V"
					if n%4 != 0 && n != w+1 {
						continue // vendor variant: multiples of four and width+1 only
					}
				}
				full = append(full, r)
				if d.Vendor == 0 && (n == 0 || n == w-1 || n == w || n == w+4 || n == w+8 || n == w+12 || n == 3) {
					mid = append(mid, r)
				}
			}
		}
	}
	if d, ok := a.Plain[atoms.KAddr]; ok {
		for _, fam := range []uint16{0, 1, 2, 3, 8, 65535} {
			for n := 0; n <= 20; n++ {
				p := append([]byte{byte(fam >> 8), byte(fam)}, smuggle(0, n, inner8)...)
				r := WRec{Code: d.Code, Flags: mflag(d.Must), Decl: -1, Payload: p, Tag: fmt.Sprintf("Address/fam%d", fam)}
				full = append(full, r)
				if n == 0 || n == 2 || n == 4 || n == 6 || n == 14 || n == 16 {
					mid = append(mid, r)
				}
			}
		}
		full = append(full, WRec{Code: d.Code, Decl: -1, Payload: nil, Tag: "Address/empty"}, WRec{Code: d.Code, Decl: -1, Payload: []byte{0}, Tag: "Address/1byte"})
	}
	for _, k := range []atoms.Kind{atoms.KOctet, atoms.KUTF8, atoms.KIdent} {
		if d, ok := a.Plain[k]; ok {
			for _, n := range []int{0, 1, 2, 3, 4, 5, 8, 12} {
				r := WRec{Code: d.Code, Flags: mflag(d.Must), Decl: -1, Payload: smuggle(0, n, inner), Tag: k.String()}
				full = append(full, r)
				if n == 0 || n == 5 || n == 12 {
					mid = append(mid, r)
				}
			}
			// payloads a text-minded decoder might "clean": a byte order mark in front (and alone),
			// white space at either end, a trailing NUL - the reported payload is what Length delimits
			for _, s := range []string{"\xef\xbb\xbfx", "\xef\xbb\xbf", " x ", "\r\n", "x\x00", "\xef\xbb\xbf\xef\xbb\xbf"} {
				full = append(full, WRec{Code: d.Code, Flags: mflag(d.Must), Decl: -1, Payload: []byte(s), Tag: k.String() + "/text"})
			}
		}
	}
	for _, n := range []int{0, 1, 4, 7, 12} {
		full = append(full, WRec{Code: a.Undef[0], Decl: -1, Payload: smuggle(0, n, inner), Tag: "undef"},
			WRec{Code: a.Undef[0], Flags: 0xC0, Vendor: 4242, Decl: -1, Payload: smuggle(0, n, inner), Tag: "undefV"})
	}
	// declared lengths around 2^16 (the length field has 24 bits)
	for _, n := range []int{65527, 65528, 65536, 70001} {
		big := make([]byte, n)
		for i := range big {
			big[i] = byte(i*11 + 3)
		}
		full = append(full, WRec{Code: a.Undef[0], Decl: -1, Payload: big, Tag: "undef-big"})
		if d, ok := a.Plain[atoms.KOctet]; ok {
			full = append(full, WRec{Code: d.Code, Flags: mflag(d.Must), Decl: -1, Payload: big, Tag: "OctetString-big"})
		}
	}
	mid = append(mid, WRec{Code: a.Undef[0], Decl: -1, Payload: []byte{1, 2, 3}, Tag: "undef"},
		WRec{Code: a.Undef[0], Flags: 0x80, Vendor: 4242, Decl: -1, Payload: nil, Tag: "undefV"})
	return
}

func (c *Config) wgroup(gi int, kids []WRec) WRec {
	g := c.A.Groups[gi%len(c.A.Groups)]
	fl := mflag(g.Must)
	if g.Vendor != 0 {
		fl |= 0x80
	}
	return WRec{Code: g.Code, Flags: fl, Vendor: g.Vendor, Decl: -1, Group: true, Kids: kids, Tag: fmt.Sprintf("group/%d", g.Code)}
}

func c04Enum(ctx *ev.Ctx, fn func(*Config, C04Case)) string {
	thorough := ctx.Tier == "thorough"
	emit := func(c *Config, recs ...WRec) {
		if ctx.Mine() {
			fn(c, C04Case{Config: c.Name, Recs: append([]WRec{}, recs...)})
		}
	}
	for _, name := range []string{"generated/app0", "default/app4", "base/app0"} {
		c := ConfigByName(name)
		full, mid := c04Alphabet(c, thorough)
		tail := WRec{Code: c.A.Undef[0], Decl: -1, Payload: []byte{7, 7, 7, 7, 7, 7, 7}, Tag: "undef"} // the "following AVP"
		// singles and pairs at top level
		for _, a := range full {
			emit(c, a)
			emit(c, a, tail)
			emit(c, tail, a)
		}
		pairAlpha := mid
		if thorough {
			pairAlpha = full
		}
		for _, a := range pairAlpha {
			for _, b := range pairAlpha {
				emit(c, a, b)
			}
		}
		// the code of a Grouped AVP under a vendor id the dictionary does not know (a leaf whose
		// payload happens to look like an AVP), directly after / before / inside the real group
		for gi := range c.A.Groups {
			g := c.A.Groups[gi]
			if g.Vendor != 0 {
				continue
			}
			smuggled := refcodec.EncodeAVP(refcodec.Node{Code: c.A.Undef[0], Payload: []byte{1, 2, 3, 4}})
			look := WRec{Code: g.Code, Flags: 0xC0, Vendor: 4242, Decl: -1, Payload: smuggled, Tag: fmt.Sprintf("lookalike/%d/v4242", g.Code)}
			emit(c, c.wgroup(gi, nil), look)
			emit(c, c.wgroup(gi, []WRec{tail}), look, tail)
			emit(c, look, c.wgroup(gi, []WRec{tail}))
			emit(c, c.wgroup(gi, []WRec{look, tail}))
			emit(c, look)
		}
		// groups defined by DIFFERENT applications of the message's parent chain nested in each other:
		// a group the base application defines holding a group only the message's own application
		// defines, and the other way round (members are resolved for the message's application, at
		// every depth)
		{
			byApp := map[uint32][]*refdict.XAVP{}
			var appsSeen []uint32
			for _, v := range c.A.D.M.All {
				if v.Data.Type != "Grouped" || v.Vendor != 0 || c.A.D.M.FindCode(c.A.App, v.Code, refdict.AnyVendor) != v {
					continue
				}
				if len(byApp[v.App]) == 0 {
					appsSeen = append(appsSeen, v.App)
				}
				if len(byApp[v.App]) < 2 {
					byApp[v.App] = append(byApp[v.App], v)
				}
			}
			mk := func(v *refdict.XAVP, kids ...WRec) WRec {
				return WRec{Code: v.Code, Flags: mflag(v.Must), Decl: -1, Group: true, Kids: kids, Tag: fmt.Sprintf("group/%d(app %d)", v.Code, v.App)}
			}
			if len(appsSeen) >= 2 && len(full) > 0 {
				leaf := full[0]
				for _, ai := range appsSeen {
					for _, bi := range appsSeen {
						if ai == bi {
							continue
						}
						for _, ga := range byApp[ai] {
							for _, gb := range byApp[bi] {
								emit(c, mk(ga, mk(gb, leaf, tail), tail), tail)
								emit(c, mk(ga, mk(gb, mk(ga, leaf), tail)))
								emit(c, mk(ga, mk(ga, mk(gb, leaf, tail)), mk(gb)), tail)
							}
						}
					}
				}
			}
		}
		// an all-zero AVP header (code 0, no flags, Length 0) behind complete AVPs - alone, repeated
		// (a zero-filled tail), with well-formed AVPs hidden behind it, and inside a group: Length 0
		// is shorter than the header, whatever the other bytes are
		{
			zero := WRec{Code: 0, Flags: 0, Decl: 0, Tag: "all-zero-header"}
			for _, a := range mid {
				emit(c, a, zero)
				emit(c, a, zero, tail)
				emit(c, a, a, zero, zero, zero, zero, zero)
				if len(c.A.Groups) > 0 {
					emit(c, c.wgroup(0, []WRec{a, zero, tail}), tail)
					emit(c, c.wgroup(0, []WRec{a}), zero, tail)
				}
			}
			emit(c, zero)
			emit(c, zero, tail)
		}
		// the V flag with a Vendor-Id field of ZERO: the header still has 12 bytes (the flag, not the
		// value of the field, says whether the field is there). Leaves whose payload looks like an
		// AVP, and every vendor-less group code carried this way, with members
		for _, base := range mid {
			if base.Flags&0x80 != 0 {
				continue
			}
			z := base
			z.Flags |= 0x80
			z.Vendor = 0
			z.Tag += "/V-flag-vendor-0"
			emit(c, z)
			emit(c, z, tail)
			if len(c.A.Groups) > 0 {
				emit(c, c.wgroup(0, []WRec{z, tail}), tail)
			}
		}
		for gi := range c.A.Groups {
			if c.A.Groups[gi].Vendor != 0 {
				continue
			}
			hidden := WRec{Code: c.A.Undef[0], Decl: -1, Payload: refcodec.EncodeAVP(refcodec.Node{Code: c.A.Undef[1], Payload: []byte{1, 2, 3, 4}}), Tag: "undef-with-an-AVP-image-inside"}
			for _, kids := range [][]WRec{nil, {tail}, {hidden}, {hidden, tail}} {
				z := c.wgroup(gi, kids)
				z.Flags |= 0x80
				z.Vendor = 0
				z.Tag += "/V-flag-vendor-0"
				emit(c, z)
				emit(c, z, tail)
				emit(c, c.wgroup(gi, []WRec{z, tail}))
			}
		}
		// wide groups: a grouped member that sits behind many other members (at top level and one
		// level down) - nesting depth stays 2 or 3, only the member count grows
		if len(c.A.Groups) > 1 && len(full) > 0 {
			leaf := full[0]
			for _, lead := range []int{0, 1, 7, 15, 16, 17, 30, 31, 32, 33, 40, 63, 64, 65, 100, 255, 256, 257} {
				var kids []WRec
				for i := 0; i < lead; i++ {
					kids = append(kids, leaf)
				}
				inner := c.wgroup(1, []WRec{leaf, tail})
				emit(c, c.wgroup(0, append(append([]WRec{}, kids...), inner, tail)))
				emit(c, c.wgroup(0, append(append([]WRec{}, kids[:lead/2]...), c.wgroup(1, append(append([]WRec{}, kids[lead/2:]...), c.wgroup(0, []WRec{leaf}), tail)))), tail)
				emit(c, append(append([]WRec{}, kids...), inner, tail)...)
			}
		}
		// inside groups: depth 1 and 2 (thorough 3)
		if len(c.A.Groups) > 0 {
			for _, a := range full {
				emit(c, c.wgroup(0, []WRec{a}))
				emit(c, c.wgroup(0, []WRec{a, tail}), tail)
				emit(c, c.wgroup(1, []WRec{c.wgroup(0, []WRec{a, tail}), tail}))
				if thorough {
					emit(c, c.wgroup(2, []WRec{c.wgroup(1, []WRec{c.wgroup(0, []WRec{a, tail}), tail}), tail}), tail)
				}
			}
			for _, a := range mid {
				for _, b := range mid {
					emit(c, c.wgroup(0, []WRec{a, b}))
					emit(c, c.wgroup(1, []WRec{c.wgroup(0, []WRec{a}), b}))
				}
			}
			emit(c, c.wgroup(0, nil))
			emit(c, c.wgroup(0, nil), tail)
			emit(c, c.wgroup(0, []WRec{c.wgroup(1, nil)}))
		}
		if thorough {
			for _, a := range mid {
				for _, b := range mid {
					for _, d := range mid {
						emit(c, a, b, d)
					}
				}
			}
		}
		// declared lengths below the header size and beyond the container
		for _, a := range mid {
			nat := a.hl() + len(a.Payload)
			for _, decl := range []int{0, 1, 4, 7, 8, 11, nat - 1, nat + 1, nat + 4, nat + 12, nat + 13, 4096, 0xffffff} {
				if decl < 0 || decl == nat {
					continue
				}
				x := a
				x.Decl = decl
				emit(c, x)
				emit(c, x, tail)
				emit(c, tail, x)
				if len(c.A.Groups) > 0 {
					emit(c, c.wgroup(0, []WRec{x}))
					emit(c, c.wgroup(0, []WRec{x}), tail)
					emit(c, c.wgroup(0, []WRec{tail, x}), tail)
				}
			}
		}
	}
	return "bodies assembled from raw (code, flags, vendor, declared length, payload) records: every fixed-width type (Unsigned32/64, Integer32/64, Float32/64, Enumerated, Time, IPv4, IPv6) with payloads of every length 0..20 whose excess bytes are well-formed AVP images (the smuggling shape), Address of families {0,1,2,3,8,65535} x 0..20 address bytes, variable-width types (also with a byte order mark in front, white space at the ends, a trailing NUL), undefined codes with and without vendor id, payloads of 65527 / 65528 / 65536 / 70001 bytes (declared lengths around 2^16); singles, before/after another AVP, all ordered pairs of the mid alphabet (thorough: full alphabet, and triples of mid), the same inside grouped AVPs at depth 1..2 (thorough 3), empty groups; declared lengths 0..11, natural-1, natural+1..+13, 4096 and 2^24-1 at every position; under the generated, default and base dictionaries. Distinct by body bytes."
}

// c04Eval compares the decoder with the reference framer for one body.
func c04Eval(c *Config, cs C04Case) string {
	return safely(func() string {
		body := cs.body()
		app := c.A.App
		isGroup := func(code, vendor uint32, v bool) bool {
			if !v {
				vendor = 0
			}
			d := c.A.D.M.FindCode(app, code, vendor)
			return d != nil && d.Data.Type == "Grouped"
		}
		recs, _, ferr := refcodec.Frame(body, isGroup)
		hd := c.Headers(1)[0]
		hd.Length = uint32(20 + len(body))
		wire := append(refcodec.EncodeHeader(hd), body...)
		m, derr := diam.ReadMessage(bytes.NewReader(wire), c.A.D.P)
		// the command flags of the message header (request, answer, error answer, proxiable / re-
		// transmitted variants) have no say in where AVPs begin and end: same verdict, same AVPs
		for _, fl := range []uint8{0x00, 0x20, 0x60, 0x80, 0xC0, 0x30, 0xF0} {
			if fl == hd.Flags {
				continue
			}
			h2 := hd
			h2.Flags = fl
			m2, e2 := diam.ReadMessage(bytes.NewReader(append(refcodec.EncodeHeader(h2), body...)), c.A.D.P)
			switch {
			case (e2 == nil) != (derr == nil):
				return fmt.Sprintf("with command flags %#x the body is read with result %v, with command flags %#x with result %v: the header's flags changed how the AVPs are framed", hd.Flags, derr, fl, e2)
			case e2 == nil:
				b1, _ := m.Serialize()
				b2, _ := m2.Serialize()
				if len(m.AVP) != len(m2.AVP) || len(b1) != len(b2) || !bytes.Equal(b1[20:], b2[20:]) {
					return fmt.Sprintf("with command flags %#x the body decodes to %d AVPs, with command flags %#x to %d (or to other AVPs)", hd.Flags, len(m.AVP), fl, len(m2.AVP))
				}
			}
		}
		if ferr != nil {
			if derr == nil {
				return fmt.Sprintf("the reference framer rejects the body (%v) but the decoder accepts it and reports %d AVPs", ferr, len(m.AVP))
			}
			return ""
		}
		if derr != nil {
			// A decoder that frames by Length accepts a sequence iff it accepts every record alone.
			for i, r := range recs {
				one := refcodec.EncodeAVP(refcodec.Node{Code: r.Code, Flags: r.Flags, Vendor: r.Vendor, Payload: r.Payload})
				if _, err := diam.DecodeAVP(one, app, c.A.D.P); err != nil {
					return "" // record i is rejected on its own (value invalid for its type): rejecting the body is legitimate
				}
				_ = i
			}
			return fmt.Sprintf("every AVP of the body decodes on its own, the reference framer finds %d AVPs, but the decoder rejects the sequence: %v", len(recs), derr)
		}
		if s := cmpFramed(c, m.AVP, recs, "avp"); s != "" {
			return s
		}
		// the same body read while another source is read at the same time (after a message too large
		// for the pooled read buffer): still exactly the walk by declared lengths
		if len(wire) > 20 {
			mo, err := ReadOverlapped(wire, c.A.D.P)
			if err != nil {
				return "the body decodes on its own but is rejected when its read overlaps with a read from another source: " + err.Error()
			}
			if s := cmpFramed(c, mo.AVP, recs, "avp"); s != "" {
				return "read overlapping with a read from another source: " + s
			}
		}
		// the exported AVP.DecodeFromBytes on ONE AVP value that is decoded into again and again
		// (first a vendor-specific AVP, then every top-level record in order) must report what a
		// fresh decode of the same bytes reports
		var reuse diam.AVP
		prime := refcodec.EncodeAVP(refcodec.Node{Code: 60001, Flags: 0x80, Vendor: 4242, Payload: []byte{1, 2, 3, 4}})
		if err := reuse.DecodeFromBytes(prime, app, c.A.D.P); err != nil {
			return "harness: priming AVP rejected: " + err.Error()
		}
		for i, r := range recs {
			one := refcodec.EncodeAVP(refcodec.Node{Code: r.Code, Flags: r.Flags, Vendor: r.Vendor, Payload: r.Payload})
			fresh, ferr := diam.DecodeAVP(one, app, c.A.D.P)
			rerr := reuse.DecodeFromBytes(one, app, c.A.D.P)
			if (ferr == nil) != (rerr == nil) {
				return fmt.Sprintf("avp[%d] decoded into a reused AVP value: error %v, decoded into a fresh one: error %v", i, rerr, ferr)
			}
			if ferr != nil {
				continue
			}
			if reuse.Code != fresh.Code || reuse.Flags != fresh.Flags || reuse.VendorID != fresh.VendorID || reuse.Length != fresh.Length || fmt.Sprintf("%T", reuse.Data) != fmt.Sprintf("%T", fresh.Data) {
				return fmt.Sprintf("avp[%d] decoded into a reused AVP value reports (code %d flags %#x vendor %d length %d %T), a fresh decode of the same bytes (code %d flags %#x vendor %d length %d %T)",
					i, reuse.Code, reuse.Flags, reuse.VendorID, reuse.Length, reuse.Data, fresh.Code, fresh.Flags, fresh.VendorID, fresh.Length, fresh.Data)
			}
		}
		return ""
	})
}

func cmpFramed(c *Config, got []*diam.AVP, want []refcodec.Rec, path string) string {
	if len(got) != len(want) {
		var gc, wc []string
		for _, g := range got {
			gc = append(gc, fmt.Sprint(g.Code))
		}
		for _, w := range want {
			wc = append(wc, fmt.Sprint(w.Code))
		}
		return fmt.Sprintf("%s: decoder reports %d AVPs (codes %s), walking by declared length finds %d (codes %s)", path, len(got), strings.Join(gc, ","), len(want), strings.Join(wc, ","))
	}
	for i, w := range want {
		g := got[i]
		p := fmt.Sprintf("%s[%d]", path, i)
		if g.Code != w.Code || g.Flags != w.Flags || g.VendorID != w.Vendor || g.Length != w.Length {
			return fmt.Sprintf("%s: decoder (code %d flags %#x vendor %d length %d) vs framer (code %d flags %#x vendor %d length %d)",
				p, g.Code, g.Flags, g.VendorID, g.Length, w.Code, w.Flags, w.Vendor, w.Length)
		}
		if w.Group {
			gg, ok := g.Data.(*diam.GroupedAVP)
			if !ok {
				return fmt.Sprintf("%s: code %d is Grouped in the dictionary but decoded as %T", p, g.Code, g.Data)
			}
			if s := cmpFramed(c, gg.AVP, w.Children, p); s != "" {
				return s
			}
			continue
		}
		if gg, isGroup := g.Data.(*diam.GroupedAVP); isGroup {
			return fmt.Sprintf("%s: code %d vendor %d is not a Grouped AVP in the dictionary, but its %d payload bytes were read as %d AVP(s)", p, w.Code, w.Vendor, len(w.Payload), len(gg.AVP))
		}
		// payload bytes, wherever the typed value retains them (strictly valid payloads only)
		kn, payload, ok := atoms.Canon(g.Data)
		if !ok {
			continue
		}
		k, _ := atoms.KindOfTypeName(kn)
		if wd := kindWidth(k); wd != 0 && len(w.Payload) != wd {
			continue
		}
		if k == atoms.KAddr {
			if len(w.Payload) < 3 {
				continue
			}
			fam := uint16(w.Payload[0])<<8 | uint16(w.Payload[1])
			if (fam == 1 && len(w.Payload) != 6) || (fam == 2 && len(w.Payload) != 18) {
				continue
			}
			if fam != 1 && fam != 2 && (len(w.Payload) == 4 || len(w.Payload) == 16) {
				continue // representation ambiguity recorded under C01
			}
			if fam == 2 && isV4Mapped(w.Payload[2:]) {
				continue
			}
		}
		if !bytes.Equal(payload, w.Payload) {
			return fmt.Sprintf("%s (code %d, %s): decoded payload %x, wire payload %x", p, g.Code, kn, payload, w.Payload)
		}
	}
	return ""
}

func c04Minimise(c *Config, cs C04Case) C04Case {
	for changed := true; changed; {
		changed = false
		for i := range cs.Recs {
			n := C04Case{Config: cs.Config, Recs: append(append([]WRec{}, cs.Recs[:i]...), cs.Recs[i+1:]...)}
			if len(n.Recs) > 0 && c04Eval(c, n) != "" {
				cs, changed = n, true
				break
			}
			if cs.Recs[i].Group && len(cs.Recs[i].Kids) > 0 {
				n = C04Case{Config: cs.Config, Recs: append(append(append([]WRec{}, cs.Recs[:i]...), cs.Recs[i].Kids...), cs.Recs[i+1:]...)}
				if c04Eval(c, n) != "" {
					cs, changed = n, true
					break
				}
			}
		}
	}
	return cs
}

// c04FaultyDecoder: an application-defined data type whose decoder faults (panics) on a payload of
// the wrong size, at top level and inside a group, between two ordinary AVPs. Whatever the library
// does about the fault - let the panic reach the caller, report an error - it must not hand back a
// message that silently lacks the AVPs from the faulting one on.
type c04Word uint16

func (v c04Word) Serialize() []byte     { return []byte{byte(v >> 8), byte(v)} }
func (v c04Word) Len() int              { return 2 }
func (v c04Word) Padding() int          { return 2 }
func (v c04Word) Type() datatype.TypeID { return datatype.TypeID(202) }
func (v c04Word) String() string        { return fmt.Sprintf("Word{%d}", uint16(v)) }

func c04FaultyDecoder() string {
	datatype.Available["Verif-Word"] = datatype.TypeID(202)
	datatype.Decoder[datatype.TypeID(202)] = func(b []byte) (datatype.Type, error) {
		return c04Word(uint16(b[0])<<8 | uint16(b[1])), nil // no length check: indexes past a short payload
	}
	defer func() { delete(datatype.Available, "Verif-Word"); delete(datatype.Decoder, datatype.TypeID(202)) }()
	p, err := dict.NewParser()
	if err == nil {
		err = p.Load(strings.NewReader(`<?xml version="1.0" encoding="UTF-8"?><diameter><application id="0" name="Word">
<command code="9900" short="WD" name="Word-Test"><request><rule avp="Word" required="false"/></request><answer><rule avp="Word" required="false"/></answer></command>
<avp name="Word" code="9001" must="M"><data type="Verif-Word"/></avp>
<avp name="Word-Group" code="9100" must="M"><data type="Grouped"/></avp>
<avp name="Plain" code="9002" must="M"><data type="UTF8String"/></avp></application></diameter>`))
	}
	if err != nil {
		return ""
	}
	plain := func(s string) refcodec.Node { return refcodec.Node{Code: 9002, Flags: 0x40, Payload: []byte(s)} }
	for _, pl := range [][]byte{{7, 9}, {7}, {}} {
		word := refcodec.Node{Code: 9001, Flags: 0x40, Payload: pl}
		for gi, nodes := range [][]refcodec.Node{{plain("a"), word, plain("b")}, {plain("a"), {Code: 9100, Flags: 0x40, Group: true, Children: []refcodec.Node{plain("in"), word}}, plain("b")}, {word, plain("b")}} {
			wire := refcodec.EncodeMessage(refcodec.Header{Version: 1, Flags: 0x80, Code: 9900, HbH: 1, E2E: 1}, nodes)
			var m *diam.Message
			var rerr error
			func() {
				defer func() {
					if r := recover(); r != nil {
						rerr = fmt.Errorf("panic: %v", r) // the fault reached the caller: no message was reported
					}
				}()
				m, rerr = diam.ReadMessage(bytes.NewReader(wire), p)
			}()
			if rerr == nil && m != nil && len(m.AVP) != len(nodes) {
				return fmt.Sprintf("a message of %d top-level AVPs whose application-defined AVP (payload of %d octets, shape %d) makes its decoder fault was returned WITHOUT error and with %d AVPs: everything from the faulting AVP on was dropped silently", len(nodes), len(pl), gi, len(m.AVP))
			}
		}
	}
	return ""
}

// c04Overlap: two decodes overlap in time - the decoder of an application-defined data type, met at
// the innermost position of message A (nested 1, 40, 300 groups deep), decodes message B (nested
// likewise) before it returns, as a second connection's reader would at that instant. Where one
// message's AVPs begin and end does not depend on what else is being decoded: both come out whole.
var c04Reenter func()

func c04Overlap() string {
	datatype.Available["Verif-Reenter"] = datatype.TypeID(203)
	datatype.Decoder[datatype.TypeID(203)] = func(b []byte) (datatype.Type, error) {
		if f := c04Reenter; f != nil {
			c04Reenter = nil
			f()
		}
		return datatype.OctetString(append([]byte{}, b...)), nil
	}
	defer func() { delete(datatype.Available, "Verif-Reenter"); delete(datatype.Decoder, datatype.TypeID(203)); c04Reenter = nil }()
	p, err := dict.NewParser()
	if err == nil {
		err = p.Load(strings.NewReader(`<?xml version="1.0" encoding="UTF-8"?><diameter><application id="0" name="Overlap">
<command code="9900" short="OV" name="Overlap-Test"><request><rule avp="Box" required="false"/></request><answer><rule avp="Box" required="false"/></answer></command>
<avp name="Box" code="9100" must="M"><data type="Grouped"/></avp>
<avp name="Reenter" code="9001" must="M"><data type="Verif-Reenter"/></avp>
<avp name="Plain" code="9002" must="M"><data type="UTF8String"/></avp></application></diameter>`))
	}
	if err != nil {
		return ""
	}
	nest := func(depth int, inner refcodec.Node) []byte {
		n := inner
		for d := 0; d < depth; d++ {
			n = refcodec.Node{Code: 9100, Flags: 0x40, Group: true, Children: []refcodec.Node{n, {Code: 9002, Flags: 0x40, Payload: []byte("x")}}}
		}
		return refcodec.EncodeMessage(refcodec.Header{Version: 1, Flags: 0x80, Code: 9900, HbH: 1, E2E: 1}, []refcodec.Node{n})
	}
	depthOf := func(m *diam.Message) int {
		d := 0
		avps := m.AVP
		for len(avps) > 0 {
			g, ok := avps[0].Data.(*diam.GroupedAVP)
			if !ok {
				break
			}
			d++
			avps = g.AVP
		}
		return d
	}
	for _, da := range []int{1, 40, 300} {
		for _, db := range []int{1, 40, 300} {
			wa := nest(da, refcodec.Node{Code: 9001, Flags: 0x40, Payload: []byte("a")})
			wb := nest(db, refcodec.Node{Code: 9002, Flags: 0x40, Payload: []byte("b")})
			var mb *diam.Message
			var eb error
			c04Reenter = func() { mb, eb = diam.ReadMessage(bytes.NewReader(wb), p) }
			ma, ea := diam.ReadMessage(bytes.NewReader(wa), p)
			switch {
			case c04Reenter != nil:
				return "harness: the application decoder was never called"
			case eb != nil:
				return fmt.Sprintf("a well-formed message nested %d groups deep, decoded while the decode of another message (nested %d deep) was in progress, is rejected: %v", db, da, eb)
			case ea != nil:
				return fmt.Sprintf("a well-formed message nested %d groups deep is rejected after another message (nested %d deep) was decoded in the middle of its decode: %v", da, db, ea)
			case depthOf(ma) != da || depthOf(mb) != db:
				return fmt.Sprintf("overlapping decodes of messages nested %d and %d deep came out nested %d and %d deep", da, db, depthOf(ma), depthOf(mb))
			}
		}
	}
	return ""
}

func runC04(ctx *ev.Ctx) {
	if ctx.Mine() {
		ctx.Eval(ev.HS("overlapping decodes"))
		if what := c04Overlap(); what != "" {
			ctx.Report("", generalise(what), what, C04Case{Config: "overlapping-decodes"})
		}
	}
	if ctx.Mine() {
		ctx.Eval(ev.HS("faulty application decoder"))
		if what := c04FaultyDecoder(); what != "" {
			ctx.Report("", generalise(what), what, C04Case{Config: "faulty-decoder"})
		}
	}
	n := 0
	ctx.Rule = c04Enum(ctx, func(c *Config, cs C04Case) {
		if ctx.Stop() {
			return
		}
		ctx.Eval(ev.Mix(ev.HS(cs.Config), ev.H(cs.body())))
		if n%40000 == 0 {
			ctx.Sample(cs.Desc())
		}
		n++
		if what := c04Eval(c, cs); what != "" {
			mc := c04Minimise(c, cs)
			if w2 := c04Eval(c, mc); w2 != "" {
				what = w2
			} else {
				// not reproducible on its own: the failure depends on what this process decoded before
				mc, what = cs, what+" (the same body decodes correctly when it is decoded again: the result depends on earlier decodes in this process)"
			}
			ctx.Report("", generalise(what), what+" | case: "+mc.Desc(), mc)
		}
	})
	ctx.Rule += " Two overlapping decodes (the second runs inside an application decoder at the innermost AVP of the first) of messages nested 1 / 40 / 300 groups deep: both whole. An application-defined data type whose decoder faults on short payloads, at top level and inside a group: never a message returned without error and with fewer AVPs. An all-zero AVP header (code 0, Length 0) behind complete AVPs, alone / as a zero-filled tail / in front of well-formed AVPs / inside a group. Every body is read under seven further command-flag bytes of the message header (answer, error answer, proxiable, retransmitted, reserved bits): same verdict and same AVPs. Leaves and vendor-less groups sent with the V flag and a Vendor-Id field of zero (12-byte header), at top level and inside a group. Groups defined by different applications of the message's parent chain (two per application) nested in each other to depth 3 in both directions. The code of every vendor-less Grouped AVP also under a foreign vendor id (a leaf), directly after / before / inside the real group. Wide containers: a grouped AVP behind 0..257 sibling members (counts around 16, 32, 64 and 256), at top level, inside a group and two levels down. Every accepted body is read a second time overlapping with a complete read from another source, after an oversize message. Every top-level record of every accepted body is also decoded with the exported AVP.DecodeFromBytes into ONE AVP value that held a vendor-specific AVP first and then every earlier record, and compared with a fresh decode of the same bytes."
	ctx.Assume = []string{"reference framer (refcodec.Frame) walks by pad4(declared length) only", "a by-Length decoder accepts a sequence iff it accepts each record on its own (used to tell a legitimate value rejection from a framing error)"}
}

func replayC04(ctx *ev.Ctx, raw json.RawMessage) string {
	var cs C04Case
	if err := json.Unmarshal(raw, &cs); err != nil {
		ev.Infra("replay: %v", err)
	}
	if cs.Config == "faulty-decoder" {
		return c04FaultyDecoder()
	}
	if cs.Config == "overlapping-decodes" {
		return c04Overlap()
	}
	fmt.Println("  case:", cs.Desc())
	fmt.Printf("  body: %x\n", cs.body())
	return c04Eval(ConfigByName(cs.Config), cs)
}
