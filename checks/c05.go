package checks

import (
	"strings"
	"bufio"
	"bytes"
	"encoding/json"
	"fmt"
	"io"
	"runtime"
	"sort"

	"github.com/fiorix/go-diameter/v4/diam"
	"github.com/fiorix/go-diameter/v4/diam/dict"
	"verif/internal/ev"
	"verif/internal/refcodec"
)

// C05 — message boundaries in a byte stream follow the declared message length.

func init() {
	Registry["C05"] = &Check{Run: runC05, Replay: replayC05, Sharded: true}
}

// fragReader returns exactly the fragments of a cut vector, then EOF; it never returns
// more than the caller asked for.
type fragReader struct {
	data []byte
	cuts []int // ascending offsets where a read must stop
	pos  int
	unit int // if >0: uniform reads of at most unit bytes
	read int
	eofData bool // the Read that returns the last bytes also returns io.EOF (n > 0 with err != nil)
	// empty: before the first byte and at every cut the source answers one Read with (0, nil) - what
	// io.Reader permits and e.g. net.Pipe produces for a zero-length Write
	empty   bool
	emptied map[int]bool
}

func (r *fragReader) Read(p []byte) (int, error) {
	if r.pos >= len(r.data) {
		return 0, io.EOF
	}
	if r.empty && !r.emptied[r.pos] {
		atCut := r.pos == 0
		for _, c := range r.cuts {
			atCut = atCut || c == r.pos
		}
		if atCut {
			if r.emptied == nil {
				r.emptied = map[int]bool{}
			}
			r.emptied[r.pos] = true
			return 0, nil
		}
	}
	end := len(r.data)
	if r.unit > 0 {
		if r.pos+r.unit < end {
			end = r.pos + r.unit
		}
	} else {
		for _, c := range r.cuts {
			if c > r.pos {
				if c < end {
					end = c
				}
				break
			}
		}
	}
	if end-r.pos > len(p) {
		end = r.pos + len(p)
	}
	n := copy(p, r.data[r.pos:end])
	r.pos += n
	r.read += n
	if r.eofData && r.pos >= len(r.data) {
		return n, io.EOF
	}
	return n, nil
}

type C05Case struct {
	Sizes    []int // body sizes of the messages
	Cuts     []int
	Unit     int
	Buffered bool
	Trunc    int // -1 = none; otherwise the stream is cut off after Trunc bytes
	BadLen   int // -1 = none; otherwise a header declaring this length (<20) follows the messages, then 40 more bytes
	// BadHdr selects the rest of that header: 0 = a CER; 1 = a command the dictionary does not
	// define; 2 = an answer of an undefined command under an application nobody loaded; 3 = all
	// other header bits set (flags 0xff, version 0xff)
	BadHdr int `json:",omitempty"`
	// Overstate > 0: the LAST AVP of message Sizes[OverIdx] declares Overstate bytes more than it has
	// (the message length itself is truthful). That message must be rejected, the following ones
	// must still be read at their offsets, and no byte of an earlier message may show up in it.
	Overstate int
	OverIdx   int
	// EOFData: the source returns io.EOF together with the last bytes of the stream
	EOFData bool
	// MBL: the exported tuning variable diam.MessageBufferLength is set to MBL[i] before message i
	// is read (the pooled read buffers of earlier reads stay in the pool)
	MBL []int
	// Empty: the source answers one Read with (0, nil) before the first byte and at every cut
	Empty bool `json:",omitempty"`
	// OneSided: the stream is read with a private dictionary in which command 9000 has request
	// rules only: its answer (message 1 of the stream, Sizes[1] body bytes) is rejected, and the
	// messages after it must still be found at their offsets
	OneSided bool `json:",omitempty"`
}

const c05OneSidedXML = `<?xml version="1.0" encoding="UTF-8"?>
<diameter><application id="0" name="OneSided">
<command code="9000" short="OS" name="One-Sided"><request><rule avp="OS-Note" required="false"/></request><answer></answer></command>
<command code="9001" short="TS" name="Two-Sided"><request><rule avp="OS-Note" required="false"/></request><answer><rule avp="OS-Note" required="false"/></answer></command>
<avp name="OS-Note" code="9901" must="M"><data type="OctetString"/></avp></application></diameter>`

var c05OneSidedParser *dict.Parser

func c05OneSidedEval(cs C05Case) string {
	if c05OneSidedParser == nil {
		p, err := dict.NewParser()
		if err == nil {
			err = p.Load(strings.NewReader(c05OneSidedXML))
		}
		if err != nil {
			return "" // the dictionary is not accepted: nothing to check
		}
		c05OneSidedParser = p
	}
	note := func(n int) []refcodec.Node {
		if n < 8 {
			return nil
		}
		return []refcodec.Node{{Code: 9901, Flags: 0x40, Payload: make([]byte, n-8)}}
	}
	msgs := [][]byte{
		refcodec.EncodeMessage(refcodec.Header{Version: 1, Flags: 0x80, Code: 9001, HbH: 1, E2E: 1}, note(cs.Sizes[0])),
		refcodec.EncodeMessage(refcodec.Header{Version: 1, Flags: 0x00, Code: 9000, HbH: 2, E2E: 2}, note(cs.Sizes[1])), // the rule-less direction
		refcodec.EncodeMessage(refcodec.Header{Version: 1, Flags: 0x80, Code: 9000, HbH: 3, E2E: 3}, note(cs.Sizes[2])),
		refcodec.EncodeMessage(refcodec.Header{Version: 1, Flags: 0x00, Code: 9001, HbH: 4, E2E: 4}, note(16)),
	}
	var full []byte
	for _, m := range msgs {
		full = append(full, m...)
	}
	fr := &fragReader{data: full, cuts: cs.Cuts, unit: cs.Unit}
	var src io.Reader = fr
	var br *bufio.Reader
	if cs.Buffered {
		br = bufio.NewReader(fr)
		src = br
	}
	sum := 0
	for k, w := range msgs {
		m, err := diam.ReadMessage(src, c05OneSidedParser)
		sum += len(w)
		c := fr.read
		if br != nil {
			c -= br.Buffered()
		}
		if k == 1 {
			if err == nil {
				// accepting it is not a boundary question; the message must then be the right one
				if m.Header.HopByHopID != 2 {
					return fmt.Sprintf("message 1 came back with hop-by-hop id %d", m.Header.HopByHopID)
				}
			}
		} else if err != nil {
			return fmt.Sprintf("message %d of 4 (after the rejected answer of a command whose dictionary entry has request rules only): ReadMessage failed: %v", k, err)
		} else if m.Header.HopByHopID != uint32(k+1) || m.Len() != len(w) {
			return fmt.Sprintf("message %d of 4: got hop-by-hop id %d and %d bytes, sent %d and %d", k, m.Header.HopByHopID, m.Len(), k+1, len(w))
		}
		if c != sum {
			return fmt.Sprintf("after message %d (message 1 is rejected: its command has no rules for answers): %d bytes consumed from the source, declared lengths sum to %d", k, c, sum)
		}
	}
	if _, err := diam.ReadMessage(src, c05OneSidedParser); err != io.EOF {
		return fmt.Sprintf("after the last message: %v, expected io.EOF", err)
	}
	return ""
}

func (c C05Case) Desc() string {
	if c.Overstate > 0 {
		return fmt.Sprintf("bodies=%v cuts=%v unit=%d bufio=%v last AVP of message %d overstates its length by %d", c.Sizes, c.Cuts, c.Unit, c.Buffered, c.OverIdx, c.Overstate)
	}
	if len(c.MBL) > 0 {
		return fmt.Sprintf("bodies=%v bufio=%v, diam.MessageBufferLength set to %v before the respective read", c.Sizes, c.Buffered, c.MBL)
	}
	if c.OneSided {
		return fmt.Sprintf("private dictionary with a request-only command; bodies=%v (message 1 is its answer) cuts=%v unit=%d bufio=%v", c.Sizes, c.Cuts, c.Unit, c.Buffered)
	}
	if c.Empty {
		return fmt.Sprintf("bodies=%v cuts=%v bufio=%v trunc=%d, one empty read (0, nil) before the first byte and at every cut", c.Sizes, c.Cuts, c.Buffered, c.Trunc)
	}
	if c.EOFData {
		return fmt.Sprintf("bodies=%v cuts=%v unit=%d bufio=%v trunc=%d badlen=%d, io.EOF returned together with the last bytes", c.Sizes, c.Cuts, c.Unit, c.Buffered, c.Trunc, c.BadLen)
	}
	return fmt.Sprintf("bodies=%v cuts=%v unit=%d bufio=%v trunc=%d badlen=%d/hdr%d", c.Sizes, c.Cuts, c.Unit, c.Buffered, c.Trunc, c.BadLen, c.BadHdr)
}

var c05msgCache = map[[2]int][]byte{}

// c05msg builds a well-formed message with the given body size (0 or >= 8; a size that is not a
// multiple of four gives a message whose last AVP is sent without padding).
func c05msg(body, seq int) []byte {
	k := [2]int{body, seq}
	if b, ok := c05msgCache[k]; ok {
		return b
	}
	var nodes []refcodec.Node
	if body >= 8 {
		p := make([]byte, body-8)
		for i := range p {
			p[i] = byte(i*13 + seq*31 + 7)
		}
		nodes = append(nodes, refcodec.Node{Code: 60001, Payload: p})
	}
	b := refcodec.EncodeMessage(refcodec.Header{Version: 1, Flags: 0x80, Code: 257, App: 0, HbH: uint32(seq + 1), E2E: uint32(1000 + body)}, nodes)
	if body%4 != 0 {
		// a peer that neither sends nor counts the padding of its last AVP: the declared message
		// length is not a multiple of four
		b = append([]byte{}, b[:20+body]...)
		b[1], b[2], b[3] = byte((20+body)>>16), byte((20+body)>>8), byte(20+body)
	}
	if len(b) != 20+body {
		panic("c05msg size")
	}
	c05msgCache[k] = b
	return b
}

func (c C05Case) stream() (full []byte, msgs [][]byte) {
	for i, s := range c.Sizes {
		m := c05msg(s, i)
		if c.Overstate > 0 && i == c.OverIdx && s >= 8 {
			m = append([]byte{}, m...)
			l := (s) + c.Overstate // the single AVP spans the body: declared length = body size + overstatement
			m[25], m[26], m[27] = byte(l>>16), byte(l>>8), byte(l)
		}
		msgs = append(msgs, m)
		full = append(full, m...)
	}
	if c.BadLen >= 0 {
		hd := refcodec.Header{Version: 1, Length: uint32(c.BadLen), Flags: 0x80, Code: 257, HbH: 9, E2E: 9}
		switch c.BadHdr {
		case 1:
			hd.Code = 9999999
		case 2:
			hd.Code, hd.App, hd.Flags = 16777215, 4294967295, 0
		case 3:
			hd.Version, hd.Flags = 0xff, 0xff
		}
		h := refcodec.EncodeHeader(hd)
		full = append(full, h...)
		full = append(full, make([]byte, 40)...)
	}
	if c.Trunc >= 0 && c.Trunc < len(full) {
		full = full[:c.Trunc]
	}
	return
}

func c05Eval(cs C05Case) string {
	return safely(func() string {
		if cs.OneSided {
			return c05OneSidedEval(cs)
		}
		full, _ := cs.stream()
		want, tail := refcodec.SplitStream(full)
		fr := &fragReader{data: full, cuts: cs.Cuts, unit: cs.Unit, eofData: cs.EOFData, empty: cs.Empty}
		var src io.Reader = fr
		var br *bufio.Reader
		if cs.Buffered {
			br = bufio.NewReader(fr)
			src = br
		}
		consumed := func() int {
			if br != nil {
				return fr.read - br.Buffered()
			}
			return fr.read
		}
		sum := 0
		if len(cs.MBL) > 0 {
			old := diam.MessageBufferLength
			defer func() { diam.MessageBufferLength = old }()
		}
		for k, w := range want {
			if k < len(cs.MBL) {
				diam.MessageBufferLength = cs.MBL[k]
			}
			m, err := diam.ReadMessage(src, dict.Default)
			if cs.Overstate > 0 && k == cs.OverIdx {
				if err == nil {
					return fmt.Sprintf("message %d carries an AVP that declares %d bytes more than the message holds, yet it was accepted (its payload was completed with bytes that are not part of the message)", k, cs.Overstate)
				}
				sum += len(w)
				if c := consumed(); c != sum {
					return fmt.Sprintf("after rejecting message %d: %d bytes consumed from the source, declared lengths sum to %d", k, c, sum)
				}
				continue
			}
			if err != nil {
				return fmt.Sprintf("message %d of %d: ReadMessage failed: %v", k, len(want), err)
			}
			b, err := m.Serialize()
			if err != nil {
				return fmt.Sprintf("message %d: %v", k, err)
			}
			cmp := w
			if len(w)%4 != 0 {
				// the peer sent its last AVP unpadded: the library's own serialisation of the message pads it
				cmp = append(append([]byte{}, w...), make([]byte, 4-len(w)%4)...)
				// (the header keeps the length the message arrived with)
				if len(b) >= 4 {
					cmp[1], cmp[2], cmp[3] = b[1], b[2], b[3]
				}
			}
			if !bytes.Equal(b, cmp) {
				return fmt.Sprintf("message %d differs from message %d of the reference framing (got %d bytes hbh=%d, want %d bytes hbh=%d)", k, k, len(b), m.Header.HopByHopID, len(w), refHbH(w))
			}
			sum += len(w)
			if c := consumed(); c != sum {
				return fmt.Sprintf("after message %d: %d bytes consumed from the source, declared lengths sum to %d", k, c, sum)
			}
			if len(cs.Cuts) == 0 && cs.Unit == 0 && len(w) > 20 && len(w) <= 1100 && len(w)%4 == 0 {
				// the same message read from a source of its own while another source is being read
				// (after an oversize message): no byte of the other stream may show up in it
				mo, err := ReadOverlapped(w, dict.Default)
				if err != nil {
					return fmt.Sprintf("message %d cannot be read while another source is being read: %v", k, err)
				}
				if bo, err := mo.Serialize(); err != nil || !bytes.Equal(bo, w) {
					return fmt.Sprintf("message %d read while another source was being read differs from its bytes at byte %d (bytes of another stream attributed to it)", k, firstDiff(bo, w))
				}
			}
		}
		// what follows the complete messages
		var ms runtime.MemStats
		runtime.ReadMemStats(&ms)
		before := ms.TotalAlloc
		m, err := diam.ReadMessage(src, dict.Default)
		runtime.ReadMemStats(&ms)
		alloc := ms.TotalAlloc - before
		switch tail {
		case "eof":
			if err != io.EOF {
				return fmt.Sprintf("stream ends between messages: ReadMessage returned (%v, %v), expected io.EOF", m != nil, err)
			}
		case "short-header", "short-body":
			if err == nil {
				return fmt.Sprintf("stream ends inside a message (%s): ReadMessage returned a message", tail)
			}
			if err == io.EOF {
				return fmt.Sprintf("stream ends inside a message (%s): ReadMessage reported a clean io.EOF", tail)
			}
		case "bad-length":
			if err == nil {
				return fmt.Sprintf("declared message length %d (<20) accepted", cs.BadLen)
			}
			if c := consumed(); c != sum+20 {
				return fmt.Sprintf("declared message length %d (<20): %d bytes consumed after the previous message, expected exactly 20 (rejected without reading further)", cs.BadLen, c-sum)
			}
			if alloc > 1<<20 {
				return fmt.Sprintf("declared message length %d (<20): %d bytes allocated while rejecting a 20-byte header", cs.BadLen, alloc)
			}
		}
		return ""
	})
}

func refHbH(w []byte) uint32 {
	h, _ := refcodec.DecodeHeader(w)
	return h.HbH
}

// interesting returns the offsets near structural boundaries of a stream of messages.
func interesting(sizes []int, wide bool) []int {
	set := map[int]bool{}
	total := 0
	for _, s := range sizes {
		total += 20 + s
	}
	add := func(o int) {
		if o > 0 && o < total {
			set[o] = true
		}
	}
	rad := 3
	if wide {
		rad = 24
	}
	off := 0
	for _, s := range sizes {
		for d := -rad; d <= rad; d++ {
			add(off + d)      // message border
			add(off + 20 + d) // header/body border
		}
		for k := 1024; k < 20+s; k += 1024 {
			if k%4096 == 0 || k <= 2048 || wide {
				for d := -1; d <= 1; d++ {
					add(off + k + d)
					add(off + 20 + k + d)
				}
			}
		}
		off += 20 + s
	}
	for k := 4096; k < total; k += 4096 { // bufio buffer boundaries are absolute
		for d := -1; d <= 1; d++ {
			add(k + d)
		}
	}
	var out []int
	for o := range set {
		out = append(out, o)
	}
	sort.Ints(out)
	return out
}

func c05Enum(ctx *ev.Ctx, fn func(C05Case)) string {
	thorough := ctx.Tier == "thorough"
	emit := func(c C05Case) {
		if ctx.Mine() {
			fn(c)
		}
	}
	sizes := []int{0, 8, 1016, 1024, 1028, 4100, 70000}
	var seqs [][]int
	for _, a := range sizes {
		seqs = append(seqs, []int{a})
		for _, b := range sizes {
			seqs = append(seqs, []int{a, b})
			for _, d := range sizes {
				seqs = append(seqs, []int{a, b, d})
			}
		}
	}
	// an inner AVP overstating its length inside a message with a truthful length, after a longer
	// message (whose bytes are still in any reused buffer) and before another one
	for _, first := range []int{1016, 8, 1028} {
		for _, mid := range []int{8, 200, 1016, 1028} {
			for _, over := range []int{1, 4, 160, 600, 2000} {
				for _, buffered := range []bool{false, true} {
					for _, unit := range []int{0, 1, 7} {
						emit(C05Case{Sizes: []int{first, mid, 8}, Buffered: buffered, Unit: unit, Trunc: -1, BadLen: -1, Overstate: over, OverIdx: 1})
					}
				}
			}
		}
	}
	// the exported diam.MessageBufferLength changed between reads: buffers pooled under the earlier
	// setting are still in the pool
	{
		bodies := []int{8, 600, 1016, 2036, 5000}
		mbls := []int{1024, 4096, 512}
		var rec func(sz, mb []int)
		rec = func(sz, mb []int) {
			if len(sz) > 0 {
				for _, buffered := range []bool{false, true} {
					emit(C05Case{Sizes: append([]int{}, sz...), MBL: append([]int{}, mb...), Buffered: buffered, Trunc: -1, BadLen: -1})
				}
			}
			if len(sz) == 3 {
				return
			}
			for _, b := range bodies {
				for _, m := range mbls {
					rec(append(sz, b), append(mb, m))
				}
			}
		}
		rec(nil, nil)
	}
	// declared lengths that are not a multiple of four, next to aligned messages
	{
		us := []int{9, 29, 1017, 1023, 8, 1024}
		var rec func(sz []int, un bool)
		rec = func(sz []int, un bool) {
			if len(sz) > 0 && un {
				for _, buffered := range []bool{false, true} {
					for _, unit := range []int{0, 1, 7} {
						emit(C05Case{Sizes: append([]int{}, sz...), Buffered: buffered, Unit: unit, Trunc: -1, BadLen: -1})
						emit(C05Case{Sizes: append([]int{}, sz...), Buffered: buffered, Unit: unit, Trunc: -1, BadLen: -1, EOFData: true})
					}
				}
			}
			if len(sz) == 3 {
				return
			}
			for _, b := range us {
				rec(append(sz, b), un || b%4 != 0)
			}
		}
		rec(nil, false)
	}
	// messages of one MiB and more (the Message Length field has 24 bits): between two short
	// messages, uncut, cut around the MiB marks, and through 4093-byte reads
	for _, total := range []int{1<<20 - 4, 1 << 20, 1<<20 + 32, 1<<20 + 64, 1<<20 + 4096, 2 << 20, 3<<20 + 1044, 8 << 20, 1<<24 - 4} {
		big := total - 20
		for _, buffered := range []bool{false, true} {
			base := C05Case{Sizes: []int{8, big, 1024}, Buffered: buffered, Trunc: -1, BadLen: -1}
			emit(base)
			c := base
			c.Unit = 4093
			emit(c)
			c = base
			c.Cuts = []int{28 + 10, 28 + 1<<20}
			emit(c)
			c.Empty = true
			emit(c)
			c = base
			c.Trunc = 28 + total - 1
			emit(c)
		}
	}
	// a message the dictionary rejects because its command has no rules for that direction, between
	// messages that are fine: it is consumed to its declared length like any other
	for _, a := range []int{0, 16, 1100} {
		for _, b := range []int{8, 16, 200, 1100, 5000} {
			for _, d := range []int{0, 16} {
				for _, buffered := range []bool{false, true} {
					for _, unit := range []int{0, 1, 7} {
						emit(C05Case{Sizes: []int{a, b, d}, Buffered: buffered, Unit: unit, Trunc: -1, BadLen: -1, OneSided: true})
					}
					emit(C05Case{Sizes: []int{a, b, d}, Buffered: buffered, Cuts: []int{20 + a + 10, 20 + a + 20}, Trunc: -1, BadLen: -1, OneSided: true})
				}
			}
		}
	}
	// declared length 0..19 as the very first header
	for l := 0; l < 20; l++ {
		for _, buffered := range []bool{false, true} {
			for hdr := 0; hdr < 4; hdr++ {
				emit(C05Case{Buffered: buffered, Trunc: -1, BadLen: l, BadHdr: hdr})
				emit(C05Case{Buffered: buffered, Trunc: -1, BadLen: l, BadHdr: hdr, Unit: 1})
			}
		}
	}
	maxCuts := 2
	if thorough {
		maxCuts = 3
	}
	for _, sq := range seqs {
		total, big := 0, 0
		for _, s := range sq {
			total += 20 + s
			if s > 8 {
				big++
			}
		}
		var offs []int
		cutCap := maxCuts
		has70k := false
		for _, x := range sq {
			if x >= 70000 {
				has70k = true
			}
		}
		if total <= 200 {
			for o := 1; o < total; o++ {
				offs = append(offs, o)
			}
		} else if !thorough {
			offs = interesting(sq, false)
			cutCap = 2
			if len(sq) == 3 || len(offs) > 120 {
				cutCap = 1 // three large messages: single cuts (and uniform readers) only
			}
		} else {
			// thorough: wide neighbourhoods for single messages, three cuts where the offset set is small
			offs = interesting(sq, len(sq) == 1)
			switch {
			case len(sq) == 1 && !has70k:
				cutCap = 3
			case len(sq) == 3 && has70k:
				cutCap = 1
			case len(offs) <= 70 && !has70k:
				cutCap = 3
			default:
				cutCap = 2
			}
		}
		for _, buffered := range []bool{false, true} {
			base := C05Case{Sizes: sq, Buffered: buffered, Trunc: -1, BadLen: -1}
			emit(base)
			e := base
			e.EOFData = true
			emit(e)
			e = base
			e.Empty = true
			emit(e)
			// all cut vectors with <= cutCap cuts over the offsets
			var rec func(start int, cur []int)
			rec = func(start int, cur []int) {
				if len(cur) > 0 {
					c := base
					c.Cuts = append([]int{}, cur...)
					emit(c)
					if len(cur) == 1 {
						c.EOFData = true
						emit(c)
					}
					if len(cur) <= 2 {
						c.EOFData = false
						c.Empty = true
						emit(c)
					}
				}
				if len(cur) == cutCap {
					return
				}
				for i := start; i < len(offs); i++ {
					rec(i+1, append(cur, offs[i]))
				}
			}
			rec(0, nil)
			// uniform k-byte readers
			for k := 1; k <= 40; k++ {
				if total > 100000 && k < 8 && !thorough {
					continue
				}
				c := base
				c.Unit = k
				emit(c)
			}
			// truncation at every (interesting) offset, combined with one cut before it
			for _, t := range offs {
				c := base
				c.Trunc = t
				emit(c)
				c.Unit = 7
				emit(c)
				if total <= 200 {
					for _, o := range offs {
						if o >= t {
							break
						}
						c2 := base
						c2.Trunc = t
						c2.Cuts = []int{o}
						emit(c2)
					}
				}
			}
			// declared lengths 0..19 after the messages
			if len(sq) <= 2 {
				for l := 0; l < 20; l++ {
					c := base
					c.BadLen = l
					c.BadHdr = (l + len(sq)) % 4 // the four kinds of header rotate over the lengths and histories
					emit(c)
					c.Unit = 3
					emit(c)
				}
			}
		}
	}
	return "all sequences of <=3 messages over body sizes {0,8,1016,1024,1028,4100,70000}; a message of 1 MiB - 4, 1 MiB, 1 MiB + 32 / 64 / 4096, 2 MiB, 3 MiB + 1044, 8 MiB and 16 MiB - 4 bytes between two short ones (uncut, 4093-byte reads, cut inside its header and at the MiB mark, truncated one byte early); read through a scripted io.Reader and through bufio.NewReader on top of it; all cut vectors with <=2 (thorough 3) cuts - every offset for streams <=200 bytes, otherwise every offset within +-3 (thorough: +-24 for single messages) of a message border, header/body border, 1 KiB and 4 KiB boundary (quick: three large messages or more than 120 candidate offsets: <=1 cut; thorough: 3 cuts where the candidate set has <=70 offsets and no 70 000-byte message is involved, otherwise 2, and 1 for three messages including the 70 000-byte one); uniform 1..40-byte readers; truncation at every such offset (plain, 7-byte reads, and with one earlier cut for short streams); a header declaring each length 0..19 (the rest of it a CER, an undefined command, an undefined answer under an unknown application, or all other bits set) followed by 40 more bytes after every sequence of <=2 messages and as the first header. and messages whose last AVP declares 1..2000 bytes more than the (truthful) message holds, between two other messages: rejected, following message still read at its offset.; every message of the uncut cases also read from a source of its own overlapping with a read from another source after an oversize message; the base and single-cut cases also with a source that returns io.EOF together with the last bytes; the base, single-cut and two-cut cases also with a source that answers one Read with (0, nil) before the first byte and at every cut; sequences of <=3 messages with bodies from {9, 29, 1017, 1023, 8, 1024} containing at least one whose declared length is not a multiple of four (last AVP sent unpadded); all histories of <=3 reads over bodies {8,600,1016,2036,5000} with diam.MessageBufferLength set to one of {1024,4096,512} before each read. Also a private dictionary in which one command has request rules only: its answer (bodies 8..5000 bytes), between well-formed messages, is consumed to its declared length whatever ReadMessage says about it. Distinct by (sizes, cuts, unit, bufio, truncation, bad length, overstatement, EOF mode, empty reads, buffer lengths)."
}

func runC05(ctx *ev.Ctx) {
	n := 0
	badLenBroken := false
	ctx.Rule = c05Enum(ctx, func(cs C05Case) {
		if ctx.Stop() || (badLenBroken && cs.BadLen >= 0) {
			return // one confirmed bad-length violation is enough; each further one may cost a 4 GiB allocation
		}
		ctx.Eval(ev.HS(cs.Desc()))
		if n%100000 == 0 {
			ctx.Sample(cs.Desc())
		}
		n++
		if what := c05Eval(cs); what != "" {
			class := ""
			if cs.BadLen >= 0 {
				badLenBroken = true
			}
			ctx.Report(class, generalise(what), what+" | case: "+cs.Desc(), cs)
		}
	})
	ctx.Assume = []string{"reference stream splitter walks by the declared 24-bit message length only"}
}

func replayC05(ctx *ev.Ctx, raw json.RawMessage) string {
	cs := C05Case{Trunc: -1, BadLen: -1}
	if err := json.Unmarshal(raw, &cs); err != nil {
		ev.Infra("replay: %v", err)
	}
	fmt.Println("  case:", cs.Desc())
	return c05Eval(cs)
}
