package checks

import (
	"bytes"
	"time"
	"encoding/json"
	"fmt"
	"strings"

	"github.com/fiorix/go-diameter/v4/diam"
	"github.com/fiorix/go-diameter/v4/diam/dict"
	"verif/internal/ev"
)

// C09 — dispatch selects the handler by index, then by name, then the catch-all.

func init() {
	Registry["C09"] = &Check{Run: runC09, Replay: replayC09}
}

type c09Msg struct {
	Priv      bool // the message carries a private dictionary (not dict.Default)
	App, Code uint32
	Req       bool
	Short     string // dictionary short name
	OtherApp  uint32 // an application id under which the same command code is a different key
	OtherCode uint32
	OtherName string // short name of another command
	// Undefined: the message's dictionary defines no such command for this application nor for the
	// base application (Short is the short name the command has in another application, one that
	// AVP lookups - not command lookups - reach through the parent table). Such a message can only
	// be built through the API; only the catch-all may see it.
	Undefined bool
}

var c09Msgs = []c09Msg{
	{App: 0, Code: 257, Short: "CE", OtherApp: 4, OtherCode: 280, OtherName: "DW"},
	{App: 0, Code: 280, Short: "DW", OtherApp: 4, OtherCode: 257, OtherName: "CE"}, // a code that a private dictionary (below) gives another short name, in the same process
	{App: 4, Code: 272, Short: "CC", OtherApp: 0, OtherCode: 258, OtherName: "RA"},
	{App: 16777238, Code: 258, Short: "RA", OtherApp: 0, OtherCode: 272, OtherName: "CC"},      // Gx defines its own RA
	{App: 16777251, Code: 258, Short: "RA", OtherApp: 16777238, OtherCode: 316, OtherName: "UL"}, // resolves only through the base dictionary
	// messages carrying a private dictionary whose base application differs from dict.Default's:
	{Priv: true, App: 0, Code: 999, Short: "XP", OtherApp: 7, OtherCode: 280, OtherName: "WD"},  // a command the default dictionary lacks
	{Priv: true, App: 7, Code: 999, Short: "XP", OtherApp: 0, OtherCode: 280, OtherName: "WD"},  // ... reached through the fallback to the private base
	{Priv: true, App: 7, Code: 280, Short: "WD", OtherApp: 0, OtherCode: 999, OtherName: "DW"}, // a code the private base names differently
	// the relay application id with the largest 24-bit command code: as an answer this index is the
	// closest neighbour of the catch-all's internal key {0xffffffff, 0xffffffff, false}
	{Priv: true, App: 0xffffffff, Code: 16777215, Short: "XE", OtherApp: 0, OtherCode: 999, OtherName: "XP"},
	// a private command with a three-letter short name whose first two letters are another
	// command's short name (the "name of another command" key is CE + R/A)
	{Priv: true, App: 0, Code: 996, Short: "CEX", OtherApp: 7, OtherCode: 999, OtherName: "CE"},
	{Priv: true, App: 0, Code: 995, Short: "LONGER", OtherApp: 7, OtherCode: 999, OtherName: "LO"},
	// a private command the dictionary gives no short name at all (its name key is the bare suffix)
	{Priv: true, App: 0, Code: 997, Short: "", OtherApp: 7, OtherCode: 999, OtherName: "XP"},
	// a private command whose short name is not all upper case
	{Priv: true, App: 0, Code: 998, Short: "Hm", OtherApp: 7, OtherCode: 999, OtherName: "XP"},
	// commands that exist only in an application the AVP parent table leads to
	{Undefined: true, App: 16777251, Code: 272, Short: "CC", OtherApp: 4, OtherCode: 316, OtherName: "UL"},
	{Undefined: true, App: 16777238, Code: 265, Short: "AA", OtherApp: 1, OtherCode: 272, OtherName: "CC"},
	{Undefined: true, App: 4, Code: 265, Short: "AA", OtherApp: 1, OtherCode: 272, OtherName: "CC"},
}

var c09Priv *dict.Parser

func c09Dict(m c09Msg) *dict.Parser {
	if !m.Priv {
		return dict.Default
	}
	if c09Priv == nil {
		p, _ := dict.NewParser()
		x := `<?xml version="1.0"?><diameter><application id="0" name="Priv">
<command code="999" short="XP" name="X-Private"><request><rule avp="P-Note" required="false"/></request><answer><rule avp="P-Note" required="false"/></answer></command>
<command code="16777215" short="XE" name="X-Experimental"><request><rule avp="P-Note" required="false"/></request><answer><rule avp="P-Note" required="false"/></answer></command>
<command code="996" short="CEX" name="Capabilities-Extended"><request><rule avp="P-Note" required="false"/></request><answer><rule avp="P-Note" required="false"/></answer></command>
<command code="995" short="LONGER" name="Long-Short-Name"><request><rule avp="P-Note" required="false"/></request><answer><rule avp="P-Note" required="false"/></answer></command>
<command code="997" name="No-Short-Name"><request><rule avp="P-Note" required="false"/></request><answer><rule avp="P-Note" required="false"/></answer></command>
<command code="998" short="Hm" name="Home-Made"><request><rule avp="P-Note" required="false"/></request><answer><rule avp="P-Note" required="false"/></answer></command>
<command code="280" short="WD" name="Watch-Dog"><request><rule avp="P-Note" required="false"/></request><answer><rule avp="P-Note" required="false"/></answer></command>
<avp name="P-Note" code="9901" must="M"><data type="UTF8String"/></avp></application></diameter>`
		if err := p.Load(strings.NewReader(x)); err != nil {
			panic(err)
		}
		c09Priv = p
	}
	return c09Priv
}

// the eight registration keys relative to a message key K
var c09Keys = []string{"idxK", "idxOtherApp", "idxOtherCode", "idxOtherR", "nameK", "nameOtherSuffix", "nameOtherCmd", "ALL"}

type C09Case struct {
	Msg    int
	Req    bool
	Subset int // bit i set = key i registered
	Rereg  int // -1 none; otherwise key index registered a second time
	Extra  uint8 // further command flag bits set besides R (P 0x40, E 0x20, T 0x10, reserved 0x0f)
	// CaseReg: a handler is also registered under the command's short name with the case of its
	// letters swapped ("ceR" for "CER") - no command's name, so it never fires: 1 = registered
	// before the others, 2 = after them
	CaseReg int `json:",omitempty"`
}

func swapCase(s string) string {
	b := []byte(s)
	for i, c := range b {
		switch {
		case c >= 'a' && c <= 'z':
			b[i] = c - 32
		case c >= 'A' && c <= 'Z':
			b[i] = c + 32
		}
	}
	return string(b)
}

func (c C09Case) Desc() string {
	m := c09Msgs[c.Msg]
	var ks []string
	for i, k := range c09Keys {
		if c.Subset&(1<<uint(i)) != 0 {
			ks = append(ks, k)
		}
	}
	s := fmt.Sprintf("message app=%d code=%d request=%v registrations={%s}", m.App, m.Code, c.Req, strings.Join(ks, ","))
	if c.Rereg >= 0 {
		s += " re-registered " + c09Keys[c.Rereg]
	}
	if c.Extra != 0 {
		s += fmt.Sprintf(" further flag bits %#x", c.Extra)
	}
	if c.CaseReg != 0 {
		s += fmt.Sprintf(" + a handler under the case-swapped name %q registered %s", swapCase(m.Short)+suffix(c.Req), map[int]string{1: "first", 2: "last"}[c.CaseReg])
	}
	return s
}

func suffix(req bool) string {
	if req {
		return "R"
	}
	return "A"
}

func c09Eval(cs C09Case) string {
	return safely(func() string {
		m := c09Msgs[cs.Msg]
		mux := diam.NewServeMux()
		var fired []string
		h := func(tag string) diam.HandlerFunc {
			return func(c diam.Conn, msg *diam.Message) { fired = append(fired, tag) }
		}
		reg := func(i int, tag string) {
			switch c09Keys[i] {
			case "idxK":
				mux.HandleIdx(diam.CommandIndex{AppID: m.App, Code: m.Code, Request: cs.Req}, h(tag))
			case "idxOtherApp":
				mux.HandleIdx(diam.CommandIndex{AppID: m.OtherApp, Code: m.Code, Request: cs.Req}, h(tag))
			case "idxOtherCode":
				mux.HandleIdx(diam.CommandIndex{AppID: m.App, Code: m.OtherCode, Request: cs.Req}, h(tag))
			case "idxOtherR":
				mux.HandleIdx(diam.CommandIndex{AppID: m.App, Code: m.Code, Request: !cs.Req}, h(tag))
			case "nameK":
				mux.Handle(m.Short+suffix(cs.Req), h(tag))
			case "nameOtherSuffix":
				mux.HandleFunc(m.Short+suffix(!cs.Req), h(tag))
			case "nameOtherCmd":
				mux.Handle(m.OtherName+suffix(cs.Req), h(tag))
			case "ALL":
				// the catch-all has two spellings, the name "ALL" and the index ALL_CMD_INDEX: one key.
				// Which one registers it first rotates with the case; a re-registration uses the other
				byName := (cs.Subset>>3)&1 == 0
				if strings.HasSuffix(tag, "#2") {
					byName = !byName
				}
				if byName {
					mux.HandleFunc("ALL", h(tag))
				} else {
					mux.HandleIdx(diam.ALL_CMD_INDEX, h(tag))
				}
			}
		}
		if cs.CaseReg == 1 {
			mux.Handle(swapCase(m.Short)+suffix(cs.Req), h("case-swapped-name"))
		}
		for i := range c09Keys {
			if cs.Subset&(1<<uint(i)) != 0 {
				reg(i, c09Keys[i])
			}
		}
		if cs.Rereg >= 0 {
			reg(cs.Rereg, c09Keys[cs.Rereg]+"#2")
		}
		if cs.CaseReg == 2 {
			mux.Handle(swapCase(m.Short)+suffix(cs.Req), h("case-swapped-name"))
		}
		// reference decision table
		want := ""
		levels := []string{"idxK", "nameK", "ALL"}
		if m.Undefined {
			levels = []string{"ALL"}
		}
		for _, k := range levels {
			i := indexOf(c09Keys, k)
			if cs.Subset&(1<<uint(i)) != 0 {
				want = k
				if cs.Rereg == i {
					want = k + "#2"
				}
				break
			}
		}
		flags := cs.Extra
		if cs.Req {
			flags |= 0x80
		}
		msg := diam.NewMessage(m.Code, flags, m.App, 1, 2, c09Dict(m))
		if !m.Priv && !m.Undefined && (cs.Subset+cs.Rereg)%2 == 0 {
			// every other case: the message was READ off a connection as another command (a watchdog
			// request) and its header is rewritten before dispatch, as a translating relay does -
			// dispatch goes by the header the message has now
			wire, _ := diam.NewMessage(280, 0x80, 0, 1, 2, dict.Default).Serialize()
			if rm, err := diam.ReadMessage(bytes.NewReader(wire), dict.Default); err == nil {
				rm.Header.CommandCode, rm.Header.ApplicationID, rm.Header.CommandFlags = m.Code, m.App, flags
				msg = rm
			}
		}
		if m.Undefined {
			if cmd, err := c09Dict(m).FindCommand(m.App, m.Code); err == nil {
				return fmt.Sprintf("the dictionary defines command %d neither for application %d nor for the base application, yet FindCommand resolves it to %q", m.Code, m.App, cmd.Short)
			}
		} else if _, err := c09Dict(m).FindCommand(m.App, m.Code); err != nil {
			return "the message's own dictionary defines this command (directly or through its base application) but FindCommand does not resolve it: " + err.Error()
		}
		mux.ServeDIAM(nil, msg)
		reports := 0
		for {
			select {
			case <-mux.ErrorReports():
				reports++
				continue
			default:
			}
			break
		}
		got := strings.Join(fired, "+")
		if got != want {
			return fmt.Sprintf("handler(s) fired: [%s], the decision table selects [%s]", got, want)
		}
		if want == "" && reports != 1 {
			return fmt.Sprintf("no handler matches but %d error reports were offered (expected exactly one)", reports)
		}
		if want != "" && reports != 0 {
			return fmt.Sprintf("handler %s ran and %d error reports were offered as well", want, reports)
		}
		return ""
	})
}

// C09Hist is a history of registrations and dispatches on one ServeMux: op i in 0..7
// registers key i (again) with a fresh handler, op 8 dispatches the message.
type C09Hist struct {
	Msg int
	Req bool
	Ops []int
}

func (h C09Hist) Desc() string {
	m := c09Msgs[h.Msg]
	var ops []string
	for _, o := range h.Ops {
		if o == 8 {
			ops = append(ops, "dispatch")
		} else if o == 9 {
			ops = append(ops, "dispatch(handler panics, caller recovers)")
		} else {
			ops = append(ops, "register("+c09Keys[o]+")")
		}
	}
	return fmt.Sprintf("message app=%d code=%d request=%v history: %s", m.App, m.Code, h.Req, strings.Join(ops, ", "))
}

// c09HistEval replays a history on a real ServeMux and on the reference model (a map from key
// to the latest handler), comparing every dispatch.
func c09HistEval(h C09Hist) string {
	return safely(func() string {
		m := c09Msgs[h.Msg]
		mux := diam.NewServeMux()
		var fired []string
		panicNow, panicked := false, false
		model := map[string]string{}
		gen := 0
		flags := uint8(0)
		if h.Req {
			flags = 0x80
		}
		for step, o := range h.Ops {
			if o < 8 {
				gen++
				tag := fmt.Sprintf("%s#%d", c09Keys[o], gen)
				hf := diam.HandlerFunc(func(c diam.Conn, msg *diam.Message) {
					fired = append(fired, tag)
					if panicNow {
						panic("handler panic (injected)")
					}
				})
				register := func(f func()) string {
					if !panicked {
						f()
						return ""
					}
					if c09LockLeak {
						return "" // already reported once in this process: do not wait again
					}
					// after a recovered handler panic a registration must still return; if the mux were
					// left locked it would block for ever - the 30 s are only ever waited on that path
					done := make(chan struct{})
					go func() { f(); close(done) }()
					select {
					case <-done:
						return ""
					case <-time.After(30 * time.Second):
						c09LockLeak = true
						return fmt.Sprintf("step %d: registering %s did not return within 30 s after a handler had panicked during an earlier dispatch (the caller recovered, as the connection's serve loop does)", step, c09Keys[o])
					}
				}
				var blocked string
				switch c09Keys[o] {
				case "idxK":
					blocked = register(func() { mux.HandleIdx(diam.CommandIndex{AppID: m.App, Code: m.Code, Request: h.Req}, hf) })
				case "idxOtherApp":
					blocked = register(func() { mux.HandleIdx(diam.CommandIndex{AppID: m.OtherApp, Code: m.Code, Request: h.Req}, hf) })
				case "idxOtherCode":
					blocked = register(func() { mux.HandleIdx(diam.CommandIndex{AppID: m.App, Code: m.OtherCode, Request: h.Req}, hf) })
				case "idxOtherR":
					blocked = register(func() { mux.HandleIdx(diam.CommandIndex{AppID: m.App, Code: m.Code, Request: !h.Req}, hf) })
				case "nameK":
					blocked = register(func() { mux.Handle(m.Short+suffix(h.Req), hf) })
				case "nameOtherSuffix":
					blocked = register(func() { mux.Handle(m.Short+suffix(!h.Req), hf) })
				case "nameOtherCmd":
					blocked = register(func() { mux.Handle(m.OtherName+suffix(h.Req), hf) })
				case "ALL":
					if gen%2 == 0 {
						blocked = register(func() { mux.Handle("ALL", hf) })
					} else {
						blocked = register(func() { mux.HandleIdx(diam.ALL_CMD_INDEX, hf) })
					}
				}
				if blocked != "" {
					return blocked
				}
				model[c09Keys[o]] = tag
				continue
			}
			fired = nil
			flags := flags | []uint8{0, 0x40, 0x10, 0x20, 0x7f}[(step+len(h.Ops))%5]
			panicNow = o == 9
			func() {
				defer func() {
					if r := recover(); r != nil {
						if !panicNow {
							panic(r)
						}
						panicked = true
					}
				}()
				mux.ServeDIAM(nil, diam.NewMessage(m.Code, flags, m.App, 1, 2, c09Dict(m)))
			}()
			panicNow = false
			reports := 0
			for {
				select {
				case <-mux.ErrorReports():
					reports++
					continue
				default:
				}
				break
			}
			want := ""
			for _, k := range []string{"idxK", "nameK", "ALL"} {
				if t, ok := model[k]; ok {
					want = t
					break
				}
			}
			if got := strings.Join(fired, "+"); got != want {
				return fmt.Sprintf("step %d: handler(s) fired: [%s], the most recent registrations select [%s]", step, got, want)
			}
			if (want == "") != (reports == 1) || reports > 1 {
				return fmt.Sprintf("step %d: selected [%s] and %d error reports were offered", step, want, reports)
			}
		}
		return ""
	})
}

// c09LockLeak: a registration blocked after a recovered handler panic (reported once per process).
var c09LockLeak bool

func indexOfInt(l []int, x int) int {
	for i, v := range l {
		if v == x {
			return i
		}
	}
	return -1
}

func indexOf(l []string, s string) int {
	for i, x := range l {
		if x == s {
			return i
		}
	}
	return -1
}

func runC09(ctx *ev.Ctx) {
	n := 0
	outcomes := map[string]bool{}
	for mi := range c09Msgs {
		for _, req := range []bool{true, false} {
			for sub := 0; sub < 256; sub++ {
				for rr := -1; rr < 8; rr++ {
					if rr >= 0 && sub&(1<<uint(rr)) == 0 {
						continue
					}
					if c09Msgs[mi].Undefined && sub&1 != 0 {
						continue // an exact-index registration for an undefined command is outside the statement
					}
					// the other command flag bits rotate with the case: dispatch looks at R only
					extras := []uint8{0, 0x40, 0x10, 0x20, 0x7f}
					for caseReg := 0; caseReg <= 2; caseReg++ {
						if caseReg > 0 && c09Msgs[mi].Short == "" {
							continue // no letters to swap
						}
						cs := C09Case{Msg: mi, Req: req, Subset: sub, Rereg: rr, Extra: extras[(sub+rr+1+mi)%len(extras)], CaseReg: caseReg}
						ctx.Eval(ev.HS(cs.Desc()))
						if n%4000 == 0 {
							ctx.Sample(cs.Desc())
						}
						n++
						if what := c09Eval(cs); what != "" {
							ctx.Report("", generalise(what), what+" | case: "+cs.Desc(), cs)
						}
					}
					for _, k := range []string{"idxK", "nameK", "ALL"} {
						if sub&(1<<uint(indexOf(c09Keys, k))) != 0 {
							outcomes[k] = true
							break
						}
					}
				}
			}
		}
	}
	// histories of registrations and dispatches (every dispatch is checked): all sequences of
	// <=4 operations over {register key 0..7 with a fresh handler, dispatch} that contain a dispatch
	hn := 0
	maxLen := 5
	if ctx.Tier == "thorough" {
		maxLen = 6
	}
	for mi := range c09Msgs {
		if c09Msgs[mi].Undefined {
			continue
		}
		for _, req := range []bool{true, false} {
			var rec func(cur []int)
			rec = func(cur []int) {
				if len(cur) > 0 && cur[len(cur)-1] == 8 {
					h := C09Hist{Msg: mi, Req: req, Ops: append([]int{}, cur...)}
					ctx.Eval(ev.HS(h.Desc()))
					if hn%20000 == 0 {
						ctx.Sample(h.Desc())
					}
					hn++
					if what := c09HistEval(h); what != "" {
						ctx.Report("", generalise(what), what+" | case: "+h.Desc(), map[string]interface{}{"hist": h})
					}
				}
				if len(cur) == maxLen {
					return
				}
				for o := 0; o <= 8; o++ {
					rec(append(cur, o))
				}
				if indexOfInt(cur, 9) < 0 && len(cur) < maxLen-1 && !c09LockLeak {
					rec(append(cur, 9)) // at most one panicking dispatch per history, never the last operation
				}
			}
			rec(nil)
		}
	}
	ctx.Set("histories", hn)
	ctx.Set("distinct_selected_handlers", len(outcomes)+1)
	ctx.Rule = "histories: every sequence of <=5 (thorough 6) operations over {register one of the eight keys with a fresh handler, dispatch, dispatch during which the selected handler panics and the caller recovers as the serve loop does (at most once)} ending in a dispatch, replayed on one ServeMux with every dispatch compared with a reference model (map key -> latest handler; index, then name, then catch-all); AND the complete decision table: for 13 message keys (base DW - whose code a private dictionary used in the same process names differently, private commands with three- and six-letter short names whose first two letters are the 'other command' key, a private command without a short name, one whose short name is mixed-case, application 0xffffffff with command code 2^24-1, base CE, application CC, RA under Gx which redefines it, RA under S6a which resolves through the base dictionary, and three messages carrying a private dictionary whose base application defines a command the default dictionary lacks and names code 280 differently; plus three (application, code) pairs whose command exists only in an application that the AVP parent table - not command lookup - leads to: only the catch-all may see those) x request/answer (the other command flag bits P, E, T and the reserved bits rotate with the case: only R selects; every other message was read off a stream as a different command and had its header rewritten before dispatch): all 2^8 subsets of the registrations {index K, index with other application, other code, other R bit, name of K, name with the other suffix, name of another command, ALL - registered under the name \"ALL\" or under the index ALL_CMD_INDEX, a re-registration using the other spelling}, and every single re-registration of a present key with a second handler; each of these without, before and after a registration under the short name with the case of its letters swapped (no command's name: it must stay inert); the handler that fires and the number of error reports are compared with the reference decision (index, then name, then catch-all, else exactly one report)."
	ctx.Assume = []string{"exact-index and name registrations are judged for commands the dictionary defines (incoming messages have passed ReadMessage); for undefined commands only the catch-all / error-report rows are judged"}
}

func replayC09(ctx *ev.Ctx, raw json.RawMessage) string {
	var hh struct {
		Hist *C09Hist `json:"hist"`
	}
	if json.Unmarshal(raw, &hh) == nil && hh.Hist != nil {
		fmt.Println("  case:", hh.Hist.Desc())
		return c09HistEval(*hh.Hist)
	}
	var cs C09Case
	if err := json.Unmarshal(raw, &cs); err != nil {
		ev.Infra("replay: %v", err)
	}
	fmt.Println("  case:", cs.Desc())
	return c09Eval(cs)
}
