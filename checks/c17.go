package checks

import (
	"github.com/fiorix/go-diameter/v4/diam"
	"github.com/fiorix/go-diameter/v4/diam/avp"
	"os/exec"
	"path/filepath"
	"os"
	"bytes"
	"encoding/json"
	"fmt"
	"go/ast"
	"go/parser"
	"go/token"
	"regexp"
	"sort"
	"strconv"
	"strings"

	"github.com/fiorix/go-diameter/v4/diam/datatype"
	"github.com/fiorix/go-diameter/v4/diam/dict"
	"verif/internal/atoms"
	"verif/internal/ev"
	"verif/internal/refdict"
)

// C17 — dictionary lookups resolve through the application, its parents, then base.

func init() {
	Registry["C17"] = &Check{Run: runC17, Replay: replayC17, Sharded: true, Parent: c17Parent}
}

type C17Case struct {
	History string // name of the loading history
	Step    int    // number of dictionaries loaded
	Query   string
	Ctor    bool `json:",omitempty"` // the dictionaries were handed to dict.NewParser in one call
}

type c17History struct {
	name string
	xmls []string
	// viaFile: every dictionary is written to a file and loaded with Parser.LoadFile; equal XML
	// strings use one path (the same file loaded again), edits[i] != "" replaces the CONTENT of the
	// file step i is loaded from (an edited file reloaded from the same path)
	viaFile bool
	samePathAs map[int]int // step -> earlier step whose path it reuses although the content differs
}

func c17Family() []string {
	mk := func(app string, typ string, avps ...string) string {
		t := ""
		if typ != "" {
			t = ` type="` + typ + `"`
		}
		return `<?xml version="1.0"?><diameter><application id="` + app + `"` + t + ` name="F` + app + `">` + strings.Join(avps, "") + `</application></diameter>`
	}
	avp := func(name string, code int, vendor int, typ string) string {
		v := ""
		if vendor != 0 {
			v = fmt.Sprintf(` vendor-id="%d"`, vendor)
		}
		return fmt.Sprintf(`<avp name="%s" code="%d" must="M"%s><data type="%s"/></avp>`, name, code, v, typ)
	}
	return []string{
		mk("0", "", avp("X", 9001, 0, "Unsigned32"), avp("Y", 9002, 0, "UTF8String"), avp("Z", 9003, 7, "OctetString")),
		mk("4", "auth", avp("X-App4", 9001, 0, "UTF8String"), avp("Y", 9002, 7, "Unsigned64"), avp("W", 9004, 0, "Time")),
		mk("16777251", "auth", avp("X", 9001, 0, "OctetString"), avp("Z-Plain", 9003, 0, "Integer32"), avp("W", 9004, 9, "Address")),
		mk("0", "", avp("X-Redefined", 9001, 0, "Unsigned64"), avp("Z", 9003, 7, "Time"), avp("V", 9005, 0, "Enumerated")),
	}
}

func c17Histories() []c17History {
	emb := embedded()
	var base []string
	for _, e := range emb {
		base = append(base, e.XML)
	}
	var hs []c17History
	hs = append(hs, c17History{name: "embedded/default-order", xmls: base})
	for r := 1; r < len(base); r++ {
		hs = append(hs, c17History{name: fmt.Sprintf("embedded/rotation-%d", r), xmls: append(append([]string{}, base[r:]...), base[:r]...)})
	}
	for i := 0; i+1 < len(base); i++ {
		x := append([]string{}, base...)
		x[i], x[i+1] = x[i+1], x[i]
		hs = append(hs, c17History{name: fmt.Sprintf("embedded/swap-%d-%d", i, i+1), xmls: x})
	}
	fam := c17Family()
	perm := [][]int{}
	var rec func(cur []int, used int)
	rec = func(cur []int, used int) {
		if len(cur) == 4 {
			perm = append(perm, append([]int{}, cur...))
			return
		}
		for i := 0; i < 4; i++ {
			if used&(1<<uint(i)) == 0 {
				rec(append(cur, i), used|1<<uint(i))
			}
		}
	}
	rec(nil, 0)
	for _, p := range perm {
		var x []string
		for _, i := range p {
			x = append(x, fam[i])
		}
		hs = append(hs, c17History{name: fmt.Sprintf("generated-family/order-%v", p), xmls: x})
		// the family on top of the base dictionary
		hs = append(hs, c17History{name: fmt.Sprintf("base+generated-family/order-%v", p), xmls: append([]string{base[0]}, x...)})
	}
	// the same dictionary loaded again after another one redefined its AVPs (most recently loaded
	// wins), and a file that is edited and loaded again from the same path - through Load(io.Reader)
	// and through LoadFile
	grown := strings.Replace(fam[1], `</application>`, `<avp name="Added-Later" code="9044" must="M"><data type="Unsigned32"/></avp></application>`, 1)
	for _, viaFile := range []bool{false, true} {
		tag := map[bool]string{false: "reader", true: "file"}[viaFile]
		hs = append(hs, c17History{name: "reload/" + tag + "/f0-f3-f0", xmls: []string{fam[0], fam[3], fam[0]}, viaFile: viaFile})
		hs = append(hs, c17History{name: "reload/" + tag + "/f1-f2-f1-f3-f1", xmls: []string{fam[1], fam[2], fam[1], fam[3], fam[1]}, viaFile: viaFile})
		hs = append(hs, c17History{name: "reload/" + tag + "/edited-file", xmls: []string{fam[0], fam[1], grown}, viaFile: viaFile, samePathAs: map[int]int{2: 1}})
	}
	// one application id declared under two types by successive loads (as NASREQ id 1 is both an
	// Auth- and an Acct-Application-Id): a lookup by (id, type) that resolved keeps resolving
	{
		typed := func(typ, name string, code int) string {
			return fmt.Sprintf(`<?xml version="1.0" encoding="UTF-8"?><diameter><application id="9100" type="%s" name="%s"><avp name="%s-Thing" code="%d" must="M"><data type="Unsigned32"/></avp></application></diameter>`, typ, name, name, code)
		}
		au, ac := typed("auth", "Typed-Auth", 9101), typed("acct", "Typed-Acct", 9102)
		hs = append(hs, c17History{name: "retyped-application/auth-acct", xmls: []string{au, ac}})
		hs = append(hs, c17History{name: "retyped-application/acct-auth", xmls: []string{ac, au}})
		hs = append(hs, c17History{name: "retyped-application/auth-acct-auth", xmls: []string{au, ac, au}})
		hs = append(hs, c17History{name: "retyped-application/base-auth-acct", xmls: []string{base[0], au, ac}})
	}
	// one dictionary that declares the same AVP NAME under two codes (two vendors' code spaces, or an
	// entry corrected further down the file), the later declaration carrying the LOWER code: a lookup
	// by name yields the later declaration, from the application itself and from a child application
	{
		x := `<?xml version="1.0" encoding="UTF-8"?><diameter><application id="0" name="Base">
<avp name="Twice-Named" code="9700" must="M"><data type="Unsigned32"/></avp>
<avp name="Between" code="9650" must="M"><data type="UTF8String"/></avp>
<avp name="Twice-Named" code="9600" must="M" vendor-id="20000"><data type="Unsigned64"/></avp>
<avp name="Zone" code="9502" must="M" vendor-id="9"><data type="Unsigned32"/></avp>
<avp name="Zone" code="9501" must="M" vendor-id="9"><data type="OctetString"/></avp>
</application></diameter>`
		y := strings.Replace(strings.Replace(x, `id="0" name="Base"`, `id="9101" type="auth" name="Sorted"`, 1), "Twice-Named", "Twice-Named-App", -1)
		hs = append(hs, c17History{name: "same-name-two-codes/base", xmls: []string{x}})
		hs = append(hs, c17History{name: "same-name-two-codes/app-then-base", xmls: []string{y, x}})
		hs = append(hs, c17History{name: "same-name-two-codes/on-top-of-base", xmls: []string{base[0], x, y}})
	}
	// a dictionary that declares applications and commands but not a single AVP
	hs = append(hs, c17History{name: "commands-only", xmls: []string{`<?xml version="1.0" encoding="UTF-8"?><diameter><application id="0" name="Relay">
<command code="257" short="CE" name="Capabilities-Exchange"><request></request><answer></answer></command>
<command code="280" short="DW" name="Device-Watchdog"><request></request><answer></answer></command></application>
<application id="9102" type="auth" name="Relayed"></application></diameter>`, fam[0]}})
	// one file with several <application> elements: bare re-declarations of already loaded
	// applications (as one writes to name a dependency) before, between and after populated ones
	multi := func(order string) string {
		var b strings.Builder
		b.WriteString(`<?xml version="1.0" encoding="UTF-8"?><diameter>`)
		for _, ch := range order {
			switch ch {
			case 'b': // bare element for an application loaded earlier
				b.WriteString(`<application id="4" type="auth" name="Bare-4"></application>`)
			case 'z': // bare element for the base application
				b.WriteString(`<application id="0" name="Bare-0"></application>`)
			case 'p':
				b.WriteString(`<application id="16777301" type="auth" name="Multi-P"><command code="8388001" short="MP" name="Multi-P-Cmd"><request><rule avp="Multi-P-Note" required="false"/></request><answer><rule avp="Multi-P-Note" required="false"/></answer></command><avp name="Multi-P-Note" code="9101" must="M" may="P" must-not="V" may-encrypt="-"><data type="UTF8String"/></avp></application>`)
			case 'q':
				b.WriteString(`<application id="16777302" type="acct" name="Multi-Q"><avp name="Multi-Q-Num" code="9102" must="-" may="P" must-not="-" may-encrypt="-" vendor-id="7777"><data type="Unsigned32"/></avp></application>`)
			}
		}
		b.WriteString(`</diameter>`)
		return b.String()
	}
	for _, order := range []string{"bp", "pb", "bpq", "pbq", "pqb", "zbpq", "bzqp"} {
		hs = append(hs, c17History{name: "multi-application-file/" + order, xmls: []string{base[0], base[1], multi(order)}})
		hs = append(hs, c17History{name: "multi-application-file/fresh/" + order, xmls: []string{multi(order)}})
	}
	return hs
}

func cmpAVP(got *dict.AVP, err error, want *refdict.XAVP, isU32 bool, app, code, vendor uint32) string {
	if want == nil {
		if isU32 {
			// undefined numeric code: an opaque placeholder so that decoding can proceed
			if got == nil {
				return "undefined uint32 code: no placeholder returned"
			}
			if got.Data.Type != datatype.UnknownType || got.Code != code {
				return fmt.Sprintf("undefined uint32 code resolved to %q (code %d, type %s)", got.Name, got.Code, got.Data.TypeName)
			}
			return ""
		}
		if err == nil && got != nil {
			return fmt.Sprintf("undefined key resolved to %q (code %d, vendor %d)", got.Name, got.Code, got.VendorID)
		}
		return ""
	}
	if got == nil || err != nil {
		return fmt.Sprintf("not resolved (err %v); the reference resolves it to %q (app %d, code %d, vendor %d, %s)", err, want.Name, want.App, want.Code, want.Vendor, want.Data.Type)
	}
	if got.Name != want.Name || got.Code != want.Code || got.VendorID != want.Vendor || got.Data.TypeName != want.Data.Type || got.App == nil || got.App.ID != want.App {
		ga := uint32(0)
		if got.App != nil {
			ga = got.App.ID
		}
		return fmt.Sprintf("resolved to %q (app %d, code %d, vendor %d, %s); the reference resolves it to %q (app %d, code %d, vendor %d, %s)",
			got.Name, ga, got.Code, got.VendorID, got.Data.TypeName, want.Name, want.App, want.Code, want.Vendor, want.Data.Type)
	}
	return ""
}

// c17Queries compares every lookup of the key space between the library parser and the model.
// It returns the number of queries and the first disagreement.
// c17Future is the model of ALL dictionaries of the history being run: its applications, codes
// and names are asked for after every Load, i.e. also while they are still undefined (a lookup
// made before a definition is loaded must not influence the lookups made afterwards).
var c17Future *refdict.Model

func c17Queries(p *dict.Parser, m *refdict.Model, prevResolvable map[string]bool, nowResolvable map[string]bool) (int, string, string) {
	apps := append([]uint32{}, m.AppIDs()...)
	if c17Future != nil {
		apps = append(apps, c17Future.AppIDs()...)
	}
	for child := range refdict.Parents {
		apps = append(apps, child)
	}
	apps = append(apps, 0, 999)
	seenApp := map[uint32]bool{}
	var uapps []uint32
	for _, a := range apps {
		if !seenApp[a] {
			seenApp[a] = true
			uapps = append(uapps, a)
		}
	}
	sort.Slice(uapps, func(i, j int) bool { return uapps[i] < uapps[j] })
	// key space: every (code, vendor) and (name, vendor) present anywhere, neighbours, other vendors
	type ck struct{ code, vendor uint32 }
	type nk struct {
		name   string
		vendor uint32
	}
	codes := map[ck]bool{}
	names := map[nk]bool{}
	for _, v := range m.All {
		for _, ven := range []uint32{v.Vendor, 0, 4242, refdict.AnyVendor} {
			codes[ck{v.Code, ven}] = true
			names[nk{v.Name, ven}] = true
		}
		codes[ck{v.Code + 1, v.Vendor}] = true
		codes[ck{v.Code - 1, refdict.AnyVendor}] = true
	}
	if c17Future != nil {
		for _, v := range c17Future.All {
			for _, ven := range []uint32{v.Vendor, refdict.AnyVendor} {
				codes[ck{v.Code, ven}] = true
				names[nk{v.Name, ven}] = true
			}
		}
	}
	names[nk{"No-Such-AVP", refdict.AnyVendor}] = true
	n := 0
	for _, app := range uapps {
		for k := range codes {
			want := m.FindCode(app, k.code, k.vendor)
			got, err := p.FindAVPWithVendor(app, k.code, k.vendor)
			n++
			q := fmt.Sprintf("FindAVPWithVendor(%d, uint32(%d), %d)", app, k.code, k.vendor)
			if s := cmpAVP(got, err, want, true, app, k.code, k.vendor); s != "" {
				return n, q, s
			}
			if want != nil {
				nowResolvable[q] = true
			}
			// the same lookup with the code given as a Go int (what the untyped avp.* constants are)
			got, err = p.FindAVPWithVendor(app, int(k.code), k.vendor)
			n++
			if s := cmpAVP(got, err, want, false, app, k.code, k.vendor); s != "" {
				return n, fmt.Sprintf("FindAVPWithVendor(%d, int(%d), %d)", app, k.code, k.vendor), s
			}
			if k.vendor == refdict.AnyVendor {
				got, err = p.FindAVP(app, int(k.code))
				n++
				if s := cmpAVP(got, err, want, false, app, k.code, k.vendor); s != "" {
					return n, fmt.Sprintf("FindAVP(%d, int(%d))", app, k.code), s
				}
			}
		}
		// lookups of one code under different vendor ids directly after one another (a lookup must not
		// depend on the one made just before it)
		for _, v := range m.All {
			for _, pair := range [][2]uint32{{v.Vendor, 4242}, {4242, v.Vendor}, {v.Vendor, refdict.AnyVendor}, {refdict.AnyVendor, 4242}, {v.Vendor, 0}, {0, v.Vendor}} {
				if pair[0] == pair[1] {
					continue
				}
				p.FindAVPWithVendor(app, v.Code, pair[0])
				want := m.FindCode(app, v.Code, pair[1])
				got, err := p.FindAVPWithVendor(app, v.Code, pair[1])
				n++
				if s := cmpAVP(got, err, want, true, app, v.Code, pair[1]); s != "" {
					return n, fmt.Sprintf("FindAVPWithVendor(%d, uint32(%d), %d) directly after the same lookup with vendor %d", app, v.Code, pair[1], pair[0]), s
				}
			}
		}
		for k := range names {
			want := m.FindName(app, k.name, k.vendor)
			got, err := p.FindAVPWithVendor(app, k.name, k.vendor)
			n++
			q := fmt.Sprintf("FindAVPWithVendor(%d, %q, %d)", app, k.name, k.vendor)
			if s := cmpAVP(got, err, want, false, app, 0, k.vendor); s != "" {
				return n, q, s
			}
			if want != nil {
				nowResolvable[q] = true
			}
		}
		// commands
		cmdCodes := map[uint32]bool{}
		for k := range m.Cmd {
			cmdCodes[k[1]] = true
			cmdCodes[k[1]+1] = true
		}
		for code := range cmdCodes {
			want := m.FindCommand(app, code)
			got, err := p.FindCommand(app, code)
			n++
			q := fmt.Sprintf("FindCommand(%d, %d)", app, code)
			switch {
			case want == nil && err == nil:
				return n, q, fmt.Sprintf("undefined command resolved to %q", got.Name)
			case want != nil && (err != nil || got == nil):
				return n, q, fmt.Sprintf("not resolved (%v); the reference resolves it to %q", err, want.Name)
			case want != nil && (got.Name != want.Name || got.Short != want.Short || got.Code != want.Code || len(got.Request.Rule) != len(want.Req.Rules) || len(got.Answer.Rule) != len(want.Ans.Rules)):
				return n, q, fmt.Sprintf("resolved to %q/%s, the reference resolves it to %q/%s", got.Name, got.Short, want.Name, want.Short)
			}
			if want != nil {
				nowResolvable[q] = true
			}
		}
		// application ids
		for _, typ := range [][]string{nil, {"auth"}, {"acct"}, {"bogus"}} {
			want := m.App(app, typ...)
			got, err := p.App(app, typ...)
			n++
			q := fmt.Sprintf("App(%d, %v)", app, typ)
			switch {
			case want == nil && err == nil:
				return n, q, fmt.Sprintf("resolved to %q although the reference does not resolve it", got.Name)
			case want != nil && (err != nil || got == nil):
				return n, q, fmt.Sprintf("not resolved (%v); the reference resolves it to %q (%s)", err, want.Name, want.Type)
			case want != nil && (got.ID != want.ID || got.Type != want.Type || got.Name != want.Name):
				return n, q, fmt.Sprintf("resolved to %q (%s), the reference resolves it to %q (%s)", got.Name, got.Type, want.Name, want.Type)
			}
			if want != nil {
				nowResolvable[q] = true
			}
		}
	}
	// monotonicity: everything resolvable before is still resolvable
	for q := range prevResolvable {
		if !nowResolvable[q] {
			return n, q, "was resolvable before the last Load and is not any more"
		}
	}
	return n, "", ""
}

func c17RunHistory(h c17History, ctx *ev.Ctx) (queries int, cs *C17Case, what string) {
	defer func() {
		if r := recover(); r != nil {
			cs, what = &C17Case{History: h.name}, fmt.Sprintf("PANIC: %v", r)
		}
	}()
	p, _ := dict.NewParser()
	m := refdict.NewModel()
	prev := map[string]bool{}
	c17Future = refdict.NewModel()
	for _, x := range h.xmls {
		c17Future.Load(x)
	}
	defer func() { c17Future = nil }()
	var dir string
	paths := map[string]string{}
	stepPath := map[int]string{}
	if h.viaFile {
		d, err := os.MkdirTemp("", "c17-files-")
		if err != nil {
			ev.Infra("%v", err)
		}
		dir = d
		defer os.RemoveAll(dir)
	}
	// before anything is loaded: a parser without a single definition still hands out the opaque
	// placeholder for every numeric code (a relay that forwards AVPs it knows nothing about)
	{
		now := map[string]bool{}
		n, q, s := c17Queries(p, m, prev, now)
		queries += n
		if s != "" {
			return queries, &C17Case{History: h.name, Step: 0, Query: q}, fmt.Sprintf("before any dictionary is loaded, %s: %s", q, s)
		}
		prev = now
	}
	for i, x := range h.xmls {
		var lerr error
		if h.viaFile {
			path, ok := paths[x]
			if j, same := h.samePathAs[i]; same {
				path, ok = stepPath[j], true
			}
			if !ok {
				path = filepath.Join(dir, fmt.Sprintf("dict%d.xml", i))
				paths[x] = path
			}
			stepPath[i] = path
			if err := os.WriteFile(path, []byte(x), 0o644); err != nil {
				ev.Infra("%v", err)
			}
			if i%2 == 1 {
				path = filepath.Join(filepath.Dir(path), ".", filepath.Base(path)) // another spelling of the same path
			}
			lerr = p.LoadFile(path)
		} else {
			lerr = p.Load(bytes.NewReader([]byte(x)))
		}
		if err := lerr; err != nil {
			return queries, &C17Case{History: h.name, Step: i + 1}, "Load failed: " + err.Error()
		}
		if err := m.Load(x); err != nil {
			ev.Infra("reference model: %v", err)
		}
		now := map[string]bool{}
		n, q, s := c17Queries(p, m, prev, now)
		queries += n
		if s != "" {
			return queries, &C17Case{History: h.name, Step: i + 1, Query: q}, fmt.Sprintf("after loading %d dictionaries, %s: %s", i+1, q, s)
		}
		prev = now
		if i != 0 && i != len(h.xmls)-1 {
			continue
		}
		// Loads that are REJECTED (after the first and after the last dictionary of the history):
		// whatever Load reports, nothing resolvable before may become unresolvable, and everything
		// still agrees with the reference model (which only learns what Load accepted).
		for ri, bad := range c17Rejected(m) {
			if err := p.Load(bytes.NewReader([]byte(bad.xml))); err == nil {
				if err := m.Load(bad.xml); err != nil {
					return queries, &C17Case{History: h.name, Step: i + 1}, fmt.Sprintf("after loading %d dictionaries a dictionary that %s was accepted by Load", i+1, bad.why)
				}
			}
			now := map[string]bool{}
			n, q, s := c17Queries(p, m, prev, now)
			queries += n
			if s != "" {
				return queries, &C17Case{History: h.name, Step: i + 1, Query: q}, fmt.Sprintf("after loading %d dictionaries and then a rejected Load (#%d: %s), %s: %s", i+1, ri+1, bad.why, q, s)
			}
			prev = now
		}
	}
	return queries, nil, ""
}

// c17RunCtor: the history's dictionaries are written to files and handed to dict.NewParser in one
// call; the files are loaded in argument order, so the lookups agree with the reference model
// loaded in that order. Repeated a few times (a constructor is called at start-up, every time).
func c17RunCtor(h c17History, ctx *ev.Ctx) (queries int, cs *C17Case, what string) {
	defer func() {
		if r := recover(); r != nil {
			cs, what = &C17Case{History: h.name}, fmt.Sprintf("PANIC: %v", r)
		}
	}()
	dir, err := os.MkdirTemp("", "c17-ctor-")
	if err != nil {
		ev.Infra("%v", err)
	}
	defer os.RemoveAll(dir)
	var paths []string
	m := refdict.NewModel()
	c17Future = refdict.NewModel()
	defer func() { c17Future = nil }()
	for i, x := range h.xmls {
		path := filepath.Join(dir, fmt.Sprintf("dict%d.xml", i))
		if err := os.WriteFile(path, []byte(x), 0o644); err != nil {
			ev.Infra("%v", err)
		}
		paths = append(paths, path)
		if err := m.Load(x); err != nil {
			ev.Infra("reference model: %v", err)
		}
		c17Future.Load(x)
	}
	for round := 0; round < 5; round++ {
		p, err := dict.NewParser(paths...)
		if err != nil {
			return queries, &C17Case{History: h.name}, "dict.NewParser(files...) failed: " + err.Error()
		}
		n, q, s := c17Queries(p, m, map[string]bool{}, map[string]bool{})
		queries += n
		if s != "" {
			return queries, &C17Case{History: h.name, Query: q}, fmt.Sprintf("after dict.NewParser with %d files (loaded in argument order), %s: %s", len(paths), q, s)
		}
	}
	return queries, nil, ""
}

type c17Bad struct{ xml, why string }

// c17Rejected builds dictionaries a Load must reject without having added anything the lookups
// could see: a re-declaration of an existing command (one per application that has commands, at
// most three), an AVP of an undeclarable data type in the base application and in one loaded
// application, and XML that stops in the middle.
func c17Rejected(m *refdict.Model) []c17Bad {
	var out []c17Bad
	seen := map[uint32]bool{}
	for _, f := range m.Files {
		for _, a := range f.Apps {
			if seen[a.ID] || len(a.Cmds) == 0 || len(seen) >= 3 {
				continue
			}
			seen[a.ID] = true
			c := a.Cmds[0]
			// the application element itself repeats the CURRENT definition (a partial load may
			// register it before the command is rejected)
			if cur := m.App(a.ID); cur != nil {
				a = cur
			}
			typ := ""
			if a.Type != "" {
				typ = fmt.Sprintf(` type="%s"`, a.Type)
			}
			out = append(out, c17Bad{fmt.Sprintf(`<?xml version="1.0" encoding="UTF-8"?><diameter><application id="%d"%s name="%s"><command code="%d" short="%s" name="%s"><request></request><answer></answer></command></application></diameter>`,
				a.ID, typ, a.Name, c.Code, c.Short, c.Name), fmt.Sprintf("declares command %d of application %d again", c.Code, a.ID)})
		}
	}
	ids := []uint32{0}
	for id := range seen {
		if id != 0 {
			ids = append(ids, id)
			break
		}
	}
	for _, id := range ids {
		a := m.App(id)
		if a == nil {
			continue // a partial load would register the application itself
		}
		typ, name := "", a.Name
		if a.Type != "" {
			typ = fmt.Sprintf(` type="%s"`, a.Type)
		}
		out = append(out, c17Bad{fmt.Sprintf(`<?xml version="1.0" encoding="UTF-8"?><diameter><application id="%d"%s name="%s"><avp name="Zz-Bad-Type" code="4199999" must="-" may="-" must-not="-" may-encrypt="-"><data type="Unsigned16"/></avp></application></diameter>`,
			id, typ, name), fmt.Sprintf("declares an AVP of the undeclarable type Unsigned16 in application %d", id)})
	}
	out = append(out, c17Bad{`<?xml version="1.0" encoding="UTF-8"?><diameter><application id="4199997" name="Zz"><avp name="Zz-Cut" code="4199998"`, "is cut off in the middle of an element"})
	return out
}

func runC17(ctx *ev.Ctx) {
	var total int64
	for _, h := range c17Histories() {
		if !ctx.Mine() || ctx.Stop() {
			continue
		}
		ctx.Eval(ev.HS(h.name))
		n, cs, what := c17RunHistory(h, ctx)
		total += int64(n)
		if what == "" && (strings.HasPrefix(h.name, "generated-family/") || strings.HasPrefix(h.name, "base+generated-family/") || strings.HasPrefix(h.name, "reload/reader/")) {
			// the same dictionaries handed to the constructor in one call
			n2, cs2, what2 := c17RunCtor(h, ctx)
			total += int64(n2)
			if what2 != "" {
				cs, what = cs2, what2
				if cs != nil {
					cs.Ctor = true
				}
			}
		}
		ctx.Sample(fmt.Sprintf("loading history %s (%d dictionaries): %d lookups compared", h.name, len(h.xmls), n))
		if what != "" {
			ctx.Report("", generalise(what), what+" | history: "+h.name, cs)
		}
	}
	ctx.Set("lookups_compared", total)
	ctx.AddEvals(total, total)
	ctx.Rule = "six undeclarable data type names x six places in a dictionary file (alone, first, middle, last, in the first / second of two applications): Load is rejected; a data type registered by the application (datatype.Available + datatype.Decoder) after the process has decoded messages, declared by a dictionary loaded afterwards, is encoded and decoded; three child processes whose first use of dict.Default is Load / LoadFile of a dictionary that re-declares embedded AVPs / one lookup and then the Load (control): the definitions loaded last win in all three, which resolve identically; the generated-family and reload histories also through dict.NewParser(file1, file2, ...) in one call (five times each): argument order is load order; every history is also queried before its first load (an empty parser hands out placeholders), and one history starts with a dictionary that declares commands but no AVP; loading histories: a dictionary loaded again after another one redefined its AVPs and a file edited and reloaded from the same path (through Load and through LoadFile with temporary files); one dictionary declaring an AVP name under two codes, the later one with the lower code; one application id declared under two types by successive loads; dictionary files with several application elements (bare re-declarations of loaded applications before / between / after populated ones); the embedded dictionaries (extracted from diam/dict/default.go) in default order, every rotation and every adjacent swap; a generated family of four 3-AVP dictionaries that redefine each other's codes and names across application 0 / 4 / 16777251 and vendor variants, in all 24 orders, alone and on top of the base dictionary. After every Load - and after Loads that are rejected (a re-declared command, an undeclarable data type, truncated XML) following the first and the last dictionary of each history: FindAVPWithVendor by uint32 code, by int code and by name, FindAVP by int, FindCommand and App(id[,type]) for every application (loaded, children of the parent map, 0, an unrelated id) x every code / name present anywhere plus +-1 neighbours x vendor {declared, 0, another, wildcard}, plus every code looked up under two different vendor ids directly after one another, (the key space is that of ALL dictionaries of the history, so keys are also looked up while still undefined) are compared with the reference model, and everything resolvable before the Load must still be. Distinct by (history, query)."
	ctx.Assume = []string{"reference model refdict: application -> documented parents (16777251->4, 16777238->4, 4->1) -> base; exact vendor or wildcard; last load wins"}
}

// c17Parent: type table and exported constants (run once).
// c17LateType is an application-defined data type (one octet).
type c17LateType uint8

func (v c17LateType) Serialize() []byte     { return []byte{byte(v)} }
func (v c17LateType) Len() int              { return 1 }
func (v c17LateType) Padding() int          { return 3 }
func (v c17LateType) Type() datatype.TypeID { return datatype.TypeID(201) }
func (v c17LateType) String() string        { return fmt.Sprintf("Late{%d}", uint8(v)) }

// c17LateRegistration: an application registers a data type of its own (name in
// datatype.Available, decoder in datatype.Decoder) AFTER the process has decoded plenty of
// messages, loads a dictionary that declares an AVP of that type, and exchanges it: the type name
// is one "a dictionary may declare", so it can be encoded and decoded from then on.
func c17LateRegistration(ctx *ev.Ctx) {
	ctx.Eval(ev.HS("late data type registration"))
	// (decodes have happened in this process by now; make sure of it)
	if w, err := diam.NewMessage(257, 0x80, 0, 1, 1, dict.Default).Serialize(); err == nil {
		_, _ = diam.ReadMessage(bytes.NewReader(w), dict.Default)
		_, _ = datatype.Decode(datatype.Unsigned32Type, []byte{0, 0, 0, 1})
	}
	datatype.Available["Verif-Late-Type"] = datatype.TypeID(201)
	datatype.Decoder[datatype.TypeID(201)] = func(b []byte) (datatype.Type, error) {
		if len(b) != 1 {
			return nil, fmt.Errorf("Late: %d octets", len(b))
		}
		return c17LateType(b[0]), nil
	}
	defer func() { delete(datatype.Available, "Verif-Late-Type"); delete(datatype.Decoder, datatype.TypeID(201)) }()
	report := func(what string) {
		ctx.Report("", "a data type registered after the first decode", what, map[string]string{"types": "late"})
	}
	p, err := dict.NewParser()
	if err == nil {
		err = p.Load(strings.NewReader(`<?xml version="1.0" encoding="UTF-8"?><diameter><application id="0" name="Late">
<command code="9900" short="LT" name="Late-Type"><request><rule avp="Late-Value" required="false"/></request><answer><rule avp="Late-Value" required="false"/></answer></command>
<avp name="Late-Value" code="9901" must="M"><data type="Verif-Late-Type"/></avp></application></diameter>`))
	}
	if err != nil {
		report("a dictionary declaring the registered type name is rejected: " + err.Error())
		return
	}
	m := diam.NewMessage(9900, 0x80, 0, 1, 1, p)
	if _, err := m.NewAVP("Late-Value", avp.Mbit, 0, c17LateType(42)); err != nil {
		report("an AVP of the registered type cannot be created: " + err.Error())
		return
	}
	w, err := m.Serialize()
	if err != nil {
		report("a message with an AVP of the registered type cannot be encoded: " + err.Error())
		return
	}
	back, err := diam.ReadMessage(bytes.NewReader(w), p)
	if err != nil {
		report("type name \"Verif-Late-Type\" is accepted by Load and has a decoder in datatype.Decoder, but a message carrying an AVP of that type cannot be decoded: " + err.Error())
		return
	}
	if len(back.AVP) != 1 || back.AVP[0].Data != c17LateType(42) {
		report(fmt.Sprintf("the AVP of the registered type came back as %v", back.AVP))
	}
}

func c17Parent(ctx *ev.Ctx) {
	// 0. dict.Default extended before its first use, in processes of their own
	c17FreshDefault(ctx)
	defer c17LateRegistration(ctx)
	// 1. every type name a dictionary may declare is decodable and encodable
	var names []string
	for n := range datatype.Available {
		names = append(names, n)
	}
	sort.Strings(names)
	d, err := atoms.NewDict("generated", atoms.GeneratedXML())
	if err != nil {
		ctx.Report("", "a dictionary declaring every available type name cannot be loaded", err.Error(), map[string]string{"types": "load"})
		return
	}
	for _, n := range names {
		ctx.Eval(ev.HS("type " + n))
		k, ok := atoms.KindOfTypeName(n)
		if !ok {
			ctx.Report("", "type name accepted by Load is unknown to the reference codec", n, map[string]string{"type": n})
			continue
		}
		if k == atoms.KGroup {
			continue
		}
		def, err := d.P.FindAVP(0, "Gen-"+n)
		if err != nil {
			ctx.Report("", "generated AVP not found", n+": "+err.Error(), map[string]string{"type": n})
			continue
		}
		for _, v := range atoms.Values(k, false) {
			payload := v.Ref()
			got, err := datatype.Decode(def.Data.Type, payload)
			if err != nil {
				ctx.Report("type-name-accepted-by-Load-but-not-decodable", "a type name accepted by dict.Load cannot be decoded",
					fmt.Sprintf("type %s (declared in a dictionary, payload %x): %v", n, payload, err), map[string]string{"type": n})
				break
			}
			kn, p, ok := atoms.Canon(got)
			if !ok || kn != n || !bytes.Equal(p, payload) {
				if c01Class(TreeCase{Tree: []atoms.N{{V: v}}}, "") != "" {
					continue // Address representation ambiguity, recorded under C01
				}
				ctx.Report("", "a declared type decodes to a different value", fmt.Sprintf("type %s payload %x decoded as %s %x", n, payload, kn, p), map[string]string{"type": n})
				break
			}
			if enc := v.Lib().Serialize(); !bytes.Equal(enc, payload) {
				if c01Class(TreeCase{Tree: []atoms.N{{V: v}}}, "") != "" {
					continue
				}
				ctx.Report("", "a declared type encodes differently from the reference", fmt.Sprintf("type %s value %s encoded as %x, reference %x", n, v.Desc(), enc, payload), map[string]string{"type": n})
				break
			}
		}
	}
	// a type name outside the table must be rejected by Load with an error
	p, _ := dict.NewParser()
	bad := `<?xml version="1.0"?><diameter><application id="0" name="B"><avp name="Bogus" code="9999" must="M"><data type="NoSuchType"/></avp></application></diameter>`
	if err := safelyErr(func() error { return p.Load(bytes.NewReader([]byte(bad))) }); err == nil {
		ctx.Report("", "a dictionary declaring an unknown type name is accepted", "type NoSuchType", map[string]string{"type": "NoSuchType"})
	}
	ctx.Eval(ev.HS("type NoSuchType"))
	// ... wherever the AVP stands in the file: alone, first, in the middle, last, in the first of
	// two applications; and whatever the undeclarable name is
	for _, tn := range []string{"NoSuchType", "Unsigned16", "UTF8string", "IPAddress", "Unknown", ""} {
		good := func(i int) string {
			return fmt.Sprintf(`<avp name="Good-%d" code="%d" must="M"><data type="Unsigned32"/></avp>`, i, 9900+i)
		}
		badAVP := fmt.Sprintf(`<avp name="Bogus" code="9999" must="M"><data type="%s"/></avp>`, tn)
		for pi, body := range []string{
			`<application id="0" name="B">` + badAVP + `</application>`,
			`<application id="0" name="B">` + badAVP + good(1) + `</application>`,
			`<application id="0" name="B">` + good(1) + badAVP + good(2) + `</application>`,
			`<application id="0" name="B">` + good(1) + badAVP + `</application>`,
			`<application id="0" name="B">` + badAVP + `</application><application id="7" name="C">` + good(1) + `</application>`,
			`<application id="0" name="B">` + good(1) + `</application><application id="7" name="C">` + badAVP + good(2) + `</application>`,
		} {
			p, _ := dict.NewParser()
			x := `<?xml version="1.0"?><diameter>` + body + `</diameter>`
			ctx.Eval(ev.HS(fmt.Sprintf("type %q position %d", tn, pi)))
			if err := safelyErr(func() error { return p.Load(bytes.NewReader([]byte(x))) }); err == nil {
				ctx.Report("", "a dictionary declaring an unknown type name is accepted", fmt.Sprintf("type name %q, dictionary shape %d: %s", tn, pi, body), map[string]string{"type": tn, "shape": fmt.Sprint(pi)})
				break
			}
		}
	}
	// 2. exported constants equal the codes of the embedded dictionaries
	c17Constants(ctx)
}

func safelyErr(f func() error) (err error) {
	defer func() {
		if r := recover(); r != nil {
			err = fmt.Errorf("panic: %v", r)
		}
	}()
	return f()
}

var reID = regexp.MustCompile(`-Id([-s]|$)`)

func mangleAVP(name string) string {
	// autogen.sh: s/-Id\([-"s]\)/-ID\1/g ; s/-//g
	for {
		n := reID.ReplaceAllString(name, "-ID$1")
		if n == name {
			break
		}
		name = n
	}
	return strings.ReplaceAll(name, "-", "")
}

func parseConsts(path string) (ints map[string]int64, strs map[string]string) {
	ints, strs = map[string]int64{}, map[string]string{}
	fset := token.NewFileSet()
	f, err := parser.ParseFile(fset, path, nil, 0)
	if err != nil {
		ev.Infra("%v", err)
	}
	for _, d := range f.Decls {
		gd, ok := d.(*ast.GenDecl)
		if !ok || gd.Tok != token.CONST {
			continue
		}
		for _, sp := range gd.Specs {
			vs := sp.(*ast.ValueSpec)
			for i, n := range vs.Names {
				if i >= len(vs.Values) {
					continue
				}
				if bl, ok := vs.Values[i].(*ast.BasicLit); ok {
					switch bl.Kind {
					case token.INT:
						v, _ := strconv.ParseInt(bl.Value, 0, 64)
						ints[n.Name] = v
					case token.STRING:
						s, _ := strconv.Unquote(bl.Value)
						strs[n.Name] = s
					}
				}
			}
		}
	}
	return
}

func c17Constants(ctx *ev.Ctx) {
	m := refdict.NewModel()
	for _, e := range embedded() {
		if err := m.Load(e.XML); err != nil {
			ev.Infra("%v", err)
		}
	}
	avpCodes := map[string]map[int64]bool{}
	for _, v := range m.All {
		k := mangleAVP(v.Name)
		if avpCodes[k] == nil {
			avpCodes[k] = map[int64]bool{}
		}
		avpCodes[k][int64(v.Code)] = true
	}
	ints, _ := parseConsts(repoRoot() + "/diam/avp/codes.go")
	matched, unmatched := 0, 0
	for name, val := range ints {
		set, ok := avpCodes[name]
		ctx.Eval(ev.HS("const avp." + name))
		if !ok {
			unmatched++
			continue
		}
		matched++
		if !set[val] {
			var want []string
			for c := range set {
				want = append(want, fmt.Sprint(c))
			}
			ctx.Report("", "an exported AVP code constant differs from the embedded dictionaries",
				fmt.Sprintf("avp.%s = %d, the embedded dictionaries define that AVP with code %s", name, val, strings.Join(want, "/")), map[string]string{"const": "avp." + name})
		}
	}
	ctx.Set("avp_constants_matched", matched)
	ctx.Set("avp_constants_without_embedded_avp", unmatched)
	// commands and short names
	cmdCodes := map[string]int64{}
	shorts := map[string]bool{}
	for _, f := range m.Files {
		for _, a := range f.Apps {
			for _, c := range a.Cmds {
				cmdCodes[strings.ReplaceAll(c.Name, "-", "")] = int64(c.Code)
				shorts[c.Short+"R"] = true
				shorts[c.Short+"A"] = true
			}
		}
	}
	cints, cstrs := parseConsts(repoRoot() + "/diam/commands.go")
	cm := 0
	for name, val := range cints {
		ctx.Eval(ev.HS("const diam." + name))
		if want, ok := cmdCodes[name]; ok {
			cm++
			if want != val {
				ctx.Report("", "an exported command code constant differs from the embedded dictionaries",
					fmt.Sprintf("diam.%s = %d, the embedded dictionaries define command code %d", name, val, want), map[string]string{"const": "diam." + name})
			}
		}
	}
	for name, val := range cstrs {
		ctx.Eval(ev.HS("const diam." + name))
		if name != val {
			ctx.Report("", "a short command name constant differs from its own name", fmt.Sprintf("diam.%s = %q", name, val), map[string]string{"const": "diam." + name})
		}
	}
	ctx.Set("command_constants_matched", cm)
	// application ids
	appIDs := map[string]int64{}
	for _, f := range m.Files {
		for _, a := range f.Apps {
			appIDs[strings.ToUpper(strings.ReplaceAll(a.Name, " ", "_"))+"_APP_ID"] = int64(a.ID)
		}
	}
	aints, _ := parseConsts(repoRoot() + "/diam/applications.go")
	am := 0
	for name, val := range aints {
		ctx.Eval(ev.HS("const diam." + name))
		if want, ok := appIDs[name]; ok {
			am++
			if want != val {
				ctx.Report("", "an exported application id constant differs from the embedded dictionaries",
					fmt.Sprintf("diam.%s = %d, the embedded dictionaries define id %d", name, val, want), map[string]string{"const": "diam." + name})
			}
		}
	}
	ctx.Set("application_constants_matched", am)
}

func replayC17(ctx *ev.Ctx, raw json.RawMessage) string {
	var cs C17Case
	if err := json.Unmarshal(raw, &cs); err != nil || cs.History == "" {
		// type / constant findings: re-run the parent part
		c17Parent(ctx)
		if ctx.NViolations() > 0 {
			return "still fails"
		}
		return ""
	}
	for _, h := range c17Histories() {
		if h.name == cs.History && cs.Ctor {
			_, _, what := c17RunCtor(h, ctx)
			return what
		}
		if h.name == cs.History {
			_, _, what := c17RunHistory(h, ctx)
			return what
		}
	}
	ev.Infra("unknown history %q", cs.History)
	return ""
}

// ---- dict.Default extended before its first use ------------------------------------------------

// c17FreshXML re-declares two AVPs of the embedded base dictionary (another data type for Class,
// another name and type for code 295) and adds a new one, in application 0.
const c17FreshXML = `<?xml version="1.0" encoding="UTF-8"?>
<diameter><application id="0" name="Base">
<avp name="Class" code="25" must="M" may="P" must-not="V" may-encrypt="Y"><data type="UTF8String"/></avp>
<avp name="Termination-Reason" code="295" must="M" may="P" must-not="V" may-encrypt="N"><data type="Unsigned32"/></avp>
<avp name="Fresh-Extension" code="9555" must="M"><data type="Unsigned64"/></avp>
</application></diameter>`

// FreshDefaultChild runs in a process of its own. Variant 0: the FIRST thing the process does with
// dict.Default is Load of c17FreshXML (what a program that extends the default dictionary at
// start-up does); 1: the same through LoadFile; 2 (control): one lookup first, then the Load.
// It then prints what a fixed list of lookups resolves to. The three variants must print the same,
// and the re-declared AVPs must resolve to the definitions loaded last.
func FreshDefaultChild(variant int) {
	var err error
	switch variant {
	case 0:
		err = dict.Default.Load(strings.NewReader(c17FreshXML))
	case 1:
		f, e := os.CreateTemp("", "c17-fresh-*.xml")
		if e != nil {
			fmt.Println("INFRA", e)
			return
		}
		f.WriteString(c17FreshXML)
		f.Close()
		defer os.Remove(f.Name())
		err = dict.Default.LoadFile(f.Name())
	case 2:
		_, _ = dict.Default.FindAVP(0, "Origin-Host")
		err = dict.Default.Load(strings.NewReader(c17FreshXML))
	}
	defer func() {
		if r := recover(); r != nil {
			fmt.Printf("PANIC %v\n", r)
		}
	}()
	fmt.Printf("load: %v\n", err)
	for _, app := range []uint32{0, 1, 4, 16777251, 999} {
		for _, k := range []interface{}{uint32(25), 25, "Class", uint32(295), "Termination-Reason", "Termination-Cause", uint32(9555), "Fresh-Extension", uint32(264), "Origin-Host", uint32(461)} {
			a, e := dict.Default.FindAVP(app, k)
			if e != nil {
				fmt.Printf("FindAVP(%d, %T %v): unresolved\n", app, k, k)
				continue
			}
			fmt.Printf("FindAVP(%d, %T %v): %s code %d type %s\n", app, k, k, a.Name, a.Code, a.Data.TypeName)
		}
		for _, v := range []uint32{0, dict.UndefinedVendorID} {
			if a, e := dict.Default.FindAVPWithVendor(app, uint32(25), v); e == nil {
				fmt.Printf("FindAVPWithVendor(%d, 25, %d): %s type %s\n", app, v, a.Name, a.Data.TypeName)
			} else {
				fmt.Printf("FindAVPWithVendor(%d, 25, %d): unresolved\n", app, v)
			}
		}
	}
	for _, c := range [][2]uint32{{0, 257}, {4, 272}, {0, 280}, {16777251, 316}} {
		if cmd, e := dict.Default.FindCommand(c[0], c[1]); e == nil {
			fmt.Printf("FindCommand(%d, %d): %s\n", c[0], c[1], cmd.Short)
		} else {
			fmt.Printf("FindCommand(%d, %d): unresolved\n", c[0], c[1])
		}
	}
	if a, e := dict.Default.App(4); e == nil {
		fmt.Printf("App(4): %s\n", a.Name)
	} else {
		fmt.Println("App(4): unresolved")
	}
}

// c17FreshDefault runs the three children and compares.
func c17FreshDefault(ctx *ev.Ctx) {
	var outs [3]string
	for v := 0; v < 3; v++ {
		cmd := exec.Command(os.Args[0], "C17", "--freshdefault", strconv.Itoa(v))
		b, err := cmd.CombinedOutput()
		outs[v] = string(b)
		ctx.Eval(ev.HS(fmt.Sprintf("fresh-default-%d", v)))
		if err != nil || strings.Contains(outs[v], "INFRA") {
			ev.Infra("C17 fresh-default child %d: %v: %s", v, err, tailStr(outs[v], 300))
		}
	}
	names := []string{"dict.Default.Load as the first use of the default dictionary", "dict.Default.LoadFile as the first use of the default dictionary", "one lookup, then dict.Default.Load (control)"}
	for v := 0; v < 3; v++ {
		what := ""
		switch {
		case strings.Contains(outs[v], "PANIC"):
			what = "a lookup panicked: " + tailStr(outs[v], 200)
		case !strings.Contains(outs[v], "load: <nil>"):
			what = "the Load was rejected: " + tailStr(outs[v], 200)
		default:
			for _, want := range []string{"FindAVP(0, uint32 25): Class code 25 type UTF8String", "FindAVP(4, string Class): Class code 25 type UTF8String", "FindAVP(16777251, int 25): Class code 25 type UTF8String",
				"FindAVP(0, uint32 295): Termination-Reason code 295 type Unsigned32", "FindAVP(1, string Termination-Reason): Termination-Reason code 295 type Unsigned32",
				"FindAVP(999, uint32 9555): Fresh-Extension code 9555 type Unsigned64", "FindAVP(0, string Origin-Host): Origin-Host code 264 type DiameterIdentity",
				"FindAVPWithVendor(4, 25, 0): Class type UTF8String", "FindCommand(0, 257): CE", "FindCommand(4, 272): CC", "App(4): "} {
				if !strings.Contains(outs[v], want) {
					what = fmt.Sprintf("expected %q (the definition loaded last wins; embedded definitions stay resolvable); the process printed for that lookup: %s", want, c17Line(outs[v], want[:strings.Index(want, ":")+1]))
					break
				}
			}
			if what == "" && outs[v] != outs[2] {
				what = "the lookups resolve differently from the control process (lookup first, then Load)"
			}
		}
		if what != "" {
			ctx.Report("", "dict.Default extended before its first use", names[v]+": "+what, map[string]interface{}{"fresh": v})
		}
	}
}

func c17Line(out, prefix string) string {
	for _, l := range strings.Split(out, "\n") {
		if strings.HasPrefix(l, prefix) {
			return l
		}
	}
	return "(nothing)"
}
