package checks

import (
	"bytes"
	"encoding/json"
	"fmt"
	"net"
	"reflect"
	"strings"
	"time"

	"github.com/fiorix/go-diameter/v4/diam"
	"github.com/fiorix/go-diameter/v4/diam/datatype"
	"github.com/fiorix/go-diameter/v4/diam/dict"
	"verif/internal/atoms"
	"verif/internal/ev"
	"verif/internal/refcodec"
)

// C18 — struct marshalling and unmarshalling are inverse and dictionary-faithful.

func init() {
	Registry["C18"] = &Check{Run: runC18, Replay: replayC18, Sharded: true}
}

// fieldKind describes one dictionary AVP used as a struct field and the Go types that can hold it.
type c18AVP struct {
	Cfg   string // configuration name
	Name  string
	K     atoms.Kind
	Types []reflect.Type
}

var (
	tString  = reflect.TypeOf("")
	tBytes   = reflect.TypeOf([]byte(nil))
	tU32     = reflect.TypeOf(uint32(0))
	tU64     = reflect.TypeOf(uint64(0))
	tI32     = reflect.TypeOf(int32(0))
	tI64     = reflect.TypeOf(int64(0))
	tInt     = reflect.TypeOf(int(0))
	tF32     = reflect.TypeOf(float32(0))
	tF64     = reflect.TypeOf(float64(0))
	tTime    = reflect.TypeOf(time.Time{})
	tNetIP   = reflect.TypeOf(net.IP(nil))
	tAVP     = reflect.TypeOf(diam.AVP{})
	tAVPPtr  = reflect.TypeOf((*diam.AVP)(nil))
	tAVPList = reflect.TypeOf([]*diam.AVP(nil))
)

func c18Table() []c18AVP {
	dt := func(v interface{}) reflect.Type { return reflect.TypeOf(v) }
	return []c18AVP{
		{"default/app4", "Origin-Host", atoms.KIdent, []reflect.Type{tString, dt(datatype.DiameterIdentity(""))}},
		{"default/app4", "User-Name", atoms.KUTF8, []reflect.Type{tString, dt(datatype.UTF8String(""))}},
		{"default/app4", "Class", atoms.KOctet, []reflect.Type{tString, tBytes, dt(datatype.OctetString(""))}},
		{"default/app4", "Redirect-Host", atoms.KURI, []reflect.Type{tString, dt(datatype.DiameterURI(""))}},
		{"default/app4", "Result-Code", atoms.KU32, []reflect.Type{tU32, dt(datatype.Unsigned32(0)), tInt, tU64}},
		{"default/app4", "Accounting-Sub-Session-Id", atoms.KU64, []reflect.Type{tU64, dt(datatype.Unsigned64(0))}},
		{"default/app4", "Exponent", atoms.KI32, []reflect.Type{tI32, dt(datatype.Integer32(0)), tInt}},
		{"default/app4", "Value-Digits", atoms.KI64, []reflect.Type{tI64, dt(datatype.Integer64(0))}},
		{"default/app4", "Disconnect-Cause", atoms.KEnum, []reflect.Type{tI32, dt(datatype.Enumerated(0))}},
		{"default/app4", "Event-Timestamp", atoms.KTime, []reflect.Type{tTime, dt(datatype.Time{})}},
		{"default/app4", "Host-IP-Address", atoms.KAddr, []reflect.Type{dt(datatype.Address(nil)), tNetIP}},
		{"default/app4", "TGPP-IMSI", atoms.KUTF8, []reflect.Type{tString, dt(datatype.UTF8String(""))}},
		{"generated/app0", "Gen-Float32", atoms.KF32, []reflect.Type{tF32, dt(datatype.Float32(0))}},
		{"generated/app0", "Gen-Float64", atoms.KF64, []reflect.Type{tF64, dt(datatype.Float64(0))}},
		{"generated/app0", "Gen-IPv4", atoms.KIPv4, []reflect.Type{dt(datatype.IPv4(nil)), tNetIP}},
		{"generated/app0", "Gen-IPv6", atoms.KIPv6, []reflect.Type{dt(datatype.IPv6(nil)), tNetIP}},
		{"generated/app0", "Gen-IPFilterRule", atoms.KIPFilter, []reflect.Type{tString, dt(datatype.IPFilterRule(""))}},
		{"generated/app0", "Gen-QoSFilterRule", atoms.KQoS, []reflect.Type{tString, dt(datatype.QoSFilterRule(""))}},
		{"generated/app0", "GenV-Unsigned32", atoms.KU32, []reflect.Type{tU32}},
		{"generated/app0", "GenVM-UTF8String", atoms.KUTF8, []reflect.Type{tString}}, // vendor id, must without V
		{"generated/app0", "GenNV-Unsigned32", atoms.KU32, []reflect.Type{tU32}},      // no vendor id, must lists V
		{"generated/app0", "GenVN-UTF8String", atoms.KUTF8, []reflect.Type{tString, dt(datatype.UTF8String(""))}}, // vendor id, must-not lists V
		// fields declared with a go-diameter datatype OTHER than the one the dictionary gives the AVP
		// (convertible): the AVP still gets the dictionary's type
		{"default/app4", "Origin-Host", atoms.KIdent, []reflect.Type{dt(datatype.UTF8String("")), dt(datatype.OctetString(""))}},
		{"default/app4", "Disconnect-Cause", atoms.KEnum, []reflect.Type{dt(datatype.Integer32(0))}},

	}
}

// c18Vals returns abstract values for a kind suitable for struct fields (valid for the type).
func c18Vals(k atoms.Kind) []atoms.Val {
	var out []atoms.Val
	for _, v := range atoms.Values(k, false) {
		switch k {
		case atoms.KAddr:
			if v.Fam != 1 && !(v.Fam == 2 && !isV4Mapped(v.S)) {
				continue // native Go holders (net.IP) carry IPv4 / IPv6 only; other families are covered by C01
			}
		case atoms.KTime:
		}
		if len(v.S) > 300 {
			continue
		}
		out = append(out, v)
	}
	if len(out) > 5 {
		out = out[:5]
	}
	return out
}

// goValue converts an abstract value into a reflect.Value of Go type t.
func goValue(v atoms.Val, t reflect.Type) reflect.Value {
	r := reflect.New(t).Elem()
	switch v.K {
	case atoms.KOctet, atoms.KUTF8, atoms.KIdent, atoms.KURI, atoms.KIPFilter, atoms.KQoS:
		if t.Kind() == reflect.String {
			r.SetString(string(v.S))
		} else {
			r.SetBytes(append([]byte{}, v.S...))
		}
	case atoms.KU32, atoms.KU64:
		if t.Kind() == reflect.Int {
			r.SetInt(int64(v.U))
		} else {
			r.SetUint(v.U)
		}
	case atoms.KI32, atoms.KEnum:
		r.SetInt(int64(int32(v.U)))
	case atoms.KI64:
		r.SetInt(int64(v.U))
	case atoms.KF32, atoms.KF64:
		r.Set(reflect.ValueOf(v.Lib()).Convert(t))
	case atoms.KTime:
		r.Set(reflect.ValueOf(time.Unix(int64(v.U), 0)).Convert(t))
	case atoms.KAddr, atoms.KIPv4, atoms.KIPv6:
		r.SetBytes(append([]byte{}, v.S...))
	}
	return r
}

// C18Case describes one struct shape and its field values.
type C18Case struct {
	AVP     int    // index into c18Table (-1 for the static shapes)
	GoType  int    // index into Types
	Wrap    string // "T" "*T" "[]T" "[]*T"
	Tag     int    // tag form
	Vals    []int  // value indexes (for T/*T: one; -1 = nil pointer; for slices: list; nil = nil slice)
	Static  string // name of a static shape
	Variant int
	Priv    bool // static shape marshalled into a message that carries the private dictionary c18PrivXML
}

// c18PrivXML gives every AVP name the static shapes use a definition that differs from the
// default dictionary's in code, flags and vendor id (same data type, so the Go fields still fit).
const c18PrivXML = `<?xml version="1.0" encoding="UTF-8"?>
<diameter><application id="0" name="PrivC18">
<command code="257" short="CE" name="Capabilities-Exchange"><request><rule avp="Origin-Host" required="false"/></request><answer><rule avp="Origin-Host" required="false"/></answer></command>
<avp name="Origin-Host" code="9264" must="-" may="P" must-not="V" may-encrypt="-"><data type="DiameterIdentity"/></avp>
<avp name="Origin-Realm" code="9296" must="M" may="P" must-not="-" may-encrypt="-" vendor-id="4321"><data type="DiameterIdentity"/></avp>
<avp name="Result-Code" code="9268" must="-" may="P" must-not="V" may-encrypt="-"><data type="Unsigned32"/></avp>
<avp name="Session-Id" code="9263" must="M" may="P" must-not="V" may-encrypt="-"><data type="UTF8String"/></avp>
<avp name="Vendor-Specific-Application-Id" code="9260" must="-" may="P" must-not="V" may-encrypt="-"><data type="Grouped"/></avp>
<avp name="Failed-AVP" code="9279" must="M" may="P" must-not="-" may-encrypt="-" vendor-id="4321"><data type="Grouped"/></avp>
<avp name="Vendor-Id" code="9266" must="-" may="P" must-not="V" may-encrypt="-"><data type="Unsigned32"/></avp>
<avp name="Auth-Application-Id" code="9258" must="M" may="P" must-not="-" may-encrypt="-" vendor-id="777"><data type="Unsigned32"/></avp>
<avp name="Acct-Application-Id" code="9259" must="-" may="P" must-not="V" may-encrypt="-"><data type="Unsigned32"/></avp>
<avp name="Event-Timestamp" code="9055" must="-" may="P" must-not="V" may-encrypt="-"><data type="Time"/></avp>
<avp name="Class" code="9025" must="M" may="P" must-not="-" may-encrypt="-" vendor-id="4321"><data type="OctetString"/></avp>
</application></diameter>`

// c18PrivMap: default code -> (code, flags, vendor) a caller would build by hand from c18PrivXML.
var c18PrivMap = map[uint32][3]uint32{
	264: {9264, 0x00, 0}, 296: {9296, 0xC0, 4321}, 268: {9268, 0x00, 0}, 263: {9263, 0x40, 0},
	260: {9260, 0x00, 0}, 279: {9279, 0xC0, 4321}, 266: {9266, 0x00, 0}, 258: {9258, 0xC0, 777}, 259: {9259, 0x00, 0},
	55: {9055, 0x00, 0}, 25: {9025, 0xC0, 4321},
}

func c18PrivNodes(ns []refcodec.Node) []refcodec.Node {
	var out []refcodec.Node
	for _, n := range ns {
		x, ok := c18PrivMap[n.Code]
		if !ok {
			panic(fmt.Sprint("c18PrivMap lacks code ", n.Code))
		}
		n.Code, n.Flags, n.Vendor = x[0], uint8(x[1]), x[2]
		n.Children = c18PrivNodes(n.Children)
		out = append(out, n)
	}
	return out
}

var c18Priv *dict.Parser

func c18PrivDict() *dict.Parser {
	if c18Priv == nil {
		p, err := dict.NewParser()
		if err == nil {
			err = p.Load(strings.NewReader(c18PrivXML))
		}
		if err != nil {
			ev.Infra("C18 private dictionary: %v", err)
		}
		c18Priv = p
	}
	return c18Priv
}

var c18TagForms = []struct {
	f    string
	omit bool
}{
	{`avp:"%s"`, false},
	{`avp:"%s,omitempty"`, true},
	{`avp:"%s" json:"x"`, false},
	{`avp:"%s,omitempty" json:"x"`, true},
	{`json:"x,omitempty" avp:"%s"`, false},
	{`json:"x" avp:"%s,omitempty"`, true},
	{`avp:"%s" json:"x,omitempty"`, false},
	{`avp:"%s" json:"-" xml:"x,attr,omitempty"`, false},
	{`json:"x,omitempty" avp:"%s,omitempty"`, true},
}

func (c C18Case) Desc() string {
	if c.Static != "" {
		if c.Priv {
			return fmt.Sprintf("static shape %s variant %d, message carrying a private dictionary", c.Static, c.Variant)
		}
		return fmt.Sprintf("static shape %s variant %d", c.Static, c.Variant)
	}
	a := c18Table()[c.AVP]
	return fmt.Sprintf("struct{ F %s%s `%s` } values %v (%s)", strings.TrimSuffix(c.Wrap, "T"), a.Types[c.GoType], fmt.Sprintf(c18TagForms[c.Tag].f, a.Name), c.Vals, a.Cfg)
}

func isEmptyLike(v reflect.Value) bool {
	switch v.Kind() {
	case reflect.Slice, reflect.String, reflect.Array, reflect.Map:
		return v.Len() == 0
	case reflect.Int, reflect.Int32, reflect.Int64:
		return v.Int() == 0
	case reflect.Uint32, reflect.Uint64:
		return v.Uint() == 0
	case reflect.Float32, reflect.Float64:
		return v.Float() == 0
	case reflect.Ptr, reflect.Interface:
		return v.IsNil()
	}
	return false
}

// c18Dynamic evaluates one dynamically built single-field struct.
func c18Dynamic(cs C18Case) string {
	tab := c18Table()
	a := tab[cs.AVP]
	c := ConfigByName(a.Cfg)
	base := a.Types[cs.GoType]
	vals := c18Vals(a.K)
	var ft reflect.Type
	switch cs.Wrap {
	case "T":
		ft = base
	case "*T":
		ft = reflect.PtrTo(base)
	case "[]T":
		ft = reflect.SliceOf(base)
	case "[]*T":
		ft = reflect.SliceOf(reflect.PtrTo(base))
	}
	tag := c18TagForms[cs.Tag]
	st := reflect.StructOf([]reflect.StructField{{Name: "F", Type: ft, Tag: reflect.StructTag(fmt.Sprintf(tag.f, a.Name))}})
	src := reflect.New(st)
	f := src.Elem().Field(0)
	var abstract []atoms.Val // the values that must appear as AVPs, in order
	switch cs.Wrap {
	case "T":
		v := vals[cs.Vals[0]]
		f.Set(goValue(v, base))
		abstract = []atoms.Val{v}
	case "*T":
		if cs.Vals[0] >= 0 {
			v := vals[cs.Vals[0]]
			p := reflect.New(base)
			p.Elem().Set(goValue(v, base))
			f.Set(p)
			abstract = []atoms.Val{v}
		}
	case "[]T", "[]*T":
		if cs.Vals != nil {
			s := reflect.MakeSlice(ft, 0, len(cs.Vals))
			for _, i := range cs.Vals {
				v := vals[i]
				if cs.Wrap == "[]T" {
					s = reflect.Append(s, goValue(v, base))
				} else {
					p := reflect.New(base)
					p.Elem().Set(goValue(v, base))
					s = reflect.Append(s, p)
				}
				abstract = append(abstract, v)
			}
			f.Set(s)
		}
	}
	if tag.omit && isEmptyLike(f) {
		abstract = nil
	}
	// a []byte-like holder is a single value, not a list of AVPs
	// expected AVPs, built by hand from the dictionary entry
	def := c.A.D.M.FindName(c.A.App, a.Name, 4294967295)
	if def == nil {
		return "harness: " + a.Name + " not in the reference dictionary"
	}
	var want []byte
	for _, v := range abstract {
		fl := mflag(def.Must)
		if def.Vendor != 0 {
			fl |= 0x80
		}
		want = append(want, refcodec.EncodeAVP(refcodec.Node{Code: def.Code, Flags: fl, Vendor: def.Vendor, Payload: v.Ref()})...)
	}
	hd := c.Headers(1)[0]
	m := diam.NewMessage(hd.Code, 0x80, hd.App, 1, 2, c.A.D.P)
	if c18Used(m, src.Interface()) != nil {
		return "Marshal into a message that already holds AVPs failed"
	}
	if err := m.Marshal(src.Interface()); err != nil {
		return "Marshal failed: " + err.Error()
	}
	got, err := m.Serialize()
	if err != nil {
		return "Serialize after Marshal failed: " + err.Error()
	}
	if int(m.Header.MessageLength) != len(got) {
		return fmt.Sprintf("Header.MessageLength %d after Marshal, %d bytes serialised", m.Header.MessageLength, len(got))
	}
	if !bytes.Equal(got[20:], want) {
		return fmt.Sprintf("AVPs produced by Marshal %x differ from the AVPs built by hand from the dictionary entry %x", got[20:], want)
	}
	// ... and each carries a value of the data type the dictionary declares for it (what a caller
	// building the AVP by hand would put there), whatever go-diameter type the struct field has
	if da, err := c.A.D.P.FindAVP(hd.App, a.Name); err == nil {
		for _, x := range m.AVP {
			if x.Data != nil && x.Data.Type() != da.Data.Type {
				return fmt.Sprintf("the AVP produced by Marshal holds a %T, the dictionary declares %s as %s", x.Data, a.Name, da.Data.TypeName)
			}
		}
	}
	// round trips: directly and over the wire
	for _, via := range []string{"direct", "wire"} {
		mm := m
		if via == "wire" {
			var err error
			mm, err = diam.ReadMessage(bytes.NewReader(got), c.A.D.P)
			if err != nil {
				return "marshalled message cannot be read back: " + err.Error()
			}
		}
		dst := reflect.New(st)
		if err := mm.Unmarshal(dst.Interface()); err != nil {
			return via + ": Unmarshal failed: " + err.Error()
		}
		if s := c18Equal(f, dst.Elem().Field(0)); s != "" {
			return fmt.Sprintf("%s round trip does not reproduce the field: %s", via, s)
		}
	}
	return ""
}

// c18Used makes every other message a used one before the Marshal under test: it already holds
// an AVP and has been marshalled into once (Marshal replaces the AVPs of the message, so the
// expected result is the same as for a fresh message).
var c18CurUsed bool // set per case from a hash of its description (so a replay takes the same path)

func c18Used(m *diam.Message, src interface{}) error {
	if !c18CurUsed {
		return nil
	}
	m.AddAVP(diam.NewAVP(60001, 0, 0, datatype.OctetString("left over from an earlier use")))
	return m.Marshal(src)
}

// c18Equal compares field values: empty == nil for slices, times by Unix second, floats by bits.
func c18Equal(a, b reflect.Value) string {
	if a.Type() != b.Type() {
		return fmt.Sprintf("type %s vs %s", a.Type(), b.Type())
	}
	switch a.Kind() {
	case reflect.Ptr:
		if a.IsNil() || b.IsNil() {
			if a.IsNil() != b.IsNil() {
				return fmt.Sprintf("pointer nil=%v before, nil=%v after", a.IsNil(), b.IsNil())
			}
			return ""
		}
		return c18Equal(a.Elem(), b.Elem())
	case reflect.Slice:
		if a.Len() != b.Len() {
			return fmt.Sprintf("%d elements before, %d after", a.Len(), b.Len())
		}
		if a.Type().Elem().Kind() == reflect.Uint8 {
			if !bytes.Equal(a.Bytes(), b.Bytes()) {
				return fmt.Sprintf("bytes %x before, %x after", a.Bytes(), b.Bytes())
			}
			return ""
		}
		for i := 0; i < a.Len(); i++ {
			if s := c18Equal(a.Index(i), b.Index(i)); s != "" {
				return fmt.Sprintf("element %d: %s", i, s)
			}
		}
		return ""
	case reflect.Struct:
		if a.Type() == tTime || a.Type().ConvertibleTo(tTime) {
			ta := a.Convert(tTime).Interface().(time.Time)
			tb := b.Convert(tTime).Interface().(time.Time)
			if ta.Unix() != tb.Unix() {
				return fmt.Sprintf("time %v before, %v after", ta.UTC(), tb.UTC())
			}
			return ""
		}
		if a.Type() == tAVP {
			x, y := a.Interface().(diam.AVP), b.Interface().(diam.AVP)
			bx, _ := x.Serialize()
			by, _ := y.Serialize()
			if !bytes.Equal(bx, by) {
				return fmt.Sprintf("AVP %x before, %x after", bx, by)
			}
			return ""
		}
		for i := 0; i < a.NumField(); i++ {
			if s := c18Equal(a.Field(i), b.Field(i)); s != "" {
				return fmt.Sprintf("field %s: %s", a.Type().Field(i).Name, s)
			}
		}
		return ""
	case reflect.Float32, reflect.Float64:
		if a.Float() == 0 && b.Float() == 0 {
			return "" // -0 is "empty" in the sense of omitempty and comes back as +0
		}
		if fmt.Sprintf("%x", a.Float()) != fmt.Sprintf("%x", b.Float()) && !(a.Float() != a.Float() && b.Float() != b.Float()) {
			return fmt.Sprintf("%v before, %v after", a.Float(), b.Float())
		}
		return ""
	}
	if !reflect.DeepEqual(a.Interface(), b.Interface()) {
		return fmt.Sprintf("%v before, %v after", a.Interface(), b.Interface())
	}
	return ""
}

// ---- static shapes: grouped AVPs as nested / pointer / slice / embedded structs, AVP fields ----

type c18VSA struct {
	VendorID uint32 `avp:"Vendor-Id"`
	AuthApp  uint32 `avp:"Auth-Application-Id"`
}
// c18VSAPtrOmit: optional members of a group held through pointers: nil = absent, a pointer to the
// zero value = present with value 0 / "" (that is what the pointer is for)
type c18VSAPtrOmit struct {
	VendorID *uint32 `avp:"Vendor-Id,omitempty"`
	AuthApp  *uint32 `avp:"Auth-Application-Id,omitempty"`
	AcctApp  *uint32 `avp:"Acct-Application-Id,omitempty"`
}
type c18NestedPtrOmit struct {
	Host string          `avp:"Origin-Host"`
	One  c18VSAPtrOmit   `avp:"Vendor-Specific-Application-Id"`
	Ptr  *c18VSAPtrOmit  `avp:"Failed-AVP"`
}
type c18NestedPtrOmitSlice struct {
	Host string           `avp:"Origin-Host"`
	VSA  []c18VSAPtrOmit  `avp:"Vendor-Specific-Application-Id"`
	Ptrs []*c18VSAPtrOmit `avp:"Failed-AVP"`
}

type c18VSAOmit struct {
	VendorID uint32 `avp:"Vendor-Id"`
	AuthApp  uint32 `avp:"Auth-Application-Id,omitempty"`
	AcctApp  uint32 `avp:"Acct-Application-Id,omitempty"`
}
type c18Nested struct {
	Host string `avp:"Origin-Host"`
	VSA  c18VSA `avp:"Vendor-Specific-Application-Id"`
	RC   uint32 `avp:"Result-Code"`
}
type c18NestedPtr struct {
	Host string  `avp:"Origin-Host"`
	VSA  *c18VSA `avp:"Vendor-Specific-Application-Id"`
}
type c18NestedSlice struct {
	VSA  []c18VSAOmit `avp:"Vendor-Specific-Application-Id"`
	Host string       `avp:"Origin-Host"`
}
type c18NestedPtrSlice struct {
	VSA []*c18VSA `avp:"Vendor-Specific-Application-Id,omitempty"`
}
// a nested struct all of whose members may be omitted: the Grouped AVP itself is still there
type c18AllOmit struct {
	AuthApp uint32 `avp:"Auth-Application-Id,omitempty"`
	AcctApp uint32 `avp:"Acct-Application-Id,omitempty"`
}
type c18PtrAllOmit struct {
	Host string      `avp:"Origin-Host"`
	VSA  *c18AllOmit `avp:"Vendor-Specific-Application-Id"`
}
type c18SliceAllOmit struct {
	VSA  []c18AllOmit `avp:"Vendor-Specific-Application-Id"`
	Host string       `avp:"Origin-Host"`
}
type C18Common struct {
	Host  string `avp:"Origin-Host"`
	Realm string `avp:"Origin-Realm"`
}
type c18Embedded struct {
	C18Common
	RC uint32 `avp:"Result-Code"`
}

// two embedded structs that declare the SAME Go field names (with different avp tags), and an
// outer field that shadows the name of an embedded one: Go's selector rules hide such fields from
// x.Host, but they are fields of the struct all the same and their AVPs are marshalled
type C18Second struct {
	Host  string `avp:"Session-Id"`
	Realm uint32 `avp:"Result-Code"`
}
type c18TwoEmbedded struct {
	C18Common
	C18Second
}
type c18Shadowing struct {
	Host string `avp:"Session-Id"`
	C18Common
}

// a NAMED field of a struct type without an avp tag (bookkeeping the application keeps next to the
// AVP fields - the peer's identity, a copy of the request): not an AVP, not embedded, not marshalled
type c18UntaggedStructField struct {
	Peer C18Common
	RC   uint32 `avp:"Result-Code"`
	Note *C18Second
	Host string `avp:"Origin-Host"`
}

// application-defined types over the supported holders (type Stamp time.Time with its own text
// format is the usual idiom): they marshal and unmarshal like the type they are defined over
type c18Str string
type c18U32 uint32
type c18Stamp time.Time
type c18DStamp datatype.Time
type c18Raw []byte
type c18DefinedTypes struct {
	Host  c18Str      `avp:"Origin-Host"`
	RC    c18U32      `avp:"Result-Code"`
	At    c18Stamp    `avp:"Event-Timestamp"`
	Class c18Raw      `avp:"Class"`
	Apps  []c18U32    `avp:"Auth-Application-Id"`
}
type c18DefinedTimes struct {
	At   *c18Stamp   `avp:"Event-Timestamp"`
	Host c18Str      `avp:"Origin-Host"`
}
type c18DefinedTimeSlice struct {
	Ats  []c18DStamp `avp:"Event-Timestamp"`
	Host c18Str      `avp:"Origin-Host"`
}

// anonymous structs embedded three, four and five levels deep, several tagged fields at the bottom
type C18Ident struct {
	Host  string `avp:"Origin-Host"`
	Realm string `avp:"Origin-Realm"`
	RC    uint32 `avp:"Result-Code"`
}
type C18Routing struct{ C18Ident }
type C18Session struct {
	C18Routing
	Session string `avp:"Session-Id"`
}
type c18Deep3 struct{ C18Session }
type C18Wrap4 struct{ C18Session }
type c18Deep4 struct{ C18Wrap4 }
type C18Wrap5 struct{ C18Wrap4 }
type c18Deep5 struct {
	C18Wrap5
	Apps []uint32 `avp:"Auth-Application-Id"`
}

// many AVPs on ONE level (more than a dozen), with a code repeated many times: order is data
type c18ManyOnOneLevel struct {
	Host  string   `avp:"Origin-Host"`
	Realm string   `avp:"Origin-Realm"`
	Apps  []uint32 `avp:"Auth-Application-Id"`
	VSA   []c18VSA `avp:"Vendor-Specific-Application-Id"`
	Acct  []uint32 `avp:"Acct-Application-Id"`
}

// an embedded struct whose TYPE is unexported (its fields are exported and settable)
type c18common struct {
	Host  string `avp:"Origin-Host"`
	Realm string `avp:"Origin-Realm"`
}
type c18EmbeddedUnexported struct {
	RC uint32 `avp:"Result-Code"`
	c18common
}
type c18EmbeddedAfter struct {
	RC uint32 `avp:"Result-Code"`
	C18Common
}
type c18EmbeddedMiddle struct {
	RC uint32 `avp:"Result-Code"`
	C18Common
	Session string `avp:"Session-Id"`
	VSA     *c18VSA `avp:"Vendor-Specific-Application-Id"`
}
type c18Deep struct {
	Failed struct {
		VSA c18VSA `avp:"Vendor-Specific-Application-Id"`
	} `avp:"Failed-AVP"`
}
type c18AVPField struct {
	Host diam.AVP `avp:"Origin-Host"`
}
type c18AVPPtrField struct {
	State *diam.AVP `avp:"Origin-State-Id"`
	Host  string    `avp:"Origin-Host"`
}
type c18AVPGroupField struct {
	VSA diam.AVP `avp:"Vendor-Specific-Application-Id"`
}
type c18AVPGroupPtrField struct {
	VSA *diam.AVP `avp:"Vendor-Specific-Application-Id"`
}
type c18AVPValListField struct {
	Vendors []diam.AVP `avp:"Supported-Vendor-Id"`
	Host    string     `avp:"Origin-Host"`
}
type c18AVPValListInGroup struct {
	Host string `avp:"Origin-Host"`
	VSA  struct {
		Members []diam.AVP `avp:"Vendor-Id"`
	} `avp:"Vendor-Specific-Application-Id"`
}
type c18AVPListField struct {
	Apps []*diam.AVP `avp:"Auth-Application-Id"`
	Host string      `avp:"Origin-Host"`
}

func vsaNode(v, a uint32) refcodec.Node {
	return refcodec.Node{Code: 260, Flags: 0x40, Group: true, Children: []refcodec.Node{u32n(266, v), u32n(258, a)}}
}
func u32n(code, v uint32) refcodec.Node {
	return refcodec.Node{Code: code, Flags: 0x40, Payload: refcodec.U32(v)}
}
func strn(code uint32, s string) refcodec.Node {
	return refcodec.Node{Code: code, Flags: 0x40, Payload: []byte(s)}
}

type c18Static struct {
	name string
	mk   func(variant int) (src interface{}, want []refcodec.Node, ok bool)
}

func c18Statics() []c18Static {
	u32s := []uint32{0, 1, 0xffffffff}
	strs := []string{"", "h", "host.example"}
	return []c18Static{
		{"nested", func(v int) (interface{}, []refcodec.Node, bool) {
			if v >= 27 {
				return nil, nil, false
			}
			a, b, h := u32s[v%3], u32s[v/3%3], strs[v/9%3]
			return &c18Nested{Host: h, VSA: c18VSA{a, b}, RC: a}, []refcodec.Node{strn(264, h), vsaNode(a, b), u32n(268, a)}, true
		}},
		{"nested-pointer", func(v int) (interface{}, []refcodec.Node, bool) {
			if v >= 10 {
				return nil, nil, false
			}
			if v == 9 {
				return &c18NestedPtr{Host: "h"}, []refcodec.Node{strn(264, "h")}, true
			}
			a, b := u32s[v%3], u32s[v/3%3]
			return &c18NestedPtr{Host: "h", VSA: &c18VSA{a, b}}, []refcodec.Node{strn(264, "h"), vsaNode(a, b)}, true
		}},
		{"nested-pointer-members-omitempty", func(v int) (interface{}, []refcodec.Node, bool) {
			if v >= 27 {
				return nil, nil, false
			}
			// each member: nil, pointer to 0, pointer to 7
			mk := func(k int) (*uint32, bool, uint32) {
				switch k {
				case 0:
					return nil, false, 0
				case 1:
					z := uint32(0)
					return &z, true, 0
				}
				x := uint32(7)
				return &x, true, 7
			}
			build := func() (c18VSAPtrOmit, []refcodec.Node) {
				var g c18VSAPtrOmit
				var kids []refcodec.Node
				var ok bool
				var val uint32
				if g.VendorID, ok, val = mk(v % 3); ok {
					kids = append(kids, u32n(266, val))
				}
				if g.AuthApp, ok, val = mk(v / 3 % 3); ok {
					kids = append(kids, u32n(258, val))
				}
				if g.AcctApp, ok, val = mk(v / 9 % 3); ok {
					kids = append(kids, u32n(259, val))
				}
				return g, kids
			}
			g1, k1 := build()
			g2, k2 := build()
			return &c18NestedPtrOmit{Host: "h", One: g1, Ptr: &g2}, []refcodec.Node{strn(264, "h"),
				{Code: 260, Flags: 0x40, Group: true, Children: k1}, {Code: 279, Flags: 0x40, Group: true, Children: k2}}, true
		}},
		{"nested-pointer-members-omitempty-slices", func(v int) (interface{}, []refcodec.Node, bool) {
			if v >= 3 {
				return nil, nil, false
			}
			z, x := uint32(0), uint32(7)
			gs := []c18VSAPtrOmit{{VendorID: &x, AuthApp: &z}, {AuthApp: &z, AcctApp: &z}, {VendorID: &z}}[:v+1]
			s := &c18NestedPtrOmitSlice{Host: "h"}
			want := []refcodec.Node{strn(264, "h")}
			var second []refcodec.Node
			for i := range gs {
				g := gs[i]
				var kids []refcodec.Node
				if g.VendorID != nil {
					kids = append(kids, u32n(266, *g.VendorID))
				}
				if g.AuthApp != nil {
					kids = append(kids, u32n(258, *g.AuthApp))
				}
				if g.AcctApp != nil {
					kids = append(kids, u32n(259, *g.AcctApp))
				}
				s.VSA = append(s.VSA, g)
				s.Ptrs = append(s.Ptrs, &gs[i])
				want = append(want, refcodec.Node{Code: 260, Flags: 0x40, Group: true, Children: kids})
				second = append(second, refcodec.Node{Code: 279, Flags: 0x40, Group: true, Children: kids})
			}
			return s, append(want, second...), true
		}},
		{"nested-slice", func(v int) (interface{}, []refcodec.Node, bool) {
			if v >= 5 {
				return nil, nil, false
			}
			all := []c18VSAOmit{{10415, 4, 0}, {0, 0, 3}, {13, 0, 0}, {1, 2, 3}}
			s := &c18NestedSlice{Host: "h"}
			var want []refcodec.Node
			for _, x := range all[:v] {
				s.VSA = append(s.VSA, x)
				n := refcodec.Node{Code: 260, Flags: 0x40, Group: true, Children: []refcodec.Node{u32n(266, x.VendorID)}}
				if x.AuthApp != 0 {
					n.Children = append(n.Children, u32n(258, x.AuthApp))
				}
				if x.AcctApp != 0 {
					n.Children = append(n.Children, u32n(259, x.AcctApp))
				}
				want = append(want, n)
			}
			return s, append(want, strn(264, "h")), true
		}},
		{"pointer-to-struct-with-all-members-omitted", func(v int) (interface{}, []refcodec.Node, bool) {
			if v >= 3 {
				return nil, nil, false
			}
			vals := []c18AllOmit{{}, {4, 0}, {0, 3}}
			g := refcodec.Node{Code: 260, Flags: 0x40, Group: true}
			if vals[v].AuthApp != 0 {
				g.Children = append(g.Children, u32n(258, vals[v].AuthApp))
			}
			if vals[v].AcctApp != 0 {
				g.Children = append(g.Children, u32n(259, vals[v].AcctApp))
			}
			x := vals[v]
			return &c18PtrAllOmit{Host: "h", VSA: &x}, []refcodec.Node{strn(264, "h"), g}, true
		}},
		{"slice-of-structs-with-an-element-whose-members-are-all-omitted", func(v int) (interface{}, []refcodec.Node, bool) {
			if v >= 4 {
				return nil, nil, false
			}
			sets := [][]c18AllOmit{{{4, 0}, {}, {0, 3}}, {{}}, {{}, {4, 3}}, {{4, 0}, {}}}
			s := &c18SliceAllOmit{Host: "h"}
			var want []refcodec.Node
			for _, x := range sets[v] {
				s.VSA = append(s.VSA, x)
				g := refcodec.Node{Code: 260, Flags: 0x40, Group: true}
				if x.AuthApp != 0 {
					g.Children = append(g.Children, u32n(258, x.AuthApp))
				}
				if x.AcctApp != 0 {
					g.Children = append(g.Children, u32n(259, x.AcctApp))
				}
				want = append(want, g)
			}
			return s, append(want, strn(264, "h")), true
		}},
		{"nested-pointer-slice", func(v int) (interface{}, []refcodec.Node, bool) {
			if v >= 4 {
				return nil, nil, false
			}
			s := &c18NestedPtrSlice{}
			var want []refcodec.Node
			for i := 0; i < v; i++ {
				s.VSA = append(s.VSA, &c18VSA{uint32(i), uint32(i + 7)})
				want = append(want, vsaNode(uint32(i), uint32(i+7)))
			}
			return s, want, true
		}},
		{"embedded", func(v int) (interface{}, []refcodec.Node, bool) {
			if v >= 9 {
				return nil, nil, false
			}
			h, r := strs[v%3], strs[v/3%3]
			return &c18Embedded{C18Common: C18Common{h, r}, RC: 2001}, []refcodec.Node{strn(264, h), strn(296, r), u32n(268, 2001)}, true
		}},
		{"two-embedded-structs-with-the-same-field-names", func(v int) (interface{}, []refcodec.Node, bool) {
			if v >= 9 {
				return nil, nil, false
			}
			h, r := strs[v%3], strs[v/3%3]
			return &c18TwoEmbedded{C18Common{h, r}, C18Second{"s;" + h, u32s[v%3]}}, []refcodec.Node{strn(264, h), strn(296, r), strn(263, "s;"+h), u32n(268, u32s[v%3])}, true
		}},
		{"outer-field-shadowing-an-embedded-one", func(v int) (interface{}, []refcodec.Node, bool) {
			if v >= 9 {
				return nil, nil, false
			}
			h, r := strs[v%3], strs[v/3%3]
			return &c18Shadowing{Host: "s;" + r, C18Common: C18Common{h, r}}, []refcodec.Node{strn(263, "s;"+r), strn(264, h), strn(296, r)}, true
		}},
		{"untagged-named-struct-field", func(v int) (interface{}, []refcodec.Node, bool) {
			if v >= 9 {
				return nil, nil, false
			}
			h, r := strs[v%3], strs[v/3%3]
			return &c18UntaggedStructField{Peer: C18Common{"peer." + h, "peer." + r}, RC: u32s[v%3], Note: &C18Second{"note", 7}, Host: h},
				[]refcodec.Node{u32n(268, u32s[v%3]), strn(264, h)}, true
		}},
		{"application-defined-types", func(v int) (interface{}, []refcodec.Node, bool) {
			if v >= 9 {
				return nil, nil, false
			}
			h, a := strs[1+v%2], u32s[v/3%3]
			at := time.Unix(1449675653+int64(v)*86400*365, 0)
			tn := refcodec.Node{Code: 55, Flags: 0x40, Payload: refcodec.TimeFromUnix(at.Unix())}
			switch v % 3 {
			case 0:
				return &c18DefinedTypes{Host: c18Str(h), RC: c18U32(a), At: c18Stamp(at), Class: c18Raw("cl" + h), Apps: []c18U32{c18U32(a), 7}},
					[]refcodec.Node{strn(264, h), u32n(268, a), tn, strn(25, "cl"+h), u32n(258, a), u32n(258, 7)}, true
			case 1:
				st := c18Stamp(at)
				return &c18DefinedTimes{At: &st, Host: c18Str(h)}, []refcodec.Node{tn, strn(264, h)}, true
			}
			at2 := at.Add(time.Hour)
			return &c18DefinedTimeSlice{Ats: []c18DStamp{c18DStamp(at), c18DStamp(at2)}, Host: c18Str(h)},
				[]refcodec.Node{tn, {Code: 55, Flags: 0x40, Payload: refcodec.TimeFromUnix(at2.Unix())}, strn(264, h)}, true
		}},
		{"embedded-three-to-five-levels-deep", func(v int) (interface{}, []refcodec.Node, bool) {
			if v >= 9 {
				return nil, nil, false
			}
			h, r, a := strs[1+v%2], strs[1+v/2%2], u32s[v%3]
			id := C18Ident{h, r, a}
			ses := C18Session{C18Routing{id}, "s" + h}
			want := []refcodec.Node{strn(264, h), strn(296, r), u32n(268, a), strn(263, "s"+h)}
			switch v / 3 {
			case 0:
				return &c18Deep3{ses}, want, true
			case 1:
				return &c18Deep4{C18Wrap4{ses}}, want, true
			}
			return &c18Deep5{C18Wrap5{C18Wrap4{ses}}, []uint32{a, 7}}, append(want, u32n(258, a), u32n(258, 7)), true
		}},
		{"many-avps-on-one-level", func(v int) (interface{}, []refcodec.Node, bool) {
			if v >= 4 {
				return nil, nil, false
			}
			n := []int{5, 11, 13, 27}[v] // around the sizes below which sorts and small tables behave specially
			s := &c18ManyOnOneLevel{Host: "h", Realm: "r"}
			want := []refcodec.Node{strn(264, "h"), strn(296, "r")}
			for i := 0; i < n; i++ {
				x := uint32(16777200 + (i*7)%n) // distinct, not ascending
				s.Apps = append(s.Apps, x)
				want = append(want, u32n(258, x))
			}
			for i := 0; i < 3; i++ {
				s.VSA = append(s.VSA, c18VSA{uint32(10415 - i), uint32(30 - i)})
				want = append(want, vsaNode(uint32(10415-i), uint32(30-i)))
			}
			for i := 0; i < n/2; i++ {
				s.Acct = append(s.Acct, uint32(900-i))
				want = append(want, u32n(259, uint32(900-i)))
			}
			return s, want, true
		}},
		{"embedded-struct-of-unexported-type", func(v int) (interface{}, []refcodec.Node, bool) {
			if v >= 9 {
				return nil, nil, false
			}
			h, r := strs[v%3], strs[v/3%3]
			return &c18EmbeddedUnexported{RC: 2001, c18common: c18common{h, r}}, []refcodec.Node{u32n(268, 2001), strn(264, h), strn(296, r)}, true
		}},
		{"embedded-after-tagged-field", func(v int) (interface{}, []refcodec.Node, bool) {
			if v >= 9 {
				return nil, nil, false
			}
			h, r := strs[v%3], strs[v/3%3]
			return &c18EmbeddedAfter{RC: u32s[v%3], C18Common: C18Common{h, r}}, []refcodec.Node{u32n(268, u32s[v%3]), strn(264, h), strn(296, r)}, true
		}},
		{"embedded-in-the-middle", func(v int) (interface{}, []refcodec.Node, bool) {
			if v >= 6 {
				return nil, nil, false
			}
			h := strs[v%3]
			s := &c18EmbeddedMiddle{RC: 2001, C18Common: C18Common{h, "realm"}, Session: "sess;1"}
			want := []refcodec.Node{u32n(268, 2001), strn(264, h), strn(296, "realm"), strn(263, "sess;1")}
			if v >= 3 {
				s.VSA = &c18VSA{10415, 4}
				want = append(want, vsaNode(10415, 4))
			}
			return s, want, true
		}},
		{"group-in-group", func(v int) (interface{}, []refcodec.Node, bool) {
			if v >= 3 {
				return nil, nil, false
			}
			s := &c18Deep{}
			s.Failed.VSA = c18VSA{u32s[v], 4}
			return s, []refcodec.Node{{Code: 279, Flags: 0x40, Group: true, Children: []refcodec.Node{vsaNode(u32s[v], 4)}}}, true
		}},
		{"AVP-field", func(v int) (interface{}, []refcodec.Node, bool) {
			if v >= 2 {
				return nil, nil, false
			}
			h := strs[v+1]
			return &c18AVPField{Host: *diam.NewAVP(264, 0x40, 0, datatype.DiameterIdentity(h))}, []refcodec.Node{strn(264, h)}, true
		}},
		{"*AVP-field", func(v int) (interface{}, []refcodec.Node, bool) {
			if v >= 2 {
				return nil, nil, false
			}
			if v == 0 {
				return &c18AVPPtrField{Host: "h"}, []refcodec.Node{strn(264, "h")}, true
			}
			return &c18AVPPtrField{State: diam.NewAVP(278, 0x40, 0, datatype.Unsigned32(7)), Host: "h"}, []refcodec.Node{u32n(278, 7), strn(264, "h")}, true
		}},
		{"AVP-field-grouped", func(v int) (interface{}, []refcodec.Node, bool) {
			if v >= 1 {
				return nil, nil, false
			}
			g := &diam.GroupedAVP{AVP: []*diam.AVP{diam.NewAVP(266, 0x40, 0, datatype.Unsigned32(10415)), diam.NewAVP(258, 0x40, 0, datatype.Unsigned32(4))}}
			return &c18AVPGroupField{VSA: *diam.NewAVP(260, 0x40, 0, g)}, []refcodec.Node{vsaNode(10415, 4)}, true
		}},
		{"*AVP-field-grouped", func(v int) (interface{}, []refcodec.Node, bool) {
			if v >= 1 {
				return nil, nil, false
			}
			g := &diam.GroupedAVP{AVP: []*diam.AVP{diam.NewAVP(266, 0x40, 0, datatype.Unsigned32(10415)), diam.NewAVP(258, 0x40, 0, datatype.Unsigned32(4))}}
			return &c18AVPGroupPtrField{VSA: diam.NewAVP(260, 0x40, 0, g)}, []refcodec.Node{vsaNode(10415, 4)}, true
		}},
		{"[]AVP-field", func(v int) (interface{}, []refcodec.Node, bool) {
			// ready-made AVP VALUES (not pointers) in a list: 0..3 different elements
			if v >= 4 {
				return nil, nil, false
			}
			s := &c18AVPValListField{Host: "h"}
			var want []refcodec.Node
			for i := 0; i < v; i++ {
				s.Vendors = append(s.Vendors, *diam.NewAVP(265, 0x40, 0, datatype.Unsigned32(uint32(10415+i))))
				want = append(want, u32n(265, uint32(10415+i)))
			}
			return s, append(want, strn(264, "h")), true
		}},
		{"[]AVP-field-in-group", func(v int) (interface{}, []refcodec.Node, bool) {
			if v >= 4 {
				return nil, nil, false
			}
			s := &c18AVPValListInGroup{Host: "h"}
			var kids []refcodec.Node
			for i := 0; i < v; i++ {
				s.VSA.Members = append(s.VSA.Members, *diam.NewAVP(266, 0x40, 0, datatype.Unsigned32(uint32(7+i))))
				kids = append(kids, u32n(266, uint32(7+i)))
			}
			return s, []refcodec.Node{strn(264, "h"), {Code: 260, Flags: 0x40, Group: true, Children: kids}}, true
		}},
		{"[]*AVP-field", func(v int) (interface{}, []refcodec.Node, bool) {
			if v >= 8 {
				return nil, nil, false
			}
			s := &c18AVPListField{Host: "h"}
			var want []refcodec.Node
			if v >= 5 {
				// a ready-made list with room to grow (a capacity hint), as an application that
				// prepares its common AVPs once would have it
				s.Apps = make([]*diam.AVP, 0, 8)
				v -= 4
			}
			for i := 0; i < v; i++ {
				s.Apps = append(s.Apps, diam.NewAVP(258, 0x40, 0, datatype.Unsigned32(uint32(i+3))))
				want = append(want, u32n(258, uint32(i+3)))
			}
			return s, append(want, strn(264, "h")), true
		}},
	}
}

func c18StaticEval(cs C18Case) string {
	for _, s := range c18Statics() {
		if s.name != cs.Static {
			continue
		}
		src, wantNodes, ok := s.mk(cs.Variant)
		if !ok {
			return ""
		}
		parser := ConfigByName("default/app0").A.D.P
		if cs.Priv {
			parser = c18PrivDict()
			wantNodes = c18PrivNodes(wantNodes)
		}
		var want []byte
		for _, n := range wantNodes {
			want = append(want, refcodec.EncodeAVP(n)...)
		}
		m := diam.NewMessage(257, 0x80, 0, 1, 2, parser)
		if c18Used(m, src) != nil {
			return "Marshal into a message that already holds AVPs failed"
		}
		if err := m.Marshal(src); err != nil {
			return "Marshal failed: " + err.Error()
		}
		got, err := m.Serialize()
		if err != nil {
			return "Serialize after Marshal failed: " + err.Error()
		}
		if !bytes.Equal(got[20:], want) {
			return fmt.Sprintf("AVPs produced by Marshal %x differ from the AVPs built by hand %x", got[20:], want)
		}
		// the same source, with its string members changed, marshalled into a SECOND message: the
		// first message (not yet sent, or kept for a retransmission) must not change
		if !strings.Contains(s.name, "AVP-field") || s.name == "[]*AVP-field" {
			src2, _, _ := s.mk(cs.Variant)
			sv, sv2 := reflect.ValueOf(src).Elem(), reflect.ValueOf(src2).Elem()
			for i := 0; i < sv.NumField(); i++ {
				switch {
				case sv.Field(i).Kind() == reflect.String && sv.Type().Field(i).PkgPath == "":
					sv2.Field(i).SetString(sv.Field(i).String() + ".second-message.example")
				case sv.Type().Field(i).Type == tAVPList:
					sv2.Field(i).Set(sv.Field(i)) // the very same ready-made list
				}
			}
			m2 := diam.NewMessage(257, 0x80, 0, 3, 4, parser)
			if err := m2.Marshal(src2); err != nil {
				return "second Marshal failed: " + err.Error()
			}
			again, err := m.Serialize()
			if err != nil || !bytes.Equal(again, got) {
				return fmt.Sprintf("marshalling the same ready-made values into a second message changed the first message: %x, before %x (err %v)", again, got, err)
			}
		}
		if x, ok := src.(*c18UntaggedStructField); ok {
			// untagged fields are not part of the message: the round trip reproduces the tagged ones
			x.Peer, x.Note = C18Common{}, nil
		}
		for _, via := range []string{"direct", "wire"} {
			mm := m
			if via == "wire" {
				mm, err = diam.ReadMessage(bytes.NewReader(got), parser)
				if err != nil {
					return "marshalled message cannot be read back: " + err.Error()
				}
			}
			dst := reflect.New(reflect.TypeOf(src).Elem())
			if err := mm.Unmarshal(dst.Interface()); err != nil {
				return via + ": Unmarshal failed: " + err.Error()
			}
			if s := c18Equal(reflect.ValueOf(src).Elem(), dst.Elem()); s != "" {
				return fmt.Sprintf("%s round trip does not reproduce the struct: %s", via, s)
			}
		}
		return ""
	}
	return "harness: unknown static shape " + cs.Static
}

// c18Cross: one tag name that the default dictionary defines differently in two applications
// (another vendor id, other flags, another data type). The same struct type is marshalled into a
// message of the one application and then of the other (and, as a separate case, the other way
// round) in one process: each message must get the definition ITS application resolves the name to.
type c18CrossRow struct {
	name  string
	apps  [2]uint32
	types [2]reflect.Type
	vals  [2]interface{}
	pay   [2][]byte
}

func c18CrossRows() []c18CrossRow {
	tm := time.Unix(1700000000, 0).UTC()
	ntp := refcodec.BE32(uint32(1700000000 + 2208988800))
	return []c18CrossRow{
		{"Service-Selection", [2]uint32{16777251, 16777265}, [2]reflect.Type{tString, tString}, [2]interface{}{"apn.a", "apn.b"}, [2][]byte{[]byte("apn.a"), []byte("apn.b")}},
		{"RAT-Type", [2]uint32{4, 16777236}, [2]reflect.Type{tI32, tI32}, [2]interface{}{int32(1004), int32(1000)}, [2][]byte{refcodec.BE32(1004), refcodec.BE32(1000)}},
		{"ToS-Traffic-Class", [2]uint32{16777238, 16777236}, [2]reflect.Type{tU32, tString}, [2]interface{}{uint32(46), "\x2e\x00"}, [2][]byte{refcodec.BE32(46), []byte("\x2e\x00")}},
		{"Application-Service-Provider-Identity", [2]uint32{4, 16777236}, [2]reflect.Type{tString, tString}, [2]interface{}{"asp-1", "asp-2"}, [2][]byte{[]byte("asp-1"), []byte("asp-2")}},
		{"User-Location-Info-Time", [2]uint32{4, 16777236}, [2]reflect.Type{tTime, tTime}, [2]interface{}{tm, tm}, [2][]byte{ntp, ntp}},
		{"Max-Requested-Bandwidth-DL", [2]uint32{16777236, 16777265}, [2]reflect.Type{tU32, tU32}, [2]interface{}{uint32(1), uint32(4294967295)}, [2][]byte{refcodec.BE32(1), refcodec.BE32(4294967295)}},
	}
}

func c18CrossEval(cs C18Case) string {
	rows := c18CrossRows()
	row := rows[cs.Variant/2]
	c := ConfigByName("default/app4")
	order := []int{0, 1, 0}
	if cs.Variant%2 == 1 {
		order = []int{1, 0, 1}
	}
	for _, i := range order {
		app := row.apps[i]
		def := c.A.D.M.FindName(app, row.name, 4294967295)
		if def == nil {
			return fmt.Sprintf("harness: %s not in the reference dictionary for application %d", row.name, app)
		}
		fl := mflag(def.Must)
		if def.Vendor != 0 {
			fl |= 0x80
		}
		want := refcodec.EncodeAVP(refcodec.Node{Code: def.Code, Flags: fl, Vendor: def.Vendor, Payload: row.pay[i]})
		st := reflect.StructOf([]reflect.StructField{{Name: "F", Type: row.types[i], Tag: reflect.StructTag(fmt.Sprintf(`avp:"%s"`, row.name))}})
		src := reflect.New(st)
		src.Elem().Field(0).Set(reflect.ValueOf(row.vals[i]))
		m := diam.NewMessage(257, 0x80, app, 1, 2, dict.Default)
		if err := m.Marshal(src.Interface()); err != nil {
			return fmt.Sprintf("application %d: Marshal failed: %v", app, err)
		}
		got, err := m.Serialize()
		if err != nil {
			return fmt.Sprintf("application %d: Serialize after Marshal failed: %v", app, err)
		}
		if !bytes.Equal(got[20:], want) {
			return fmt.Sprintf("application %d: the AVP produced by Marshal %x differs from the AVP built by hand from the entry that application resolves %s to, %x (applications marshalled in the order %v)", app, got[20:], row.name, want, []uint32{row.apps[order[0]], row.apps[order[1]]})
		}
		for _, via := range []string{"direct", "wire"} {
			mm := m
			if via == "wire" {
				if mm, err = diam.ReadMessage(bytes.NewReader(got), dict.Default); err != nil {
					return "marshalled message cannot be read back: " + err.Error()
				}
			}
			dst := reflect.New(st)
			if err := mm.Unmarshal(dst.Interface()); err != nil {
				return fmt.Sprintf("application %d, %s: Unmarshal failed: %v", app, via, err)
			}
			if s := c18Equal(src.Elem().Field(0), dst.Elem().Field(0)); s != "" {
				return fmt.Sprintf("application %d: %s round trip does not reproduce the field: %s", app, via, s)
			}
		}
	}
	return ""
}

func c18Eval(cs C18Case) string {
	c18CurUsed = ev.HS(cs.Desc())&1 == 1
	return safely(func() string {
		if cs.Static == "cross-application" {
			return c18CrossEval(cs)
		}
		if cs.Static != "" {
			return c18StaticEval(cs)
		}
		return c18Dynamic(cs)
	})
}

func c18Class(cs C18Case, what string) string {
	if cs.Static == "" {
		a := c18Table()[cs.AVP]
		if c18TagForms[cs.Tag].f != `avp:"%s"` && c18TagForms[cs.Tag].f != `avp:"%s,omitempty"` && strings.Contains(what, "AVPs produced by Marshal") {
			_ = a
			return "multi-key-struct-tag-inverts-omitempty"
		}
		if (a.K == atoms.KIPv6 || a.K == atoms.KQoS) && strings.Contains(what, "Data type is unknown") {
			return "marshal-lacks-ipv6-qosfilterrule"
		}
	}
	if strings.HasPrefix(cs.Static, "AVP-field") || strings.HasPrefix(cs.Static, "*AVP-field") {
		return "avp-typed-field-cannot-be-marshalled"
	}
	return ""
}

func runC18(ctx *ev.Ctx) {
	n := 0
	run := func(cs C18Case) {
		if !ctx.Mine() || ctx.Stop() {
			return
		}
		ctx.Eval(ev.HS(cs.Desc()))
		if n%3000 == 0 {
			ctx.Sample(cs.Desc())
		}
		n++
		if what := c18Eval(cs); what != "" {
			ctx.Report(c18Class(cs, what), generalise(what), what+" | case: "+cs.Desc(), cs)
		}
	}
	tab := c18Table()
	for ai, a := range tab {
		nv := len(c18Vals(a.K))
		for ti := range a.Types {
			for tag := range c18TagForms {
				for v := 0; v < nv; v++ {
					run(C18Case{AVP: ai, GoType: ti, Wrap: "T", Tag: tag, Vals: []int{v}})
					run(C18Case{AVP: ai, GoType: ti, Wrap: "*T", Tag: tag, Vals: []int{v}})
				}
				run(C18Case{AVP: ai, GoType: ti, Wrap: "*T", Tag: tag, Vals: []int{-1}})
				if a.Types[ti].Kind() == reflect.Slice && a.Types[ti].Elem().Kind() == reflect.Uint8 && a.Types[ti] == tBytes {
					continue // []([]byte) is not a supported holder
				}
				for _, wrap := range []string{"[]T", "[]*T"} {
					run(C18Case{AVP: ai, GoType: ti, Wrap: wrap, Tag: tag, Vals: nil})
					run(C18Case{AVP: ai, GoType: ti, Wrap: wrap, Tag: tag, Vals: []int{}})
					for v := 0; v < nv; v++ {
						run(C18Case{AVP: ai, GoType: ti, Wrap: wrap, Tag: tag, Vals: []int{v}})
						for w := 0; w < nv; w++ {
							run(C18Case{AVP: ai, GoType: ti, Wrap: wrap, Tag: tag, Vals: []int{v, w}})
						}
					}
					if nv >= 3 {
						run(C18Case{AVP: ai, GoType: ti, Wrap: wrap, Tag: tag, Vals: []int{2, 1, 0, 1}})
					}
				}
			}
		}
	}
	for v := 0; v < 2*len(c18CrossRows()); v++ {
		run(C18Case{AVP: -1, Static: "cross-application", Variant: v})
	}
	for _, s := range c18Statics() {
		for v := 0; v < 30; v++ {
			if _, _, ok := s.mk(v); ok {
				run(C18Case{AVP: -1, Static: s.name, Variant: v})
				if !strings.Contains(s.name, "AVP-field") {
					run(C18Case{AVP: -1, Static: s.name, Variant: v, Priv: true})
				}
			}
		}
	}
	ctx.Rule = "struct types built with reflect.StructOf: one field for each of 24 (AVP, holder family) rows - including fields declared with a go-diameter datatype other than the dictionary's, and a vendor-specific AVP whose must-not lists V - (including a vendor-specific AVP whose must attribute does not list V and a vendor-less one whose must does) (every scalar data type, a vendor-specific AVP, Float32/64, IPv4/6, IPFilterRule, QoSFilterRule from a generated dictionary) x each Go holder type (native scalar, datatype type, net.IP, []byte, time.Time) x wrapper {T, *T, []T, []*T} x nine tag forms (plain, omitempty, each with a second key before/after, other keys carrying their own ,omitempty option before/after) x values {boundary atoms; nil pointer; nil, empty, 1-, 2- and 4-element slices}; plus static shapes: nested struct, pointer to struct, slice of structs with omitempty members (an element or a pointed-to struct all of whose members are omitted still yields its - empty - Grouped AVP), slice of pointers, anonymous embedded struct (first, after a tagged field, in the middle, of an unexported type; two embedded structs declaring the same Go field names; an outer field shadowing an embedded one; untagged NAMED fields of struct / pointer-to-struct type whose types carry avp tags - not marshalled), anonymous structs embedded three, four and five levels deep with several tagged fields at the bottom, application-defined types over string / uint32 / time.Time / datatype.Time / []byte as scalars, behind a pointer and as slice elements, 5 / 11 / 13 / 27 repetitions of one code next to other repeated codes on one level (order is data), group in group, AVP / *AVP / []*AVP / []AVP fields (the last also as a group member), optional group members held through pointers with omitempty (each of three members nil, pointing to 0, pointing to 7 - a non-nil pointer to the zero value is a present member), in a nested struct, a pointer to one and slices of both; the struct shapes also in a message carrying a private dictionary that defines every name used with another code, other flags and vendor ids (members of nested structs must be resolved through the message's dictionary too). Six tag names the default dictionary defines differently in two applications (vendor id, flags or data type) are marshalled into messages of the one application, the other, and the first again, in both orders, in one process. Every struct shape is marshalled a second time, with its string members changed and its ready-made []*AVP list (built by append, or with a capacity hint) shared, into a second message: the first message must not change. Every other case marshals into a message that already holds an AVP and has been marshalled into before. Oracle: the AVP bytes Marshal produces equal the AVPs built by hand from the reference dictionary entry (code, vendor id, M from must, V from vendor, typed value); Unmarshal directly and after Serialize+ReadMessage reproduces the field values (nil == empty for slices, times by second, floats by bits)."
	ctx.Assume = []string{"holder types are those for which the reflect code has a conversion path (AssignableTo / ConvertibleTo); Address holders carry IPv4 / IPv6 only"}
}

func replayC18(ctx *ev.Ctx, raw json.RawMessage) string {
	var cs C18Case
	if err := json.Unmarshal(raw, &cs); err != nil {
		ev.Infra("replay: %v", err)
	}
	fmt.Println("  case:", cs.Desc())
	return c18Eval(cs)
}
