package checks

import (
	"encoding/json"
	"fmt"
	"strings"

	"github.com/fiorix/go-diameter/v4/diam"
	"github.com/fiorix/go-diameter/v4/diam/datatype"
	"github.com/fiorix/go-diameter/v4/diam/dict"
	"verif/internal/ev"
)

// C20 — AVP search returns exactly the AVPs a reference tree walk finds.

func init() {
	Registry["C20"] = &Check{Run: runC20, Replay: replayC20, Sharded: true}
}

// node alphabet: 0,1 leaves; 2,3 groups
var c20Codes = []uint32{264, 268, 279, 284} // Origin-Host, Result-Code, Failed-AVP, Proxy-Info
var c20Names = []string{"Origin-Host", "Result-Code", "Failed-AVP", "Proxy-Info"}

var c20HighCodes = []uint32{3000000000, 2147483648}
var c20HighNames = []string{"Priv-High", "Priv-Half"}

const c20AbsentCode = 263 // Session-Id: defined, never in the tree
const c20AbsentName = "Session-Id"
const c20UndefCode = 60001

// T is a tree node: K indexes c20Codes; groups (K>=2) have Kids.
type T struct {
	K    int
	Kids []T
}

func (t T) String() string {
	if t.K == 4 {
		return "279/v4242(opaque)"
	}
	if t.K == 5 {
		var s []string
		for _, k := range t.Kids {
			s = append(s, k.String())
		}
		return fmt.Sprintf("33(OctetString in the dictionary){%s}", strings.Join(s, " "))
	}
	if t.K == 6 || t.K == 7 {
		return fmt.Sprint(c20HighCodes[t.K-6])
	}
	if t.K < 2 {
		return fmt.Sprint(c20Codes[t.K])
	}
	var s []string
	for _, k := range t.Kids {
		s = append(s, k.String())
	}
	return fmt.Sprintf("%d{%s}", c20Codes[t.K], strings.Join(s, " "))
}

func treeString(ts []T) string {
	var s []string
	for _, t := range ts {
		s = append(s, t.String())
	}
	return strings.Join(s, " ")
}

// c20Spy is a caller-defined data type (the datatype.Type interface is open): a leaf that runs f
// when the library asks for its type.
type c20Spy struct{ f func() }

func (s *c20Spy) Serialize() []byte { return nil }
func (s *c20Spy) Len() int          { return 0 }
func (s *c20Spy) Padding() int      { return 0 }
func (s *c20Spy) String() string    { return "spy" }
func (s *c20Spy) Type() datatype.TypeID {
	if s.f != nil {
		s.f()
	}
	return datatype.UnknownType
}

// c20Shared, when non-nil, makes c20Build hand out ONE node object for equal group subtrees: the
// application attaches a prebuilt group (a template) in several places of the same message. The
// tree is then a DAG; a search must still report every occurrence, in pre-order.
var c20Shared map[string]*diam.AVP

func c20Build(t T) *diam.AVP {
	if c20Shared != nil && t.K != 0 && t.K != 1 && t.K != 4 && t.K != 6 && t.K != 7 {
		key := t.String()
		if a, ok := c20Shared[key]; ok {
			return a
		}
		saved := c20Shared
		a := c20BuildNode(t)
		saved[key] = a
		return a
	}
	return c20BuildNode(t)
}

func c20BuildNode(t T) *diam.AVP {
	switch t.K {
	case 0:
		return diam.NewAVP(264, 0x40, 0, datatype.DiameterIdentity("h"))
	case 1:
		return diam.NewAVP(268, 0x40, 0, datatype.Unsigned32(2001))
	case 4:
		// the code of a Grouped AVP in another vendor's name space: carried as opaque data, not a group
		return diam.NewAVP(279, 0xC0, 4242, datatype.Unknown("opaque"))
	case 6, 7:
		// codes in the upper half of the 32-bit range (the private dictionary defines them)
		return diam.NewAVP(c20HighCodes[t.K-6], 0x40, 0, datatype.Unsigned32(7))
	}
	g := &diam.GroupedAVP{}
	for _, k := range t.Kids {
		g.AddAVP(c20Build(k))
	}
	if t.K == 5 {
		// a container the dictionary declares as OctetString (Proxy-State), assembled as a group by
		// the application: the search follows the tree, not the dictionary's type declarations
		return diam.NewAVP(33, 0x40, 0, g)
	}
	return diam.NewAVP(c20Codes[t.K], 0x40, 0, g)
}

// reference walks over the built AVPs (pointer identity)
func refAll(avps []*diam.AVP, code uint32, out *[]*diam.AVP) {
	for _, a := range avps {
		if a.Code == code {
			*out = append(*out, a)
		}
		if g, ok := a.Data.(*diam.GroupedAVP); ok {
			refAll(g.AVP, code, out)
		}
	}
}

func refPath(avps []*diam.AVP, path []uint32) []*diam.AVP {
	var out []*diam.AVP
	for _, a := range avps {
		if a.Code != path[0] {
			continue
		}
		if len(path) == 1 {
			out = append(out, a)
			continue
		}
		if g, ok := a.Data.(*diam.GroupedAVP); ok {
			out = append(out, refPath(g.AVP, path[1:])...)
		}
	}
	return out
}

func samePtrs(a, b []*diam.AVP) bool {
	if len(a) != len(b) {
		return false
	}
	for i := range a {
		if a[i] != b[i] {
			return false
		}
	}
	return true
}

type C20Case struct {
	Tree []T
	Priv bool // the message carries a private dictionary that names the codes differently
	// Share: equal group subtrees are one node object attached in several places
	Share bool `json:",omitempty"`
	// AppPaths: the application-scoped path family (c20AppPaths)
	AppPaths bool `json:",omitempty"`
}

// c20HasRepeat reports whether a group subtree occurs more than once in the forest.
func c20HasRepeat(ts []T) bool {
	seen := map[string]bool{}
	var walk func(t T) bool
	walk = func(t T) bool {
		if t.K == 0 || t.K == 1 || t.K == 4 || t.K == 6 || t.K == 7 {
			return false
		}
		k := t.String()
		if seen[k] {
			return true
		}
		for _, c := range t.Kids {
			if walk(c) {
				return true
			}
		}
		seen[k] = true
		return false
	}
	for _, t := range ts {
		if walk(t) {
			return true
		}
	}
	return false
}

// c20PrivXML: the four codes of the alphabet under other names, and the names the default
// dictionary uses for them attached to other codes (absent from every tree) - so a query by
// name resolved through any dictionary but the message's own finds nothing or something else.
const c20PrivXML = `<?xml version="1.0" encoding="UTF-8"?>
<diameter><application id="0" name="Priv">
<avp name="Priv-Host" code="264" must="M" may="P" must-not="V" may-encrypt="-"><data type="DiameterIdentity"/></avp>
<avp name="Priv-Result" code="268" must="M" may="P" must-not="V" may-encrypt="-"><data type="Unsigned32"/></avp>
<avp name="Priv-Failed" code="279" must="M" may="P" must-not="V" may-encrypt="-"><data type="Grouped"/></avp>
<avp name="Priv-Proxy" code="284" must="M" may="P" must-not="V" may-encrypt="-"><data type="Grouped"/></avp>
<avp name="Priv-Session" code="263" must="M" may="P" must-not="V" may-encrypt="-"><data type="UTF8String"/></avp>
<avp name="Origin-Host" code="9264" must="M" may="P" must-not="V" may-encrypt="-"><data type="DiameterIdentity"/></avp>
<avp name="Result-Code" code="9268" must="M" may="P" must-not="V" may-encrypt="-"><data type="Unsigned32"/></avp>
<avp name="Failed-AVP" code="9279" must="M" may="P" must-not="V" may-encrypt="-"><data type="Grouped"/></avp>
<avp name="Proxy-Info" code="9284" must="M" may="P" must-not="V" may-encrypt="-"><data type="Grouped"/></avp>
<avp name="Priv-High" code="3000000000" must="M" may="P" must-not="V" may-encrypt="-"><data type="Unsigned32"/></avp>
<avp name="Priv-Half" code="2147483648" must="M" may="P" must-not="V" may-encrypt="-"><data type="Unsigned32"/></avp>
<avp name="Only-Private" code="9300" must="M" may="P" must-not="V" may-encrypt="-"><data type="Unsigned32"/></avp>
</application></diameter>`

var c20PrivNames = []string{"Priv-Host", "Priv-Result", "Priv-Failed", "Priv-Proxy"}
var c20Priv *dict.Parser

func c20PrivDict() *dict.Parser {
	if c20Priv == nil {
		p, err := dict.NewParser()
		if err == nil {
			err = p.Load(strings.NewReader(c20PrivXML))
		}
		if err != nil {
			ev.Infra("C20 private dictionary: %v", err)
		}
		c20Priv = p
	}
	return c20Priv
}

// c20Eval runs every query against one tree; returns the first disagreement.
func c20Eval(cs C20Case) (res string, queries int) {
	defer func() {
		if r := recover(); r != nil {
			res = fmt.Sprintf("PANIC: %v", r)
		}
	}()
	m := diam.NewMessage(257, 0x80, 0, 1, 1, dict.Default)
	c20Names, c20AbsentName := c20Names, c20AbsentName
	if cs.Priv {
		m = diam.NewMessage(257, 0x80, 0, 1, 1, c20PrivDict())
		c20Names, c20AbsentName = c20PrivNames, "Priv-Session"
	}
	if cs.Share {
		c20Shared = map[string]*diam.AVP{}
		defer func() { c20Shared = nil }()
	}
	for _, t := range cs.Tree {
		m.AddAVP(c20Build(t))
	}
	c20Shared = nil
	pass := func() (string, int) {
		queries := 0
		type q struct {
			key  interface{}
			code uint32
			desc string
		}
		var qs []q
		for i, c := range c20Codes {
			qs = append(qs, q{c, c, fmt.Sprint(c)}, q{int(c), c, fmt.Sprintf("int(%d)", c)}, q{c20Names[i], c, c20Names[i]})
		}
		if cs.Priv {
			// the default dictionary's names denote other codes here, none of them in the tree
			for _, n := range []string{"Origin-Host", "Result-Code", "Failed-AVP", "Proxy-Info", "Only-Private"} {
				qs = append(qs, q{n, 9999, "name of an absent code in the private dictionary: " + n})
			}
			// codes beyond 2^31, asked for as uint32, as int and by name
			for i, c := range c20HighCodes {
				qs = append(qs, q{c, c, fmt.Sprint(c)}, q{int(c), c, fmt.Sprintf("int(%d)", c)}, q{c20HighNames[i], c, c20HighNames[i]})
			}
		}
		if !cs.Priv {
		qs = append(qs, q{uint32(33), 33, "33"}, q{"Proxy-State", 33, "Proxy-State"})
	}
	qs = append(qs, q{uint32(c20AbsentCode), c20AbsentCode, "absent 263"}, q{c20AbsentName, c20AbsentCode, "absent Session-Id"}, q{uint32(c20UndefCode), c20UndefCode, "undefined 60001"}, q{"No-Such-AVP", 0, "undefined name"})
		// every non-empty result list is kept by the caller (it belongs to the caller) and compared
		// with a copy after all the later searches of this pass
		type keptResult struct {
			desc      string
			got, copy []*diam.AVP
		}
		var kept []keptResult
		keep := func(desc string, got []*diam.AVP) {
			if len(got) > 0 {
				kept = append(kept, keptResult{desc, got, append([]*diam.AVP{}, got...)})
			}
		}
		checkKept := func() string {
			for _, k := range kept {
				if !samePtrs(k.got, k.copy) {
					return fmt.Sprintf("the list returned by %s (%d AVPs), kept by the caller, holds other AVPs after later searches on the same message", k.desc, len(k.copy))
				}
			}
			return ""
		}
		for _, x := range qs {
			var want []*diam.AVP
			if x.code != 0 {
				refAll(m.AVP, x.code, &want)
			}
			queries += 2
			got, err := m.FindAVPs(x.key, 0)
			keep("FindAVPs("+x.desc+")", got)
			if len(want) == 0 {
				if err == nil && len(got) != 0 {
					return fmt.Sprintf("FindAVPs(%s): %d AVPs returned for a code absent from the message", x.desc, len(got)), queries
				}
			} else if err != nil || !samePtrs(got, want) {
				return fmt.Sprintf("FindAVPs(%s): got %d AVPs (err %v), the pre-order walk finds %d - or in another order", x.desc, len(got), err, len(want)), queries
			}
			one, err := m.FindAVP(x.key, 0)
			if len(want) == 0 {
				if err == nil && one != nil {
					return fmt.Sprintf("FindAVP(%s): returned an AVP (code %d) although the code is absent from the message", x.desc, one.Code), queries
				}
			} else if err != nil || one != want[0] {
				return fmt.Sprintf("FindAVP(%s): did not return the first AVP in depth-first document order (err %v)", x.desc, err), queries
			}
		}
		if s := checkKept(); s != "" {
			return s, queries
		}
		// paths of length <= 3 over the alphabet + the absent code, by number and by name
		alpha := append(append([]uint32{}, c20Codes...), c20AbsentCode)
		names := append(append([]string{}, c20Names...), c20AbsentName)
		if cs.Priv {
			alpha, names = append(alpha, c20HighCodes...), append(names, c20HighNames...)
		}
		if !cs.Priv {
			alpha, names = append(alpha, 33), append(names, "Proxy-State")
		}
		var paths [][]int
		for a := range alpha {
			paths = append(paths, []int{a})
			for b := range alpha {
				paths = append(paths, []int{a, b})
				for c := range alpha {
					paths = append(paths, []int{a, b, c})
				}
			}
		}
		for pi, p := range paths {
			var codes []uint32
			var keys []interface{}
			for j, x := range p {
				codes = append(codes, alpha[x])
				switch {
				case (pi+j)%2 == 1:
					keys = append(keys, names[x])
				case (pi+j)%4 == 0:
					keys = append(keys, alpha[x])
				default:
					keys = append(keys, int(alpha[x])) // a number may also be given as a Go int
				}
			}
			want := refPath(m.AVP, codes)
			queries++
			asked := append([]interface{}{}, keys...)
			got, err := m.FindAVPsWithPath(keys, 0)
			for j := range asked {
				// the path belongs to the caller (kept in a variable, used again on another message)
				if keys[j] != asked[j] {
					return fmt.Sprintf("FindAVPsWithPath(%v) rewrote element %d of the caller's path to %v", asked, j, keys[j]), queries
				}
			}
			if err != nil {
				return fmt.Sprintf("FindAVPsWithPath(%v): error %v", keys, err), queries
			}
			if !samePtrs(got, want) {
				return fmt.Sprintf("FindAVPsWithPath(%v): %d AVPs, the strict per-level walk finds %d (or other AVPs / order)", keys, len(got), len(want)), queries
			}
			if len(p) == 1 {
				keep(fmt.Sprintf("FindAVPsWithPath(%v)", keys), got)
			}
		}
		if s := checkKept(); s != "" {
			return s, queries
		}
		// paths with an element the message's dictionary cannot resolve (an undefined number, an
		// undefined name) in front of, between and behind resolvable ones: no AVP lies on such a path
		for _, bad := range []interface{}{uint32(c20UndefCode), int(c20UndefCode), "No-Such-AVP"} {
			for ai, a := range alpha {
				for _, b := range alpha[:2] {
					for pi, keys := range [][]interface{}{{bad, a}, {bad, a, b}, {a, bad, b}, {names[ai], bad, b}, {a, b, bad}} {
						_ = pi
						queries++
						got, err := m.FindAVPsWithPath(keys, 0)
						if err == nil && len(got) != 0 {
							return fmt.Sprintf("FindAVPsWithPath(%v): %d AVPs returned although %v does not resolve through the message's dictionary (an AVP that is not on the requested path)", keys, len(got), bad), queries
						}
					}
				}
			}
		}
		return "", queries
	}
	res, queries = pass()
	if res != "" || len(m.AVP) == 0 {
		return res, queries
	}
	// two path searches overlapping in time, after one that failed to resolve its path: the outer
	// search meets (as its first candidate) an AVP whose data type, when asked for its Type(),
	// runs a complete path search on ANOTHER message - standing for a second goroutine
	if !cs.Priv {
		other := diam.NewMessage(257, 0x80, 0, 1, 1, dict.Default)
		other.AddAVP(c20Build(T{K: 3, Kids: []T{{K: 1}, {K: 0}}}))
		for _, outer := range [][]uint32{{279, 264}, {279, 268}, {284, 264}, {279, 284, 268}} {
			spy := &c20Spy{}
			mm := diam.NewMessage(257, 0x80, 0, 1, 1, dict.Default)
			mm.AddAVP(diam.NewAVP(outer[0], 0xC0, 4242, spy))
			for _, t := range cs.Tree {
				mm.AddAVP(c20Build(t))
			}
			_, _ = mm.FindAVPsWithPath([]interface{}{"No-Such-AVP-Name", uint32(264)}, 0) // fails to resolve
			spy.f = func() {
				spy.f = nil
				_, _ = other.FindAVPsWithPath([]interface{}{uint32(284), uint32(268)}, 0)
			}
			var keys []interface{}
			for _, c := range outer {
				keys = append(keys, c)
			}
			got, err := mm.FindAVPsWithPath(keys, 0)
			queries++
			want := refPath(mm.AVP, outer)
			if err != nil || !samePtrs(got, want) {
				return fmt.Sprintf("FindAVPsWithPath(%v) overlapping with a path search on another message (after a search whose path did not resolve): %d AVPs (err %v), the strict per-level walk finds %d", outer, len(got), err, len(want)), queries
			}
		}
	}
	// search - edit - search: the message is edited in ways that do not go through Message.AddAVP /
	// InsertAVP (a member added to the first group, the first top-level AVP cut out of the
	// exported slice, the AVPs replaced by Marshal) and every query is asked again
	edits := []struct {
		name string
		do   func() bool
	}{
		{"a member (Result-Code) added to the first group with GroupedAVP.AddAVP", func() bool {
			for _, a := range m.AVP {
				if g, ok := a.Data.(*diam.GroupedAVP); ok {
					g.AddAVP(diam.NewAVP(268, 0x40, 0, datatype.Unsigned32(7)))
					return true
				}
			}
			return false
		}},
		{"the first top-level AVP removed from Message.AVP", func() bool {
			m.AVP = m.AVP[1:]
			return true
		}},
		{"the AVPs replaced by Marshal", func() bool {
			var src interface{} = &struct {
				H string `avp:"Origin-Host"`
			}{"new.example"}
			if cs.Priv {
				src = &struct {
					H string `avp:"Priv-Host"`
				}{"new.example"}
			}
			return m.Marshal(src) == nil
		}},
	}
	for _, e := range edits {
		if !e.do() {
			continue
		}
		r, n := pass()
		queries += n
		if r != "" {
			return "after " + e.name + ": " + r, queries
		}
	}
	return "", queries
}

func c20Enum(ctx *ev.Ctx, fn func(C20Case)) string {
	thorough := ctx.Tier == "thorough"
	innerW := 3
	seqs := func(nodes []T, w int) [][]T {
		out := [][]T{nil}
		prev := [][]T{nil}
		for i := 0; i < w; i++ {
			var next [][]T
			for _, p := range prev {
				for _, n := range nodes {
					next = append(next, append(append([]T{}, p...), n))
				}
			}
			out = append(out, next...)
			prev = next
		}
		return out
	}
	level := []T{{K: 0}, {K: 1}, {K: 4}} // depth-0 nodes: leaves (K 4: a leaf that carries the code of a Grouped AVP)
	var levels [][]T
	levels = append(levels, level)
	for d := 1; d <= 2; d++ {
		w := innerW
		if d == 2 && !thorough {
			w = 2
		}
		var next []T
		next = append(next, T{K: 0}, T{K: 1}, T{K: 4})
		for _, s := range seqs(levels[d-1], w) {
			next = append(next, T{K: 2, Kids: s}, T{K: 3, Kids: s})
			if d == 1 && len(s) <= 2 {
				next = append(next, T{K: 5, Kids: s})
			}
		}
		levels = append(levels, next)
	}
	// leaves whose codes lie beyond 2^31 (defined by the private dictionary only): alone, in groups,
	// next to each other
	for _, hk := range []int{6, 7} {
		for _, t := range [][]T{{{K: hk}}, {{K: 2, Kids: []T{{K: hk}}}}, {{K: 3, Kids: []T{{K: 2, Kids: []T{{K: hk}, {K: 0}}}, {K: hk}}}, {K: hk}},
			{{K: hk}, {K: 13 - hk}, {K: 2, Kids: []T{{K: 13 - hk}}}}} {
			if ctx.Mine() {
				fn(C20Case{Tree: t, Priv: true})
			}
		}
	}
	emit := func(t []T) {
		if ctx.Mine() {
			fn(C20Case{Tree: t})
			fn(C20Case{Tree: t, Priv: true})
			if c20HasRepeat(t) {
				fn(C20Case{Tree: t, Share: true})
			}
		}
	}
	// chains: groups nested 1..40 deep (alternating the two grouped codes), the innermost empty or
	// holding a leaf, every level followed by a sibling leaf or not - nesting depth alone, beyond
	// any small table a search might size for
	depths := []int{}
	for depth := 1; depth <= 40; depth++ {
		depths = append(depths, depth)
	}
	// ... and around the powers of two / round numbers a "safety" limit or a fixed-size stack
	// would pick (a search must not stop descending at any of them)
	depths = append(depths, 63, 64, 65, 100, 127, 128, 129, 130, 200, 255, 256, 257, 300, 512, 513, 1000, 1025)
	for _, depth := range depths {
		for _, inner := range []int{-1, 0, 1} {
			if depth > 40 && inner != 0 {
				continue // beyond 40 levels: the innermost group holds a leaf (4 trees per depth, not 12)
			}
			for _, sib := range []bool{false, true} {
				var t T
				if inner >= 0 {
					t = T{K: inner}
				}
				for d := depth; d >= 1; d-- {
					g := T{K: 2 + d%2}
					if d < depth || inner >= 0 {
						g.Kids = append(g.Kids, t)
					}
					if sib {
						g.Kids = append(g.Kids, T{K: d % 2})
					}
					t = g
				}
				emit([]T{t})
				emit([]T{t, {K: 0}})
			}
		}
	}
	// top level: every single depth-2 node; every pair and triple of depth-1 nodes; pairs of
	// (depth-2 node, leaf) in both orders
	emit(nil)
	for _, a := range levels[2] {
		emit([]T{a})
		emit([]T{a, {K: 0}})
		emit([]T{{K: 1}, a})
	}
	for _, a := range levels[1] {
		for _, b := range levels[1] {
			emit([]T{a, b})
			if thorough || (len(a.Kids) <= 1 && len(b.Kids) <= 1) {
				for _, c := range levels[1] {
					if len(c.Kids) <= 1 && (thorough || len(a.Kids)+len(b.Kids) <= 1) {
						emit([]T{a, b, c})
					}
				}
			}
		}
	}
	return "all AVP trees over two leaf codes, two grouped codes and one leaf that carries the code of a Grouped AVP under a foreign vendor id (opaque data, not a group) and one container whose code the dictionary declares as OctetString but which the application assembled as a group: every single node of nesting depth <=3 with inner width <=3 (outermost group: <=2 children quick, <=3 thorough), alone and next to a leaf in both orders; every ordered pair (and a family of triples) of depth-<=2 nodes; empty groups, repeated codes at several depths, groups in groups; leaves with codes 2147483648 and 3000000000 (private dictionary; asked for as uint32, as int and by name); chains of 1..40 and of 63, 64, 65, 100, 127..130, 200, 255..257, 300, 512, 513, 1000 and 1025 nested groups (innermost empty or holding a leaf - beyond 40 levels always a leaf -, with or without a sibling leaf at every level). Per tree: FindAVP and FindAVPs by uint32, int and name for every code of the alphabet, a defined but absent code, an undefined code and an undefined name; FindAVPsWithPath for every path of length <=3 over the alphabet plus the absent code, alternating number (uint32 or int) and name per step, and paths with an unresolvable element in front of, between and behind resolvable ones (never an AVP). Every tree is searched twice: in a message carrying dict.Default and in one carrying a private dictionary that names the four codes differently and attaches the default names to codes absent from the tree (a name must resolve through the message's own dictionary). After the first round of queries each message is edited without going through Message.AddAVP / InsertAVP (a member added to its first group, its first top-level AVP cut out of the exported slice, its AVPs replaced by Marshal) and every query is asked again. Path searches are also made overlapping in time (a nested search on another message, started from inside the outer one through a caller-defined data type) after a search whose path did not resolve. Every tree in which a group subtree occurs more than once is also built with ONE node object for all its occurrences (a prebuilt group attached in several places): every occurrence must still be reported, in pre-order. Messages of a non-zero application: paths through groups the base application defines into AVPs only the message's application defines (Credit-Control, and a private dictionary that gives one name two codes in two applications). The caller's path slice is compared with a copy after every path search (it is the caller's); every non-empty list returned by FindAVPs / a one-element path search is kept and compared with a copy after all later searches on the message. Results are compared by pointer identity with a pre-order reference walk / strict per-level match."
}

// c20AppPaths: messages of a NON-ZERO application. Every element of a path resolves through the
// message's dictionary FOR THE MESSAGE'S APPLICATION - also behind a group that the base application
// defines (the group's defining application plays no part).
func c20AppPaths() string {
	type pq struct {
		keys  []interface{}
		codes []uint32
	}
	check := func(m *diam.Message, qs []pq, what string) string {
		for _, q := range qs {
			want := refPath(m.AVP, q.codes)
			got, err := m.FindAVPsWithPath(q.keys, 0)
			if len(want) > 0 && (err != nil || !samePtrs(got, want)) {
				return fmt.Sprintf("%s: FindAVPsWithPath(%v): %d AVPs (err %v), the per-level walk with every element resolved for the message's application finds %d", what, q.keys, len(got), err, len(want))
			}
			if len(want) == 0 && err == nil && len(got) != 0 {
				return fmt.Sprintf("%s: FindAVPsWithPath(%v): %d AVPs, the per-level walk finds none", what, q.keys, len(got))
			}
		}
		return ""
	}
	// 1. default dictionary, Credit-Control (application 4): Failed-AVP and Proxy-Info come from the
	// base application, CC-Request-Type (416) and CC-Request-Number (415) from application 4
	m := diam.NewMessage(272, 0, 4, 1, 1, dict.Default)
	inner := &diam.GroupedAVP{AVP: []*diam.AVP{diam.NewAVP(416, 0x40, 0, datatype.Enumerated(1)), diam.NewAVP(264, 0x40, 0, datatype.DiameterIdentity("h"))}}
	deep := &diam.GroupedAVP{AVP: []*diam.AVP{diam.NewAVP(279, 0x40, 0, inner), diam.NewAVP(415, 0x40, 0, datatype.Unsigned32(3))}}
	m.AddAVP(diam.NewAVP(416, 0x40, 0, datatype.Enumerated(2)))
	m.AddAVP(diam.NewAVP(279, 0x40, 0, inner))
	m.AddAVP(diam.NewAVP(284, 0x40, 0, deep))
	if s := check(m, []pq{
		{[]interface{}{279, 416}, []uint32{279, 416}}, {[]interface{}{"Failed-AVP", "CC-Request-Type"}, []uint32{279, 416}}, {[]interface{}{uint32(279), "CC-Request-Type"}, []uint32{279, 416}},
		{[]interface{}{"Failed-AVP", 416}, []uint32{279, 416}}, {[]interface{}{284, 279, 416}, []uint32{284, 279, 416}}, {[]interface{}{"Proxy-Info", "CC-Request-Number"}, []uint32{284, 415}},
		{[]interface{}{"Proxy-Info", "Failed-AVP", "CC-Request-Type"}, []uint32{284, 279, 416}}, {[]interface{}{279, 264}, []uint32{279, 264}}, {[]interface{}{"Failed-AVP", "CC-Request-Number"}, []uint32{279, 415}},
	}, "Credit-Control answer (application 4, default dictionary)"); s != "" {
		return s
	}
	// 2. a private dictionary in which the name "Item" is code 9001 in the base application and code
	// 9002 in application 7777, and the group "Box" exists in the base application only
	p, err := dict.NewParser()
	if err == nil {
		err = p.Load(strings.NewReader(`<?xml version="1.0" encoding="UTF-8"?><diameter>
<application id="0" name="Base"><command code="257" short="CE" name="Capabilities-Exchange"><request><rule avp="Box" required="false"/></request><answer><rule avp="Box" required="false"/></answer></command>
<avp name="Box" code="9000" must="M"><data type="Grouped"/></avp><avp name="Item" code="9001" must="M"><data type="Unsigned32"/></avp></application>
<application id="7777" type="auth" name="Seven"><avp name="Item" code="9002" must="M"><data type="Unsigned32"/></avp></application></diameter>`))
	}
	if err != nil {
		return ""
	}
	for _, app := range []uint32{0, 7777} {
		m := diam.NewMessage(257, 0x80, app, 1, 1, p)
		box := &diam.GroupedAVP{AVP: []*diam.AVP{diam.NewAVP(9001, 0x40, 0, datatype.Unsigned32(1)), diam.NewAVP(9002, 0x40, 0, datatype.Unsigned32(2))}}
		m.AddAVP(diam.NewAVP(9000, 0x40, 0, box))
		item := map[uint32]uint32{0: 9001, 7777: 9002}[app]
		qs := []pq{{[]interface{}{"Box", "Item"}, []uint32{9000, item}}, {[]interface{}{9000, "Item"}, []uint32{9000, item}}, {[]interface{}{"Box", 9001}, []uint32{9000, 9001}}}
		if app == 7777 {
			qs = append(qs, pq{[]interface{}{"Box", 9002}, []uint32{9000, 9002}}) // code 9002 is defined for application 7777 only
		}
		if s := check(m, qs,
			fmt.Sprintf("private dictionary, message of application %d", app)); s != "" {
			return s
		}
	}
	return ""
}

func runC20(ctx *ev.Ctx) {
	if ctx.Mine() {
		ctx.Eval(ev.HS("application-scoped paths"))
		if what := c20AppPaths(); what != "" {
			ctx.Report("", generalise(what), what, C20Case{AppPaths: true})
		}
	}
	n := 0
	var queries int64
	ctx.Rule = c20Enum(ctx, func(cs C20Case) {
		if ctx.Stop() {
			return
		}
		s := treeString(cs.Tree)
		if cs.Priv {
			s += " [private dictionary]"
		}
		if cs.Share {
			s += " [equal groups are one shared node]"
		}
		ctx.Eval(ev.HS(s))
		if n%20000 == 0 {
			ctx.Sample("tree: " + s)
		}
		n++
		what, q := c20Eval(cs)
		queries += int64(q)
		if what != "" {
			ctx.Report("", generalise(what), what+" | tree: "+s, cs)
		}
	})
	ctx.Set("queries", queries)
	ctx.Assume = []string{"trees contain dictionary-defined codes only (a lookup by an undefined numeric code goes through the dictionary and is outside the statement)"}
}

func replayC20(ctx *ev.Ctx, raw json.RawMessage) string {
	var cs C20Case
	if err := json.Unmarshal(raw, &cs); err != nil {
		ev.Infra("replay: %v", err)
	}
	if cs.AppPaths {
		return c20AppPaths()
	}
	fmt.Println("  tree:", treeString(cs.Tree))
	what, _ := c20Eval(cs)
	return what
}
