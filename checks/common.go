package checks

import (
	"io"
	"bytes"
	"fmt"
	"os"
	"strings"
	"time"

	"github.com/fiorix/go-diameter/v4/diam"
	"github.com/fiorix/go-diameter/v4/diam/datatype"
	"github.com/fiorix/go-diameter/v4/diam/dict"
	"verif/internal/atoms"
	"verif/internal/ev"
	"verif/internal/refcodec"
	"verif/internal/refdict"
)

func repoRoot() string {
	if r := os.Getenv("VERIF_REPO"); r != "" {
		return r
	}
	return "/repo"
}

// Config is one (dictionary, application) pair under which inputs are enumerated.
type Config struct {
	Name string
	A    *atoms.Alphabet
}

var embeddedCache []refdict.Embedded

func embedded() []refdict.Embedded {
	if embeddedCache == nil {
		e, err := refdict.LoadEmbedded(repoRoot())
		if err != nil {
			ev.Infra("embedded dictionaries: %v", err)
		}
		embeddedCache = e
	}
	return embeddedCache
}

var configCache map[string]*Config
var configOrder []string

// Configs returns the dictionary configurations: dict.Default under several application
// ids; the base dictionary alone; base + each other embedded dictionary alone; a generated
// dictionary declaring every type name.
func Configs() []*Config {
	if configCache != nil {
		var out []*Config
		for _, n := range configOrder {
			out = append(out, configCache[n])
		}
		return out
	}
	configCache = map[string]*Config{}
	add := func(name string, d *atoms.Dict, app uint32) {
		n := fmt.Sprintf("%s/app%d", name, app)
		configCache[n] = &Config{Name: n, A: atoms.BuildAlphabet(d, app)}
		configOrder = append(configOrder, n)
	}
	emb := embedded()
	var all []string
	for _, e := range emb {
		all = append(all, e.XML)
	}
	// the library's own default parser, paired with a reference model of the same XML
	def := &atoms.Dict{Name: "default", P: dict.Default, M: refdict.NewModel(), XMLs: all}
	for _, x := range all {
		if err := def.M.Load(x); err != nil {
			ev.Infra("reference model: %v", err)
		}
	}
	for _, app := range []uint32{4, 0, 16777251, 16777238, 3} {
		add("default", def, app)
	}
	base := emb[0].XML
	bd, err := atoms.NewDict("base", base)
	if err != nil {
		ev.Infra("%v", err)
	}
	add("base", bd, 0)
	for _, e := range emb[1:] {
		d, err := atoms.NewDict("base+"+e.Var, base, e.XML)
		if err != nil {
			ev.Infra("%s: %v", e.Var, err)
		}
		f, _ := refdict.Parse(e.XML)
		app := uint32(0)
		if len(f.Apps) > 0 {
			app = f.Apps[0].ID
		}
		add("base+"+e.Var, d, app)
	}
	gd, err := atoms.NewDict("generated", atoms.GeneratedXML())
	if err != nil {
		ev.Infra("generated dictionary: %v", err)
	}
	add("generated", gd, 0)
	return Configs()
}

func ConfigByName(n string) *Config {
	Configs()
	return configCache[n]
}

// ---- AVP atoms per configuration ------------------------------------------------

func mflag(must string) uint8 {
	if strings.Contains(must, "M") {
		return 0x40
	}
	return 0
}

// Atoms returns three nested alphabets of leaf AVPs for a configuration:
// full (every value atom of every kind, plain and vendor-specific, undefined codes),
// mid (two or three values per kind chosen for payload length mod 4 variety) and core.
func (c *Config) Atoms(thorough bool) (full, mid, core []atoms.N) {
	a := c.A
	for k := atoms.Kind(0); k < atoms.NKinds; k++ {
		if k == atoms.KGroup || k == atoms.KUnknown {
			continue
		}
		vals := atoms.Values(k, thorough)
		for _, which := range []map[atoms.Kind]atoms.Def{a.Plain, a.Vend} {
			d, ok := which[k]
			if !ok {
				continue
			}
			for i, v := range vals {
				fl := mflag(d.Must)
				n := atoms.N{Code: d.Code, Flags: fl, Vendor: d.Vendor, V: v}
				full = append(full, n)
				if i < 3 || (isStringKind(k) && i < 6) {
					n2 := n
					if i == 1 {
						n2.Flags |= 0x20
					}
					mid = append(mid, n2)
				}
				if (i == 1 && d.Vendor == 0) || (i == 2 && d.Vendor != 0 && k <= atoms.KU32) {
					core = append(core, n)
				}
			}
		}
	}
	// codes shared by definitions of different vendors and types: each identity with its own type
	for _, d := range a.Collide {
		vals := atoms.Values(d.K, thorough)
		for i, v := range vals {
			if i >= 3 {
				break
			}
			n := atoms.N{Code: d.Code, Flags: mflag(d.Must), Vendor: d.Vendor, V: v}
			full = append(full, n)
			mid = append(mid, n)
			if i == 1 {
				core = append(core, n)
			}
		}
	}
	// a code the dictionary defines, carried with a vendor id it does not define: opaque data
	if d, ok := a.Plain[atoms.KU32]; ok {
		for _, l := range []int{0, 4, 5} {
			n := atoms.N{Code: d.Code, Flags: 0x80, Vendor: 424242, V: atoms.Val{K: atoms.KUnknown, S: []byte{9, 8, 7, 6, 5}[:l]}}
			full = append(full, n)
			mid = append(mid, n)
		}
	}
	// reserved AVP flag bits set (carried through unchanged)
	if d, ok := a.Plain[atoms.KUTF8]; ok {
		full = append(full, atoms.N{Code: d.Code, Flags: 0x5f, V: atoms.Val{K: atoms.KUTF8, S: []byte("ab")}})
		mid = append(mid, atoms.N{Code: d.Code, Flags: 0x41, V: atoms.Val{K: atoms.KUTF8, S: []byte("abcde")}})
	}
	full = append(full, atoms.N{Code: a.Undef[0], Flags: 0x1f, V: atoms.Val{K: atoms.KUnknown, S: []byte{1}}},
		atoms.N{Code: a.Undef[0], Flags: 0xff, Vendor: 4242, V: atoms.Val{K: atoms.KUnknown, S: []byte{1, 2}}})
	// vendor id given without the V flag: the constructor adds the flag
	if d, ok := a.Vend[atoms.KUTF8]; ok {
		full = append(full, atoms.N{Code: d.Code, Flags: 0x40, Vendor: d.Vendor, V: atoms.Val{K: atoms.KUTF8, S: []byte("abc")}})
	}
	full = append(full, atoms.N{Code: a.Undef[1], Flags: 0x40, Vendor: 4242, V: atoms.Val{K: atoms.KUnknown, S: []byte{1, 2, 3}}})
	// undefined codes, with and without V flag / vendor id
	for i, v := range atoms.Values(atoms.KUnknown, thorough) {
		n := atoms.N{Code: a.Undef[0], Flags: 0, V: v}
		nv := atoms.N{Code: a.Undef[1], Flags: 0xC0, Vendor: 4242, V: v}
		full = append(full, n, nv)
		if i < 5 {
			mid = append(mid, n, nv)
		}
		if i == 1 || i == 4 {
			core = append(core, n)
		}
		if i == 3 {
			core = append(core, nv)
		}
	}
	return
}

func isStringKind(k atoms.Kind) bool { return k <= atoms.KQoS }

// groupNode wraps kids into grouped AVP number gi of the alphabet.
func (c *Config) groupNode(gi int, kids []atoms.N) atoms.N {
	g := c.A.Groups[gi%len(c.A.Groups)]
	return atoms.N{Code: g.Code, Flags: mflag(g.Must), Vendor: g.Vendor, V: atoms.Val{K: atoms.KGroup}, Kids: kids}
}

// HeaderVariants returns n headers for a configuration: the first command of the
// application (or any), with boundary ids and a spread of flag bytes.
func (c *Config) cmdFor() atoms.CmdDef {
	for _, cd := range c.A.Cmds {
		if cd.App == c.A.App && cd.NReq > 0 && cd.NAns > 0 {
			return cd
		}
	}
	for _, cd := range c.A.Cmds {
		if cd.App == 0 && cd.NReq > 0 && cd.NAns > 0 {
			return cd
		}
	}
	return c.A.Cmds[0]
}

var hdrFlags = []uint8{0x80, 0x00, 0x40, 0xC0, 0xA0, 0x10, 0xFF, 0x0F}
var hdrIDs = []uint32{0, 1, 0x80000000, 0xffffffff}

func (c *Config) Headers(n int) []refcodec.Header {
	cd := c.cmdFor()
	var out []refcodec.Header
	for i := 0; i < n; i++ {
		out = append(out, refcodec.Header{Version: 1, Flags: hdrFlags[i%len(hdrFlags)], Code: cd.Code, App: c.A.App,
			HbH: hdrIDs[i%4], E2E: hdrIDs[(i/2+1)%4]})
	}
	return out
}

// ---- building, reading, comparing ----------------------------------------------

// BuildMsg assembles a message through the public API.
func BuildMsg(c *Config, h refcodec.Header, tree []atoms.N) *diam.Message {
	m := diam.NewMessage(h.Code, h.Flags, h.App, h.HbH, h.E2E, c.A.D.P)
	// NewMessage documents that zero ids are replaced by random ones; the header fields
	// are public, so the boundary value zero is set explicitly.
	m.Header.HopByHopID = h.HbH
	m.Header.EndToEndID = h.E2E
	for _, n := range tree {
		m.AddAVP(n.Lib())
	}
	return m
}

// BuildMsgTopDown: grouped AVPs are created first and filled afterwards (see atoms.N.LibTopDown).
func BuildMsgTopDown(c *Config, h refcodec.Header, tree []atoms.N) *diam.Message {
	m := diam.NewMessage(h.Code, h.Flags, h.App, h.HbH, h.E2E, c.A.D.P)
	m.Header.HopByHopID = h.HbH
	m.Header.EndToEndID = h.E2E
	for _, n := range tree {
		m.AddAVP(n.LibTopDown())
	}
	return m
}

func hasGroup(tree []atoms.N) bool {
	for _, n := range tree {
		if n.V.K == atoms.KGroup {
			return true
		}
	}
	return false
}

func wantFlags(n atoms.N) uint8 {
	if n.Vendor != 0 {
		return n.Flags | 0x80
	}
	return n.Flags
}

// CompareTree compares decoded AVPs with the abstract tree. kindOf gives the kind the
// dictionary assigns to (code, vendor) so that wire-only shapes can be compared as well.
func CompareTree(got []*diam.AVP, want []atoms.N, path string) string {
	if len(got) != len(want) {
		return fmt.Sprintf("%s: %d AVPs decoded, %d expected", path, len(got), len(want))
	}
	for i, w := range want {
		g := got[i]
		p := fmt.Sprintf("%s[%d]", path, i)
		if g.Code != w.Code {
			return fmt.Sprintf("%s: code %d, expected %d", p, g.Code, w.Code)
		}
		if g.Flags != wantFlags(w) {
			return fmt.Sprintf("%s (code %d): flags %#x, expected %#x", p, g.Code, g.Flags, wantFlags(w))
		}
		wv := w.Vendor
		if wantFlags(w)&0x80 == 0 {
			wv = 0
		}
		if g.VendorID != wv {
			return fmt.Sprintf("%s (code %d): vendor %d, expected %d", p, g.Code, g.VendorID, wv)
		}
		if w.V.K == atoms.KGroup {
			gg, ok := g.Data.(*diam.GroupedAVP)
			if !ok {
				return fmt.Sprintf("%s (code %d): decoded as %T, expected a grouped AVP", p, g.Code, g.Data)
			}
			if s := CompareTree(gg.AVP, w.Kids, p); s != "" {
				return s
			}
			continue
		}
		if g.Data == nil {
			return fmt.Sprintf("%s (code %d): nil data", p, g.Code)
		}
		kn, payload, ok := atoms.Canon(g.Data)
		if !ok {
			return fmt.Sprintf("%s (code %d): unexpected value type %s", p, g.Code, kn)
		}
		if kn != w.V.K.String() {
			return fmt.Sprintf("%s (code %d): decoded as %s, expected %s", p, g.Code, kn, w.V.K)
		}
		if !bytes.Equal(payload, w.V.Ref()) {
			return fmt.Sprintf("%s (code %d, %s): value %x, expected %x", p, g.Code, kn, payload, w.V.Ref())
		}
		if t, ok := g.Data.(datatype.Time); ok {
			// the 32-bit wire value is ambiguous modulo 2^32 seconds: compare the instant itself
			if got, want := time.Time(t).Unix(), int64(w.V.U); got != want {
				return fmt.Sprintf("%s (code %d, Time): decoded as %s, expected %s", p, g.Code, time.Unix(got, 0).UTC().Format(time.RFC3339), time.Unix(want, 0).UTC().Format(time.RFC3339))
			}
		}
	}
	return ""
}

func CompareHeader(g *diam.Header, h refcodec.Header, length int) string {
	switch {
	case g.Version != 1:
		return fmt.Sprintf("version %d", g.Version)
	case int(g.MessageLength) != length:
		return fmt.Sprintf("message length %d, expected %d", g.MessageLength, length)
	case g.CommandFlags != h.Flags:
		return fmt.Sprintf("flags %#x, expected %#x", g.CommandFlags, h.Flags)
	case g.CommandCode != h.Code:
		return fmt.Sprintf("command %d, expected %d", g.CommandCode, h.Code)
	case g.ApplicationID != h.App:
		return fmt.Sprintf("application %d, expected %d", g.ApplicationID, h.App)
	case g.HopByHopID != h.HbH:
		return fmt.Sprintf("hop-by-hop %#x, expected %#x", g.HopByHopID, h.HbH)
	case g.EndToEndID != h.E2E:
		return fmt.Sprintf("end-to-end %#x, expected %#x", g.EndToEndID, h.E2E)
	}
	return ""
}

// TreeCase is the replayable form of one tree-based case.
type TreeCase struct {
	Config string
	Hdr    refcodec.Header
	Tree   []atoms.N
	Note   string
}

func (t TreeCase) Desc() string {
	var s []string
	for _, n := range t.Tree {
		s = append(s, n.Desc())
	}
	return fmt.Sprintf("%s hdr{f=%#x c=%d a=%d h=%#x e=%#x} [%s]", t.Config, t.Hdr.Flags, t.Hdr.Code, t.Hdr.App, t.Hdr.HbH, t.Hdr.E2E, strings.Join(s, ", "))
}

func (t TreeCase) Key() uint64 {
	h := ev.HS(t.Config)
	h = ev.Mix(h, uint64(t.Hdr.Flags), uint64(t.Hdr.Code), uint64(t.Hdr.App), uint64(t.Hdr.HbH), uint64(t.Hdr.E2E))
	for _, n := range t.Tree {
		h = ev.Mix(h, ev.H(refcodec.EncodeAVP(n.Ref())))
	}
	return h
}

// safely runs f and converts a panic into a message.
func safely(f func() string) (res string) {
	defer func() {
		if r := recover(); r != nil {
			res = fmt.Sprintf("PANIC: %v", r)
		}
	}()
	return f()
}

// EnumTrees enumerates the tree cases shared by C01 and C02 and calls fn for the cases
// this shard owns. It returns a description of the enumeration rule.
func EnumTrees(ctx *ev.Ctx, fn func(*Config, TreeCase)) string {
	thorough := ctx.Tier == "thorough"
	emit := func(c *Config, h refcodec.Header, tree []atoms.N) {
		if ctx.Mine() {
			fn(c, TreeCase{Config: c.Name, Hdr: h, Tree: tree})
		}
	}
	for _, c := range Configs() {
		full, mid, core := c.Atoms(thorough)
		if thorough {
			core = append(core, mid[:len(mid)/3]...)
		}
		nh := 4
		if thorough {
			nh = 8
		}
		hs := c.Headers(8)
		// 0. the empty message and every single atom, under several headers
		for _, h := range hs[:nh] {
			emit(c, h, nil)
			for _, a := range full {
				emit(c, h, []atoms.N{a})
			}
		}
		// 0b. text values that differ in the case of their letters only, next to each other in one
		// message (and, as single-AVP messages, one after the other): every octet is data
		for k := atoms.Kind(0); k <= atoms.KQoS; k++ {
			d, ok := c.A.Plain[k]
			if !ok {
				continue
			}
			mk := func(s string) atoms.N {
				return atoms.N{Code: d.Code, Flags: mflag(d.Must), Vendor: d.Vendor, V: atoms.Val{K: k, S: []byte(s)}}
			}
			for _, pair := range [][2]string{{"HSS01.Example.ORG", "hss01.example.org"}, {"Ab.Example", "aB.example"}, {"REALM", "realm"}, {"x", "X"}} {
				up, lo := mk(pair[0]), mk(pair[1])
				emit(c, hs[0], []atoms.N{up})
				emit(c, hs[0], []atoms.N{lo})
				emit(c, hs[0], []atoms.N{up})
				emit(c, hs[0], []atoms.N{up, lo})
				emit(c, hs[1], []atoms.N{lo, up})
				emit(c, hs[0], []atoms.N{up, lo, up, lo})
			}
		}
		// 1. all ordered pairs of the mid alphabet
		for i, a := range mid {
			for j, b := range mid {
				emit(c, hs[(i+j)%2], []atoms.N{a, b})
			}
		}
		// 2. all ordered triples of the core alphabet
		for _, a := range core {
			for _, b := range core {
				for _, d := range core {
					emit(c, hs[0], []atoms.N{a, b, d})
				}
			}
		}
		if len(c.A.Groups) == 0 {
			continue
		}
		// 3. groups: every sequence of <=2 core atoms at depth 1, 2, 3 (and 4), empty groups,
		//    groups followed by / preceded by an atom, sibling groups
		var seqs [][]atoms.N
		seqs = append(seqs, nil)
		for _, a := range core {
			seqs = append(seqs, []atoms.N{a})
		}
		for _, a := range core {
			for _, b := range core {
				seqs = append(seqs, []atoms.N{a, b})
			}
		}
		maxDepth := 3
		if thorough {
			maxDepth = 4
		}
		for gi := 0; gi < len(c.A.Groups); gi++ {
			for _, s := range seqs {
				for depth := 1; depth <= maxDepth; depth++ {
					n := c.groupNode(gi, s)
					for d := 1; d < depth; d++ {
						n = c.groupNode(gi+d, []atoms.N{n})
					}
					emit(c, hs[depth%2], []atoms.N{n})
					if depth <= 2 && len(s) <= 1 {
						emit(c, hs[0], []atoms.N{n, core[0]})
						emit(c, hs[1], []atoms.N{core[1%len(core)], n})
						// nested group with siblings inside the outer group
						emit(c, hs[0], []atoms.N{c.groupNode(gi+1, []atoms.N{core[0], n, core[0]})})
						emit(c, hs[1], []atoms.N{n, c.groupNode(gi+1, s)})
					}
				}
			}
		}
	}
	// 4. header sweep: all 256 flag bytes x every command of every dictionary x the id grid
	for _, c := range Configs() {
		trees := [][]atoms.N{nil, {atoms.N{Code: c.A.Undef[0], V: atoms.Val{K: atoms.KUnknown, S: []byte{1, 2, 3, 4, 5}}}}}
		seenCmd := map[[2]uint32]bool{}
		for _, cd := range c.A.Cmds {
			k := [2]uint32{cd.App, cd.Code}
			if seenCmd[k] {
				continue
			}
			seenCmd[k] = true
			if strings.HasPrefix(c.Name, "default/") && c.Name != "default/app4" {
				continue // same parser as default/app4
			}
			if !thorough && c.Name != "default/app4" && c.Name != "generated/app0" {
				// quick tier: the complete command set under the default and generated dictionaries only
				continue
			}
			for f := 0; f < 256; f++ {
				for i, hb := range hdrIDs {
					for j, ee := range hdrIDs {
						if !thorough && (i+j+f)%4 != 0 {
							continue // quick: a quarter of the id grid per flag byte (every pair still occurs)
						}
						h := refcodec.Header{Version: 1, Flags: uint8(f), Code: cd.Code, App: cd.App, HbH: hb, E2E: ee}
						emit(c, h, trees[(f+i+j)%2])
					}
				}
			}
		}
	}
	// 4b. every command of the base application under the id of every application the
	// dictionary declares (a session of a vendor application is torn down with the base
	// STR / ASR, accounted with ACR ...), of an application nobody declared, and of the relay
	for _, c := range Configs() {
		if strings.HasPrefix(c.Name, "default/") && c.Name != "default/app4" {
			continue // same parser as default/app4
		}
		own := map[[2]uint32]bool{}
		apps := []uint32{999, 0xffffffff}
		seenApp := map[uint32]bool{0: true, 999: true, 0xffffffff: true}
		var base []uint32
		for _, cd := range c.A.Cmds {
			own[[2]uint32{cd.App, cd.Code}] = true
			if !seenApp[cd.App] {
				seenApp[cd.App] = true
				apps = append(apps, cd.App)
			}
			if cd.App == 0 {
				base = append(base, cd.Code)
			}
		}
		for _, app := range apps {
			for _, code := range base {
				if own[[2]uint32{app, code}] {
					continue
				}
				for _, f := range []uint8{0x80, 0x00, 0x40} {
					emit(c, refcodec.Header{Version: 1, Flags: f, Code: code, App: app, HbH: 7, E2E: 9}, nil)
				}
			}
		}
	}
	return "every base command under the id of every application a dictionary declares commands for, of an undeclared application and of the relay application; text values of every string-like data type that differ in letter case only, side by side in one message; every single AVP atom (all value atoms of every data type, plain / vendor-specific / undefined code) x header variants; all ordered pairs of the mid alphabet; all ordered triples of the core alphabet; grouped AVPs holding every sequence of <=2 core atoms at nesting depth 1..3 (4 thorough), empty groups, group siblings; all 256 header flag bytes x every dictionary command x ids from {0,1,2^31,2^32-1}^2; under dict.Default (apps 4,0,16777251,16777238,3), base alone, base + each embedded dictionary alone, and a generated dictionary declaring every type name. A case is distinct by (configuration, header, reference encoding of the tree)."
}

var _ = datatype.UnknownType

// generalise strips concrete values from a failure message so that failures of the same
// shape share one report (the concrete case is kept in the detail and the replay file).
func generalise(s string) string {
	out := make([]byte, 0, len(s))
	inNum := false
	for i := 0; i < len(s); i++ {
		ch := s[i]
		isHex := (ch >= '0' && ch <= '9') || (inNum && ((ch >= 'a' && ch <= 'f') || ch == 'x'))
		if isHex {
			if !inNum {
				out = append(out, '#')
				inNum = true
			}
			continue
		}
		inNum = false
		out = append(out, ch)
	}
	if len(out) > 160 {
		out = out[:160]
	}
	return string(out)
}


var dirtyMsg *diam.Message

// WireViaWriteTo returns the bytes Message.WriteTo emits, after first pushing a message full
// of 0xFF bytes through the same (pooled) serialisation path so that a reused buffer is dirty.
func WireViaWriteTo(m *diam.Message) ([]byte, error) {
	if dirtyMsg == nil {
		dirtyMsg = diam.NewMessage(257, 0x80, 0, 0xffffffff, 0xffffffff, dict.Default)
		dirtyMsg.NewAVP(60001, 0xff, 0xffffffff, datatype.OctetString(bytes.Repeat([]byte{0xff}, 980)))
	}
	var sink bytes.Buffer
	if _, err := dirtyMsg.WriteTo(&sink); err != nil {
		return nil, err
	}
	// The destination takes its time: before it consumes the bytes it was handed, another message
	// goes through WriteTo on another writer (what a second goroutine may do while this Write is
	// pending) - the bytes handed to Write must not change under it.
	out := &busyWriter{}
	_, err := m.WriteTo(out)
	if out.err != nil {
		return nil, out.err
	}
	return out.buf.Bytes(), err
}

type busyWriter struct {
	buf bytes.Buffer
	err error
}

func (w *busyWriter) Write(p []byte) (int, error) {
	if _, err := dirtyMsg.WriteTo(io.Discard); err != nil {
		w.err = err
	}
	return w.buf.Write(p)
}

// ReadOverlapped reads the wire image w the way a connection's reader does when another
// connection is busy at the same time: a message too large for the pooled read buffer has been
// read earlier, and while this read has received only half of its body, another message is read
// completely from another source (the nested read stands for a second goroutine; the reader
// hands out the rest only afterwards).
func ReadOverlapped(w []byte, p *dict.Parser) (*diam.Message, error) {
	if overlapBig == nil {
		overlapBig = refcodec.EncodeMessage(refcodec.Header{Version: 1, Flags: 0x80, Code: 257, HbH: 7, E2E: 7}, []refcodec.Node{{Code: 60001, Payload: bytes.Repeat([]byte{0xBB}, 1500)}})
		overlapOther = refcodec.EncodeMessage(refcodec.Header{Version: 1, Flags: 0x80, Code: 257, HbH: 8, E2E: 8}, []refcodec.Node{{Code: 60001, Payload: bytes.Repeat([]byte{0xEE}, 980)}})
	}
	if _, err := diam.ReadMessage(bytes.NewReader(overlapBig), dict.Default); err != nil {
		return nil, fmt.Errorf("harness: oversize message: %v", err)
	}
	r := &overlapReader{data: w}
	m, err := diam.ReadMessage(r, p)
	if r.err != nil {
		return nil, fmt.Errorf("harness: nested read: %v", r.err)
	}
	return m, err
}

var overlapBig, overlapOther []byte

type overlapReader struct {
	data   []byte
	pos    int
	nested bool
	err    error
}

func (r *overlapReader) Read(p []byte) (int, error) {
	if r.pos >= len(r.data) {
		return 0, io.EOF
	}
	end := len(r.data)
	switch {
	case r.pos < 20:
		end = 20
	case !r.nested && len(r.data)-r.pos >= 2 && r.pos == 20:
		end = r.pos + (len(r.data)-r.pos)/2
	case !r.nested:
		r.nested = true
		if _, err := diam.ReadMessage(bytes.NewReader(overlapOther), dict.Default); err != nil {
			r.err = err
		}
	}
	if end > len(r.data) {
		end = len(r.data)
	}
	n := copy(p, r.data[r.pos:end])
	r.pos += n
	return n, nil
}
