// Package checks holds the Engine A checks (one file per property).
package checks

import (
	"encoding/json"

	"verif/internal/ev"
)

// Check is one registered property check.
type Check struct {
	Run     func(*ev.Ctx)
	Replay  func(*ev.Ctx, json.RawMessage) string // "" = passes
	Sharded bool                                  // run as 16 shard children, merged by the parent
	Parent  func(*ev.Ctx)                         // extra work done once in the parent of a sharded check
}

var Registry = map[string]*Check{}
