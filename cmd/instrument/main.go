// cmd/instrument: syntactic source rewriter: sync/chan/select/go/time/io.Pipe/rand -> vsched shims.
package main

import (
	"bytes"
	"encoding/json"
	"fmt"
	"go/ast"
	"go/format"
	"go/parser"
	"go/token"
	"os"
	"path/filepath"
	"strconv"
	"strings"
)

const shim = "verif/vsched"

var counter int

func fresh(p string) *ast.Ident { counter++; return ast.NewIdent(fmt.Sprintf("_vs_%s%d", p, counter)) }

func sel(pkg, name string) ast.Expr { return &ast.SelectorExpr{X: ast.NewIdent(pkg), Sel: ast.NewIdent(name)} }

func call(fun ast.Expr, args ...ast.Expr) *ast.CallExpr { return &ast.CallExpr{Fun: fun, Args: args} }

type rw struct {
	fset     *token.FileSet
	needShim bool
}

// rewriteExpr rewrites an expression tree bottom-up.
func (r *rw) expr(e ast.Expr) ast.Expr {
	if e == nil {
		return nil
	}
	switch x := e.(type) {
	case *ast.ChanType:
		r.needShim = true
		return &ast.StarExpr{X: &ast.IndexExpr{X: sel("vsched", "Chan"), Index: r.expr(x.Value)}}
	case *ast.UnaryExpr:
		if x.Op == token.ARROW {
			x.X = r.recvChanExpr(x.X)
		} else {
			x.X = r.expr(x.X)
		}
		if x.Op == token.ARROW {
			r.needShim = true
			return call(&ast.SelectorExpr{X: paren(x.X), Sel: ast.NewIdent("Recv")})
		}
		return x
	case *ast.CallExpr:
		// make(chan T, n)
		if id, ok := x.Fun.(*ast.Ident); ok && id.Name == "make" && len(x.Args) >= 1 {
			if ct, ok := x.Args[0].(*ast.ChanType); ok {
				r.needShim = true
				var n ast.Expr = &ast.BasicLit{Kind: token.INT, Value: "0"}
				if len(x.Args) > 1 {
					n = r.expr(x.Args[1])
				}
				return call(&ast.IndexExpr{X: sel("vsched", "NewChan"), Index: r.expr(ct.Value)}, n)
			}
		}
		if id, ok := x.Fun.(*ast.Ident); ok && id.Name == "close" && len(x.Args) == 1 {
			r.needShim = true
			return call(sel("vsched", "Close"), r.expr(x.Args[0]))
		}
		// dialer.Dial(network, addr) -> vsched.Dial(dialer, network, addr): the harness supplies the connection
		if se, ok := x.Fun.(*ast.SelectorExpr); ok && se.Sel.Name == "Dial" && len(x.Args) == 2 {
			if id, ok := se.X.(*ast.Ident); ok && id.Name == "dialer" {
				r.needShim = true
				return call(sel("vsched", "Dial"), id, r.expr(x.Args[0]), r.expr(x.Args[1]))
			}
		}
		x.Fun = r.expr(x.Fun)
		for i := range x.Args {
			x.Args[i] = r.expr(x.Args[i])
		}
		return x
	case *ast.SelectorExpr:
		if id, ok := x.X.(*ast.Ident); ok && id.Obj == nil {
			switch id.Name + "." + x.Sel.Name {
			case "time.After", "time.Sleep", "time.Now", "time.NewTimer", "time.AfterFunc", "time.Tick", "time.Since", "time.NewTicker":
				r.needShim = true
				return sel("vsched", "Time"+x.Sel.Name)
			case "time.Timer", "time.Ticker":
				r.needShim = true
				return sel("vsched", x.Sel.Name)
			case "context.WithCancel", "context.WithTimeout", "context.WithDeadline":
				// cancellation and deadlines become visible to the scheduler (virtual clock)
				r.needShim = true
				return sel("vsched", "Ctx"+x.Sel.Name)
			case "io.Pipe":
				r.needShim = true
				return sel("vsched", "Pipe")
			case "io.PipeReader":
				r.needShim = true
				return sel("vsched", "PipeReader")
			case "io.PipeWriter":
				r.needShim = true
				return sel("vsched", "PipeWriter")
			}
		}
		x.X = r.expr(x.X)
		return x
	case *ast.ParenExpr:
		x.X = r.expr(x.X)
		return x
	case *ast.StarExpr:
		x.X = r.expr(x.X)
		return x
	case *ast.BinaryExpr:
		x.X, x.Y = r.expr(x.X), r.expr(x.Y)
		return x
	case *ast.KeyValueExpr:
		x.Key, x.Value = r.expr(x.Key), r.expr(x.Value)
		return x
	case *ast.CompositeLit:
		x.Type = r.expr(x.Type)
		for i := range x.Elts {
			x.Elts[i] = r.expr(x.Elts[i])
		}
		return x
	case *ast.FuncLit:
		r.funcType(x.Type)
		r.block(x.Body)
		return x
	case *ast.IndexExpr:
		x.X, x.Index = r.expr(x.X), r.expr(x.Index)
		return x
	case *ast.IndexListExpr:
		x.X = r.expr(x.X)
		for i := range x.Indices {
			x.Indices[i] = r.expr(x.Indices[i])
		}
		return x
	case *ast.SliceExpr:
		x.X, x.Low, x.High, x.Max = r.expr(x.X), r.expr(x.Low), r.expr(x.High), r.expr(x.Max)
		return x
	case *ast.TypeAssertExpr:
		x.X, x.Type = r.expr(x.X), r.expr(x.Type)
		return x
	case *ast.ArrayType:
		x.Len, x.Elt = r.expr(x.Len), r.expr(x.Elt)
		return x
	case *ast.MapType:
		x.Key, x.Value = r.expr(x.Key), r.expr(x.Value)
		return x
	case *ast.StructType:
		r.fields(x.Fields)
		return x
	case *ast.InterfaceType:
		r.fields(x.Methods)
		return x
	case *ast.FuncType:
		r.funcType(x)
		return x
	case *ast.Ellipsis:
		x.Elt = r.expr(x.Elt)
		return x
	}
	return e
}

func paren(e ast.Expr) ast.Expr {
	switch e.(type) {
	case *ast.Ident, *ast.SelectorExpr, *ast.CallExpr, *ast.IndexExpr, *ast.ParenExpr:
		return e
	}
	return &ast.ParenExpr{X: e}
}

func (r *rw) fields(fl *ast.FieldList) {
	if fl == nil {
		return
	}
	for _, f := range fl.List {
		f.Type = r.expr(f.Type)
	}
}

func (r *rw) funcType(ft *ast.FuncType) {
	if ft == nil {
		return
	}
	r.fields(ft.TypeParams)
	r.fields(ft.Params)
	r.fields(ft.Results)
}

func (r *rw) block(b *ast.BlockStmt) {
	if b == nil {
		return
	}
	for i := range b.List {
		b.List[i] = r.stmt(b.List[i])
	}
}

func (r *rw) stmts(l []ast.Stmt) {
	for i := range l {
		l[i] = r.stmt(l[i])
	}
}

func (r *rw) stmt(s ast.Stmt) ast.Stmt {
	switch x := s.(type) {
	case nil:
		return nil
	case *ast.SendStmt:
		r.needShim = true
		return &ast.ExprStmt{X: call(&ast.SelectorExpr{X: paren(r.expr(x.Chan)), Sel: ast.NewIdent("Send")}, r.expr(x.Value))}
	case *ast.GoStmt:
		return r.goStmt(x)
	case *ast.SelectStmt:
		return r.selectStmt(x)
	case *ast.AssignStmt:
		if len(x.Lhs) == 2 && len(x.Rhs) == 1 {
			if u, ok := x.Rhs[0].(*ast.UnaryExpr); ok && u.Op == token.ARROW {
				r.needShim = true
				x.Lhs[0], x.Lhs[1] = r.expr(x.Lhs[0]), r.expr(x.Lhs[1])
				x.Rhs[0] = call(&ast.SelectorExpr{X: paren(r.expr(u.X)), Sel: ast.NewIdent("Recv2")})
				return x
			}
		}
		for i := range x.Lhs {
			x.Lhs[i] = r.expr(x.Lhs[i])
		}
		for i := range x.Rhs {
			x.Rhs[i] = r.expr(x.Rhs[i])
		}
		return x
	case *ast.ExprStmt:
		x.X = r.expr(x.X)
		return x
	case *ast.DeclStmt:
		r.decl(x.Decl)
		return x
	case *ast.BlockStmt:
		r.block(x)
		return x
	case *ast.IfStmt:
		x.Init = r.stmt(x.Init)
		x.Cond = r.expr(x.Cond)
		r.block(x.Body)
		x.Else = r.stmt(x.Else)
		return x
	case *ast.ForStmt:
		x.Init = r.stmt(x.Init)
		x.Cond = r.expr(x.Cond)
		x.Post = r.stmt(x.Post)
		r.block(x.Body)
		return x
	case *ast.RangeStmt:
		if x.Value == nil && rangesOverChan(x.X) {
			// for v := range ch  ->  for { v, ok := ch.Recv2(); if !ok { break }; ... }
			r.needShim = true
			r.block(x.Body)
			ok := fresh("ok")
			var key ast.Expr = ast.NewIdent("_")
			if x.Key != nil {
				key = r.expr(x.Key)
			}
			tok := x.Tok
			if x.Key == nil || tok == token.ILLEGAL {
				tok = token.DEFINE
			}
			recv := &ast.AssignStmt{Lhs: []ast.Expr{key, ok}, Tok: tok, Rhs: []ast.Expr{call(&ast.SelectorExpr{X: paren(r.expr(x.X)), Sel: ast.NewIdent("Recv2")})}}
			var pre []ast.Stmt
			if tok == token.ASSIGN {
				// the loop variable exists already; only the flag is new
				pre = append(pre, &ast.DeclStmt{Decl: &ast.GenDecl{Tok: token.VAR, Specs: []ast.Spec{&ast.ValueSpec{Names: []*ast.Ident{ok}, Type: ast.NewIdent("bool")}}}})
			}
			stop := &ast.IfStmt{Cond: &ast.UnaryExpr{Op: token.NOT, X: ok}, Body: &ast.BlockStmt{List: []ast.Stmt{&ast.BranchStmt{Tok: token.BREAK}}}}
			body := append(append(pre, recv, stop), x.Body.List...)
			return &ast.ForStmt{Body: &ast.BlockStmt{List: body}}
		}
		x.Key, x.Value, x.X = r.expr(x.Key), r.expr(x.Value), r.expr(x.X)
		r.block(x.Body)
		return x
	case *ast.SwitchStmt:
		x.Init = r.stmt(x.Init)
		x.Tag = r.expr(x.Tag)
		r.block(x.Body)
		return x
	case *ast.TypeSwitchStmt:
		x.Init = r.stmt(x.Init)
		x.Assign = r.stmt(x.Assign)
		r.block(x.Body)
		return x
	case *ast.CaseClause:
		for i := range x.List {
			x.List[i] = r.expr(x.List[i])
		}
		r.stmts(x.Body)
		return x
	case *ast.LabeledStmt:
		x.Stmt = r.stmt(x.Stmt)
		return x
	case *ast.ReturnStmt:
		for i := range x.Results {
			x.Results[i] = r.expr(x.Results[i])
		}
		return x
	case *ast.DeferStmt:
		x.Call = r.expr(x.Call).(*ast.CallExpr)
		return x
	case *ast.IncDecStmt:
		x.X = r.expr(x.X)
		return x
	}
	return s
}

func (r *rw) goStmt(g *ast.GoStmt) ast.Stmt {
	r.needShim = true
	c := g.Call
	if fl, ok := c.Fun.(*ast.FuncLit); ok && len(c.Args) == 0 {
		r.funcType(fl.Type)
		r.block(fl.Body)
		return &ast.ExprStmt{X: call(sel("vsched", "Go"), fl)}
	}
	// bind function value and args eagerly
	var pre []ast.Stmt
	f := fresh("f")
	pre = append(pre, &ast.AssignStmt{Lhs: []ast.Expr{f}, Tok: token.DEFINE, Rhs: []ast.Expr{r.expr(c.Fun)}})
	var args []ast.Expr
	for _, a := range c.Args {
		v := fresh("a")
		pre = append(pre, &ast.AssignStmt{Lhs: []ast.Expr{v}, Tok: token.DEFINE, Rhs: []ast.Expr{r.expr(a)}})
		args = append(args, v)
	}
	inner := &ast.CallExpr{Fun: f, Args: args, Ellipsis: c.Ellipsis}
	lit := &ast.FuncLit{Type: &ast.FuncType{Params: &ast.FieldList{}}, Body: &ast.BlockStmt{List: []ast.Stmt{&ast.ExprStmt{X: inner}}}}
	pre = append(pre, &ast.ExprStmt{X: call(sel("vsched", "Go"), lit)})
	return &ast.BlockStmt{List: pre}
}

func (r *rw) selectStmt(s *ast.SelectStmt) ast.Stmt {
	r.needShim = true
	var pre []ast.Stmt
	var cases []ast.Expr
	var clauses []ast.Stmt
	hasDefault := "false"
	res := fresh("r")
	idx := fresh("i")
	n := 0
	for _, cl := range s.Body.List {
		cc := cl.(*ast.CommClause)
		r.stmts(cc.Body)
		if cc.Comm == nil {
			hasDefault = "true"
			clauses = append(clauses, &ast.CaseClause{List: nil, Body: cc.Body})
			continue
		}
		ch := fresh("c")
		var body []ast.Stmt
		switch cm := cc.Comm.(type) {
		case *ast.SendStmt:
			v := fresh("v")
			pre = append(pre,
				&ast.AssignStmt{Lhs: []ast.Expr{ch}, Tok: token.DEFINE, Rhs: []ast.Expr{r.expr(cm.Chan)}},
				&ast.AssignStmt{Lhs: []ast.Expr{v}, Tok: token.DEFINE, Rhs: []ast.Expr{r.expr(cm.Value)}})
			cases = append(cases, call(sel("vsched", "SendCase"), ch, v))
		case *ast.ExprStmt: // <-ch
			u := cm.X.(*ast.UnaryExpr)
			pre = append(pre, &ast.AssignStmt{Lhs: []ast.Expr{ch}, Tok: token.DEFINE, Rhs: []ast.Expr{r.recvChanExpr(u.X)}})
			cases = append(cases, call(sel("vsched", "RecvCase"), ch))
		case *ast.AssignStmt: // v := <-ch ; v, ok := <-ch ; v = <-ch
			u := cm.Rhs[0].(*ast.UnaryExpr)
			pre = append(pre, &ast.AssignStmt{Lhs: []ast.Expr{ch}, Tok: token.DEFINE, Rhs: []ast.Expr{r.recvChanExpr(u.X)}})
			cases = append(cases, call(sel("vsched", "RecvCase"), ch))
			fn := "SelRecv"
			if len(cm.Lhs) == 2 {
				fn = "SelRecv2"
			}
			lhs := make([]ast.Expr, len(cm.Lhs))
			for i := range cm.Lhs {
				lhs[i] = r.expr(cm.Lhs[i])
			}
			body = append(body, &ast.AssignStmt{Lhs: lhs, Tok: cm.Tok, Rhs: []ast.Expr{call(sel("vsched", fn), ch, res)}})
			// silence "declared and not used"
			if cm.Tok == token.DEFINE {
				for _, l := range lhs {
					if id, ok := l.(*ast.Ident); ok && id.Name != "_" {
						body = append(body, &ast.AssignStmt{Lhs: []ast.Expr{ast.NewIdent("_")}, Tok: token.ASSIGN, Rhs: []ast.Expr{ast.NewIdent(id.Name)}})
					}
				}
			}
		}
		body = append(body, cc.Body...)
		clauses = append(clauses, &ast.CaseClause{List: []ast.Expr{&ast.BasicLit{Kind: token.INT, Value: strconv.Itoa(n)}}, Body: body})
		n++
	}
	args := append([]ast.Expr{ast.NewIdent(hasDefault)}, cases...)
	pre = append(pre, &ast.AssignStmt{Lhs: []ast.Expr{idx, res}, Tok: token.DEFINE, Rhs: []ast.Expr{call(sel("vsched", "Select"), args...)}})
	pre = append(pre, &ast.AssignStmt{Lhs: []ast.Expr{ast.NewIdent("_")}, Tok: token.ASSIGN, Rhs: []ast.Expr{res}})
	pre = append(pre, &ast.SwitchStmt{Tag: idx, Body: &ast.BlockStmt{List: clauses}})
	return &ast.BlockStmt{List: pre}
}

// recvChanExpr: time.After(d) inside a select case becomes an auto-cancelled timer channel.
func (r *rw) recvChanExpr(e ast.Expr) ast.Expr {
	if c, ok := e.(*ast.CallExpr); ok {
		if s, ok := c.Fun.(*ast.SelectorExpr); ok {
			if id, ok := s.X.(*ast.Ident); ok && id.Name == "time" && s.Sel.Name == "After" && len(c.Args) == 1 {
				return call(sel("vsched", "TimeAfterEphemeral"), r.expr(c.Args[0]))
			}
			// <-ctx.Done(): a receive from a context's Done channel (nothing else that is received
			// from has a parameterless Done method) goes through the scheduler's view of the context
			if s.Sel.Name == "Done" && len(c.Args) == 0 {
				r.needShim = true
				return call(sel("vsched", "CtxDone"), r.expr(s.X))
			}
		}
	}
	return r.expr(e)
}

func (r *rw) decl(d ast.Decl) {
	switch x := d.(type) {
	case *ast.GenDecl:
		for _, sp := range x.Specs {
			switch s := sp.(type) {
			case *ast.ValueSpec:
				s.Type = r.expr(s.Type)
				if len(s.Names) == 2 && len(s.Values) == 1 {
					if u, ok := s.Values[0].(*ast.UnaryExpr); ok && u.Op == token.ARROW {
						s.Values[0] = call(&ast.SelectorExpr{X: paren(r.expr(u.X)), Sel: ast.NewIdent("Recv2")})
						continue
					}
				}
				for i := range s.Values {
					s.Values[i] = r.expr(s.Values[i])
				}
			case *ast.TypeSpec:
				r.fields(s.TypeParams)
				s.Type = r.expr(s.Type)
			}
		}
	case *ast.FuncDecl:
		r.fields(x.Recv)
		r.funcType(x.Type)
		r.block(x.Body)
	}
}

// chanNames: names (struct fields, variables, parameters, functions returning a channel) that the
// package declares with a channel type. There is no type checker in this rewriter; the set decides
// whether "for v := range X" ranges over a channel (X's last name is in the set).
var chanNames = map[string]bool{}

func collectChanNames(f *ast.File) {
	isChan := func(e ast.Expr) bool { _, ok := e.(*ast.ChanType); return ok }
	ast.Inspect(f, func(n ast.Node) bool {
		switch x := n.(type) {
		case *ast.Field:
			if isChan(x.Type) {
				for _, id := range x.Names {
					chanNames[id.Name] = true
				}
			}
		case *ast.ValueSpec:
			if x.Type != nil && isChan(x.Type) {
				for _, id := range x.Names {
					chanNames[id.Name] = true
				}
			}
			for i, v := range x.Values {
				if c, ok := v.(*ast.CallExpr); ok && len(c.Args) > 0 && i < len(x.Names) {
					if id, ok := c.Fun.(*ast.Ident); ok && id.Name == "make" && isChan(c.Args[0]) {
						chanNames[x.Names[i].Name] = true
					}
				}
			}
		case *ast.AssignStmt:
			for i, v := range x.Rhs {
				if c, ok := v.(*ast.CallExpr); ok && len(c.Args) > 0 && i < len(x.Lhs) {
					if id, ok := c.Fun.(*ast.Ident); ok && id.Name == "make" && isChan(c.Args[0]) {
						if l, ok := x.Lhs[i].(*ast.Ident); ok {
							chanNames[l.Name] = true
						}
					}
				}
			}
		case *ast.FuncDecl:
			if x.Type.Results != nil && len(x.Type.Results.List) == 1 && isChan(x.Type.Results.List[0].Type) {
				chanNames[x.Name.Name] = true
			}
		}
		return true
	})
}

// rangesOverChan reports whether the range expression names a channel of this package.
func rangesOverChan(e ast.Expr) bool {
	switch x := e.(type) {
	case *ast.Ident:
		return chanNames[x.Name]
	case *ast.SelectorExpr:
		return chanNames[x.Sel.Name]
	case *ast.CallExpr:
		return len(x.Args) == 0 && rangesOverChan(x.Fun)
	case *ast.ParenExpr:
		return rangesOverChan(x.X)
	}
	return false
}

func (r *rw) file(f *ast.File) {
	// import path replacement
	for _, im := range f.Imports {
		p, _ := strconv.Unquote(im.Path.Value)
		switch p {
		case "sync":
			im.Path.Value = strconv.Quote(shim + "/vsync")
			if im.Name == nil {
				im.Name = ast.NewIdent("sync")
			}
		case "math/rand":
			im.Path.Value = strconv.Quote(shim + "/vrand")
			if im.Name == nil {
				im.Name = ast.NewIdent("rand")
			}
		}
	}
	for _, d := range f.Decls {
		r.decl(d)
	}
}

func main() {
	outDir := os.Args[1]
	overlay := map[string]string{}
	for _, dir := range os.Args[2:] {
		ents, _ := os.ReadDir(dir)
		chanNames = map[string]bool{}
		for _, e := range ents {
			name := e.Name()
			if strings.HasSuffix(name, ".go") && !strings.HasSuffix(name, "_test.go") {
				if f, err := parser.ParseFile(token.NewFileSet(), filepath.Join(dir, name), nil, 0); err == nil {
					collectChanNames(f)
				}
			}
		}
		for _, e := range ents {
			name := e.Name()
			if !strings.HasSuffix(name, ".go") || strings.HasSuffix(name, "_test.go") {
				continue
			}
			src := filepath.Join(dir, name)
			fset := token.NewFileSet()
			f, err := parser.ParseFile(fset, src, nil, parser.ParseComments)
			if err != nil {
				fmt.Fprintln(os.Stderr, err)
				os.Exit(2)
			}
			r := &rw{fset: fset}
			r.file(f)
			var buf bytes.Buffer
			if err := format.Node(&buf, fset, f); err != nil {
				fmt.Fprintln(os.Stderr, src, err)
				os.Exit(2)
			}
			out := buf.Bytes()
			if r.needShim {
				// add shim import after package clause
				s := string(out)
				i := strings.Index(s, "\nimport")
				if i < 0 {
					i = strings.Index(s, "\n") // after package line? crude
				}
				s = s[:i] + "\nimport vsched \"" + shim + "\"\n" + s[i:]
				// a rewritten file may use the shim through method calls only: keep the import used
				s += "\nvar _ = vsched.Aborting\n"
				out = []byte(s)
			}
			// drop unused imports of time/io if they became unused: handled by adding blank uses
			for _, im := range f.Imports {
				switch im.Path.Value {
				case `"time"`:
					out = append(out, []byte("\nvar _ time.Duration\n")...)
				case `"io"`:
					out = append(out, []byte("\nvar _ io.Reader\n")...)
				}
			}
			dst := filepath.Join(outDir, strings.ReplaceAll(strings.TrimPrefix(src, "/"), "/", "__"))
			os.WriteFile(dst, out, 0o644)
			overlay[src] = dst
		}
	}
	js, _ := json.MarshalIndent(map[string]interface{}{"Replace": overlay}, "", " ")
	os.WriteFile(filepath.Join(outDir, "overlay.json"), js, 0o644)
}
