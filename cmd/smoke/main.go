// smoke runs a fixed set of sequential end-to-end histories against the real state machine and
// prints a canonical transcript. It is built twice - plain (net.Pipe, real goroutines) and
// through the scheduler overlay (vnet, one deterministic schedule; tag vsmoke) - and the two
// transcripts must be identical: a differential check of the source rewriter and the shims.
package main

import (
	"fmt"
	"io"
	"log"
	"net"

	"github.com/fiorix/go-diameter/v4/diam"
	"github.com/fiorix/go-diameter/v4/diam/datatype"
	"github.com/fiorix/go-diameter/v4/diam/sm"
	"verif/internal/refcodec"
)

func ident(code uint32, s string) refcodec.Node { return refcodec.Node{Code: code, Flags: 0x40, Payload: []byte(s)} }
func u32(code, v uint32) refcodec.Node {
	return refcodec.Node{Code: code, Flags: 0x40, Payload: refcodec.U32(v)}
}

func msg(kind string, id uint32) []byte {
	base := []refcodec.Node{ident(264, "peer"), ident(296, "test")}
	h := func(flags uint8, code, app uint32) refcodec.Header {
		return refcodec.Header{Version: 1, Flags: flags, Code: code, App: app, HbH: id, E2E: id + 1000}
	}
	cer := func(app uint32) []byte {
		return refcodec.EncodeMessage(h(0x80, 257, 0), append(append([]refcodec.Node{}, base...),
			refcodec.Node{Code: 257, Flags: 0x40, Payload: refcodec.Address(1, []byte{10, 0, 0, 9})}, u32(266, 13), refcodec.Node{Code: 269, Payload: []byte("x")}, u32(258, app)))
	}
	switch kind {
	case "cer":
		return cer(4)
	case "cer-noapp":
		return cer(999)
	case "dwr":
		return refcodec.EncodeMessage(h(0x80, 280, 0), base)
	case "rar":
		return refcodec.EncodeMessage(h(0x80, 258, 0), base)
	case "ccr":
		return refcodec.EncodeMessage(h(0x80, 272, 4), base)
	case "garbage":
		b := make([]byte, 60)
		b[0], b[3] = 1, 60
		b[5], b[6], b[7] = 0xff, 0xff, 0xfe
		return b
	}
	panic(kind)
}

type history struct {
	name string
	msgs []string
}

var histories = []history{
	{"cer", []string{"cer"}},
	{"cer+rar", []string{"cer", "rar"}},
	{"rar-before-handshake", []string{"rar", "cer", "rar"}},
	{"rejected-cer", []string{"cer-noapp"}},
	{"cer+dwr", []string{"cer", "dwr", "dwr"}},
	{"retransmitted-cer", []string{"cer", "cer", "ccr"}},
	{"dwr-only", []string{"dwr"}},
	{"garbage-after-handshake", []string{"cer", "rar", "garbage"}},
}

func newMachine(logf func(string)) *sm.StateMachine {
	mach := sm.New(&sm.Settings{OriginHost: "srv", OriginRealm: "realm", VendorID: 13, ProductName: "prod",
		HostIPAddresses: []datatype.Address{datatype.Address(net.ParseIP("10.0.0.1"))}})
	for _, k := range []string{"RAR", "CCR"} {
		k := k
		mach.HandleFunc(k, func(c diam.Conn, m *diam.Message) {
			logf(fmt.Sprintf("handler %s hbh=%d avps=%d", k, m.Header.HopByHopID, len(m.AVP)))
			a := m.Answer(2001)
			a.WriteTo(c)
		})
	}
	return mach
}

func describe(raw []byte) string {
	h, _ := refcodec.DecodeHeader(raw)
	recs, _, _ := refcodec.Frame(raw[20:], nil)
	s := fmt.Sprintf("answer code=%d flags=%#x hbh=%d e2e=%d:", h.Code, h.Flags, h.HbH, h.E2E)
	for _, r := range recs {
		if r.Code == 258 || r.Code == 259 || r.Code == 260 || r.Code == 265 {
			continue // the advertised application list depends on map iteration order in the library
		}
		s += fmt.Sprintf(" %d=%x", r.Code, r.Payload)
	}
	return s
}

func main() {
	log.SetOutput(io.Discard)
	for _, h := range histories {
		fmt.Println("== history", h.name)
		var raws [][]byte
		for i, k := range h.msgs {
			raws = append(raws, msg(k, uint32(i+1)))
		}
		lines, closed := runHistory(raws)
		for _, l := range lines {
			fmt.Println("  ", l)
		}
		fmt.Println("   transport closed by the library:", closed)
	}
}
