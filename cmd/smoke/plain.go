//go:build !vsmoke

package main

import (
	"io"
	"net"
	"sync"
	"time"

	"github.com/fiorix/go-diameter/v4/diam"
	"github.com/fiorix/go-diameter/v4/diam/dict"
	"verif/internal/refcodec"
)

// runHistory: plain build, net.Pipe, real goroutines; every message is sent on its own and the
// peer waits (bounded) for what the library writes back.
func runHistory(msgs [][]byte) (lines []string, closed bool) {
	var mu sync.Mutex
	logf := func(s string) { mu.Lock(); lines = append(lines, s); mu.Unlock() }
	a, b := net.Pipe()
	if _, err := diam.NewConn(a, "peer", newMachine(logf), dict.Default); err != nil {
		panic(err)
	}
	answers := make(chan []byte, 16)
	gone := make(chan struct{})
	go func() {
		defer close(gone)
		for {
			hdr := make([]byte, 20)
			if _, err := io.ReadFull(b, hdr); err != nil {
				return
			}
			h, _ := refcodec.DecodeHeader(hdr)
			body := make([]byte, int(h.Length)-20)
			if _, err := io.ReadFull(b, body); err != nil {
				return
			}
			answers <- append(hdr, body...)
		}
	}()
	for _, m := range msgs {
		b.SetWriteDeadline(time.Now().Add(300 * time.Millisecond))
		if _, err := b.Write(m); err != nil {
			break
		}
		select {
		case r := <-answers:
			logf(describe(r))
		case <-gone:
		case <-time.After(150 * time.Millisecond):
		}
	}
	for {
		select {
		case r := <-answers:
			logf(describe(r))
			continue
		case <-gone:
			closed = true
		case <-time.After(150 * time.Millisecond):
		}
		break
	}
	b.Close()
	return
}
