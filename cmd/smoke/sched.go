//go:build vsmoke

package main

import (
	"time"

	"github.com/fiorix/go-diameter/v4/diam"
	"github.com/fiorix/go-diameter/v4/diam/dict"
	"verif/internal/refcodec"
	"verif/vnet"
	vs "verif/vsched"
)

// runHistory: instrumented build, in-memory transport, the single default schedule.
func runHistory(msgs [][]byte) (lines []string, closed bool) {
	logf := func(s string) { lines = append(lines, s) }
	var conn *vnet.Conn
	s := vs.Run(nil, false, 5*time.Second, false, func() {
		conn = vnet.NewConn("S")
		conn.Pieces = 1
		if _, err := diam.NewConn(conn, "peer", newMachine(logf), dict.Default); err != nil {
			panic(err)
		}
		off := 0
		for _, m := range msgs {
			conn.Deliver(m)
			// wait until the library has gone quiet, then report what it wrote
			vs.TimeSleep(time.Millisecond)
			for off+20 <= len(conn.Out) {
				h, _ := refcodec.DecodeHeader(conn.Out[off:])
				logf(describe(conn.Out[off : off+int(h.Length)]))
				off += int(h.Length)
			}
		}
		closed = conn.Closed
	})
	s.Teardown()
	return
}
