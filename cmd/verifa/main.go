// verifa is the Engine A driver: bounded-exhaustive enumeration against reference models,
// run on the plain (uninstrumented) build of the repository.
package main

import (
	"encoding/json"
	"fmt"
	"os"
	"os/exec"
	"path/filepath"
	"runtime"
	"strconv"
	"strings"
	"sync"

	"verif/checks"
	"verif/internal/ev"
)

func main() {
	if len(os.Args) >= 4 && os.Args[2] == "--freshdefault" {
		// child of C17: the very first thing this process does with dict.Default is decided there
		v, _ := strconv.Atoi(os.Args[3])
		checks.FreshDefaultChild(v)
		return
	}
	if len(os.Args) < 2 {
		fmt.Fprintln(os.Stderr, "usage: verifa <ID> [--tier quick|thorough] [--replay path]")
		os.Exit(2)
	}
	id := os.Args[1]
	tier := os.Getenv("VERIF_TIER")
	if tier == "" {
		tier = "quick"
	}
	root := os.Getenv("VERIF_ROOT")
	if root == "" {
		root = "/verif"
	}
	var replay, out string
	shard, nshards := 0, 0
	for i := 2; i < len(os.Args); i++ {
		switch os.Args[i] {
		case "--tier":
			i++
			tier = os.Args[i]
		case "--replay":
			i++
			replay = os.Args[i]
		case "--shard":
			i++
			f := strings.Split(os.Args[i], "/")
			shard, _ = strconv.Atoi(f[0])
			nshards, _ = strconv.Atoi(f[1])
		case "--out":
			i++
			out = os.Args[i]
		case "--deepchild":
			i++
			d, _ := strconv.Atoi(os.Args[i])
			checks.DeepChild(d)
			return
		}
	}
	chk, ok := checks.Registry[id]
	if !ok {
		ev.Infra("unknown check %q", id)
	}
	ctx := ev.New(id, tier, root)
	if replay != "" {
		b, err := os.ReadFile(replay)
		if err != nil {
			ev.Infra("%v", err)
		}
		var r struct {
			Case json.RawMessage `json:"case"`
			What string          `json:"what"`
		}
		if err := json.Unmarshal(b, &r); err != nil {
			ev.Infra("%v", err)
		}
		fmt.Printf("replaying %s\n  recorded: %s\n", replay, r.What)
		if chk.Replay == nil {
			ev.Infra("check %s has no replay", id)
		}
		what := chk.Replay(ctx, r.Case)
		if what == "" {
			fmt.Println("  result: the case passes on the current tree")
			os.Exit(0)
		}
		fmt.Printf("  result: STILL FAILS: %s\n", what)
		os.Exit(1)
	}
	if out != "" { // shard child
		ctx.Shard, ctx.NShards, ctx.ChildOut = shard, nshards, out
		chk.Run(ctx)
		ctx.Finish()
	}
	if chk.Sharded {
		n := runtime.NumCPU()
		if n > 16 {
			n = 16
		}
		dir, err := os.MkdirTemp("", "verifa-"+id+"-")
		if err != nil {
			ev.Infra("%v", err)
		}
		defer os.RemoveAll(dir)
		var wg sync.WaitGroup
		errs := make([]error, n)
		for i := 0; i < n; i++ {
			wg.Add(1)
			go func(i int) {
				defer wg.Done()
				o := filepath.Join(dir, fmt.Sprintf("shard%d.json", i))
				cmd := exec.Command(os.Args[0], id, "--tier", tier, "--shard", fmt.Sprintf("%d/%d", i, n), "--out", o)
				cmd.Env = append(os.Environ(), "GOMAXPROCS=2")
				cmd.Stderr = os.Stderr
				cmd.Stdout = os.Stderr
				if err := cmd.Run(); err != nil {
					errs[i] = fmt.Errorf("shard %d: %v", i, err)
					return
				}
				b, err := os.ReadFile(o)
				if err != nil {
					errs[i] = err
					return
				}
				var r ev.ChildResult
				if err := json.Unmarshal(b, &r); err != nil {
					errs[i] = err
					return
				}
				ctx.Merge(&r)
			}(i)
		}
		wg.Wait()
		for _, e := range errs {
			if e != nil {
				os.RemoveAll(dir)
				ev.Infra("%v", e)
			}
		}
		if chk.Parent != nil {
			chk.Parent(ctx)
		}
		os.RemoveAll(dir)
		ctx.Finish()
	}
	chk.Run(ctx)
	ctx.Finish()
}
