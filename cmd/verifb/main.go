// verifb is the Engine B driver: exhaustive schedule / fault / timer exploration of the real
// diam and diam/sm packages, built through the scheduler overlay (see cmd/instrument).
package main

import (
	"encoding/json"
	"fmt"
	"os"
	"strconv"
	"strings"

	"verif/bcheck"
	"verif/internal/ev"
)

func main() {
	if len(os.Args) < 2 {
		fmt.Fprintln(os.Stderr, "usage: verifb <ID> [--tier quick|thorough] [--replay path]")
		os.Exit(2)
	}
	id := os.Args[1]
	tier := os.Getenv("VERIF_TIER")
	if tier == "" {
		tier = "quick"
	}
	root := os.Getenv("VERIF_ROOT")
	if root == "" {
		root = "/verif"
	}
	var replay, out string
	shard, nshards := 0, 1
	for i := 2; i < len(os.Args); i++ {
		switch os.Args[i] {
		case "--tier":
			i++
			tier = os.Args[i]
		case "--replay":
			i++
			replay = os.Args[i]
		case "--shard":
			i++
			f := strings.Split(os.Args[i], "/")
			shard, _ = strconv.Atoi(f[0])
			nshards, _ = strconv.Atoi(f[1])
		case "--out":
			i++
			out = os.Args[i]
		}
	}
	if _, ok := bcheck.Registry[id]; !ok {
		ev.Infra("unknown Engine B check %q", id)
	}
	if out != "" {
		bcheck.RunWorker(id, tier, shard, nshards, out)
		return
	}
	ctx := ev.New(id, tier, root)
	if replay != "" {
		b, err := os.ReadFile(replay)
		if err != nil {
			ev.Infra("%v", err)
		}
		var r struct {
			Case   json.RawMessage `json:"case"`
			Detail string          `json:"detail"`
		}
		if err := json.Unmarshal(b, &r); err != nil {
			ev.Infra("%v", err)
		}
		fmt.Printf("replaying %s\n  recorded: %s\n", replay, r.Detail)
		what := bcheck.RunReplay(ctx, r.Case)
		if what == "" {
			fmt.Println("  result: the schedule passes on the current tree")
			os.Exit(0)
		}
		fmt.Printf("  result: STILL FAILS: %s\n", what)
		os.Exit(1)
	}
	bcheck.RunParent(ctx)
}
