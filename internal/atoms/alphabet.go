package atoms

import (
	"bytes"
	"fmt"
	"sort"
	"strings"

	"github.com/fiorix/go-diameter/v4/diam/datatype"
	"github.com/fiorix/go-diameter/v4/diam/dict"
	"verif/internal/refdict"
)

// Def is a dictionary AVP chosen for an alphabet.
type Def struct {
	Code   uint32
	Vendor uint32
	Name   string
	K      Kind
	Must   string
}

// Dict couples a library parser with the independent reference model of the same XML.
type Dict struct {
	Name  string
	P     *dict.Parser
	M     *refdict.Model
	XMLs  []string
}

// NewDict loads the XML strings, in order, into a fresh library parser and a reference model.
func NewDict(name string, xmls ...string) (*Dict, error) {
	d := &Dict{Name: name, M: refdict.NewModel(), XMLs: xmls}
	p, err := dict.NewParser()
	if err != nil {
		return nil, err
	}
	d.P = p
	for _, x := range xmls {
		if err := p.Load(bytes.NewReader([]byte(x))); err != nil {
			return nil, fmt.Errorf("library Load: %v", err)
		}
		if err := d.M.Load(x); err != nil {
			return nil, fmt.Errorf("reference Load: %v", err)
		}
	}
	return d, nil
}

// Alphabet is the per-(dictionary, application) AVP alphabet.
type Alphabet struct {
	D      *Dict
	App    uint32
	Plain  map[Kind]Def // vendor id 0
	Vend   map[Kind]Def // vendor-specific
	Groups []Def        // up to three grouped AVPs (plain first)
	Undef  []uint32     // codes the dictionary does not define for App
	Cmds   []CmdDef
	// Collide lists definitions that share their numeric code with another definition of a
	// different vendor and type reachable from App (only the exact vendor tells them apart).
	Collide []Def
}

type CmdDef struct {
	App, Code uint32
	Short     string
	NReq, NAns int
}

// BuildAlphabet selects, in dictionary order, the first unshadowed AVP of every kind that
// is reachable from app (application, documented parents, base).
func BuildAlphabet(d *Dict, app uint32) *Alphabet {
	a := &Alphabet{D: d, App: app, Plain: map[Kind]Def{}, Vend: map[Kind]Def{}}
	chain := map[uint32]bool{}
	for _, x := range refdict.Chain(app) {
		chain[x] = true
	}
	used := map[uint32]bool{}
	for _, v := range d.M.All {
		used[v.Code] = true
		if !chain[v.App] {
			continue
		}
		if d.M.FindCode(app, v.Code, v.Vendor) != v || d.M.FindCode(app, v.Code, refdict.AnyVendor) != v {
			continue // shadowed by a closer or later definition
		}
		k, ok := KindOfTypeName(v.Data.Type)
		if !ok {
			continue
		}
		def := Def{Code: v.Code, Vendor: v.Vendor, Name: v.Name, K: k, Must: v.Must}
		if k == KGroup {
			if len(a.Groups) < 3 {
				a.Groups = append(a.Groups, def)
			}
			continue
		}
		if v.Vendor == 0 {
			if _, have := a.Plain[k]; !have {
				a.Plain[k] = def
			}
		} else if _, have := a.Vend[k]; !have {
			a.Vend[k] = def
		}
	}
	// code collisions: the same code defined for two vendors with different types
	byCode := map[uint32][]*refdict.XAVP{}
	for _, v := range d.M.All {
		if !chain[v.App] || d.M.FindCode(app, v.Code, v.Vendor) != v {
			continue
		}
		byCode[v.Code] = append(byCode[v.Code], v)
	}
	var ccodes []uint32
	for c, l := range byCode {
		if len(l) >= 2 {
			ccodes = append(ccodes, c)
		}
	}
	sort.Slice(ccodes, func(i, j int) bool { return ccodes[i] < ccodes[j] })
	for _, c := range ccodes {
		l := byCode[c]
		differ := false
		for _, x := range l[1:] {
			if x.Vendor != l[0].Vendor && x.Data.Type != l[0].Data.Type {
				differ = true
			}
		}
		if !differ || len(a.Collide) >= 8 {
			continue
		}
		for _, x := range l {
			if k, ok := KindOfTypeName(x.Data.Type); ok && k != KGroup {
				a.Collide = append(a.Collide, Def{Code: x.Code, Vendor: x.Vendor, Name: x.Name, K: k, Must: x.Must})
			}
		}
	}
	for c := uint32(60001); len(a.Undef) < 2; c++ {
		if !used[c] {
			a.Undef = append(a.Undef, c)
		}
	}
	seen := map[[2]uint32]bool{}
	for _, f := range d.M.Files {
		for _, ap := range f.Apps {
			for _, c := range ap.Cmds {
				k := [2]uint32{ap.ID, c.Code}
				if seen[k] {
					continue
				}
				seen[k] = true
				a.Cmds = append(a.Cmds, CmdDef{App: ap.ID, Code: c.Code, Short: c.Short, NReq: len(c.Req.Rules), NAns: len(c.Ans.Rules)})
			}
		}
	}
	sort.Slice(a.Cmds, func(i, j int) bool {
		if a.Cmds[i].App != a.Cmds[j].App {
			return a.Cmds[i].App < a.Cmds[j].App
		}
		return a.Cmds[i].Code < a.Cmds[j].Code
	})
	return a
}

// GeneratedXML is a dictionary declaring, in application 0, one plain and one
// vendor-specific AVP for every type name the library says a dictionary may declare,
// three grouped AVPs and one command. Codes start at 70001.
func GeneratedXML() string {
	var names []string
	for n := range datatype.Available {
		names = append(names, n)
	}
	sort.Strings(names)
	var b strings.Builder
	b.WriteString(`<?xml version="1.0" encoding="UTF-8"?>` + "\n<diameter>\n" + `<application id="0" name="Gen">` + "\n")
	b.WriteString(`<command code="777" short="GT" name="Gen-Test"><request><rule avp="Gen-Unsigned32" required="false"/></request><answer><rule avp="Gen-Unsigned32" required="false"/></answer></command>` + "\n")
	code := 70001
	for _, n := range names {
		if n == "Grouped" {
			continue
		}
		fmt.Fprintf(&b, `<avp name="Gen-%s" code="%d" must="M" may="P" must-not="V" may-encrypt="-"><data type="%s"/></avp>`+"\n", n, code, n)
		fmt.Fprintf(&b, `<avp name="GenV-%s" code="%d" must="V" may="P" must-not="-" may-encrypt="-" vendor-id="9999"><data type="%s"/></avp>`+"\n", n, code+1000, n)
		code++
	}
	// one code shared by a plain Unsigned32 and a vendor-specific UTF8String
	b.WriteString(`<avp name="Gen-Coll-Plain" code="73001" must="M" may="P" must-not="V" may-encrypt="-"><data type="Unsigned32"/></avp>` + "\n")
	b.WriteString(`<avp name="Gen-Coll-Vendor" code="73001" must="V" may="P" must-not="-" may-encrypt="-" vendor-id="9999"><data type="UTF8String"/></avp>` + "\n")
	// a vendor-specific AVP whose must attribute does not list V, and a vendor-less one whose must does
	b.WriteString(`<avp name="GenVM-UTF8String" code="74001" must="M" may="P" must-not="-" may-encrypt="-" vendor-id="9999"><data type="UTF8String"/></avp>` + "\n")
	b.WriteString(`<avp name="GenVN-UTF8String" code="74003" must="M" may="P" must-not="V" may-encrypt="-" vendor-id="9999"><data type="UTF8String"/></avp>` + "\n")
	b.WriteString(`<avp name="GenNV-Unsigned32" code="74002" must="M,V" may="P" must-not="-" may-encrypt="-"><data type="Unsigned32"/></avp>` + "\n")
	for i := 0; i < 3; i++ {
		v := ""
		must := "M"
		if i == 2 {
			v = ` vendor-id="9999"`
			must = "M,V"
		}
		fmt.Fprintf(&b, `<avp name="Gen-Group%d" code="%d" must="%s" may="P" must-not="-" may-encrypt="-"%s><data type="Grouped"><rule avp="Gen-Unsigned32" required="false"/></data></avp>`+"\n", i, 72001+i, must, v)
	}
	b.WriteString("</application>\n</diameter>\n")
	return b.String()
}
