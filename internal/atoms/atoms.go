// Package atoms defines the finite alphabets (values, AVPs, headers) from which the
// enumerators build inputs, each with two independent renderings: Lib() builds the value
// through the public API of the library under test, Ref() encodes it with refcodec.
package atoms

import (
	"fmt"
	"math"
	"net"
	"time"

	"github.com/fiorix/go-diameter/v4/diam"
	"github.com/fiorix/go-diameter/v4/diam/datatype"
	"verif/internal/refcodec"
)

type Kind int

const (
	KOctet Kind = iota
	KUTF8
	KIdent
	KURI
	KIPFilter
	KQoS
	KU32
	KU64
	KI32
	KI64
	KF32
	KF64
	KEnum
	KTime
	KAddr
	KIPv4
	KIPv6
	KGroup
	KUnknown
	NKinds
)

var KindName = [...]string{"OctetString", "UTF8String", "DiameterIdentity", "DiameterURI", "IPFilterRule",
	"QoSFilterRule", "Unsigned32", "Unsigned64", "Integer32", "Integer64", "Float32", "Float64",
	"Enumerated", "Time", "Address", "IPv4", "IPv6", "Grouped", "Unknown"}

func (k Kind) String() string { return KindName[k] }

// KindOfTypeName maps a dictionary type name to a Kind.
func KindOfTypeName(n string) (Kind, bool) {
	for i, s := range KindName {
		if s == n {
			return Kind(i), true
		}
	}
	return 0, false
}

// Val is an abstract value.
type Val struct {
	K   Kind
	S   []byte // string-like kinds, address bytes, IPv4/IPv6 bytes, unknown payload
	U   uint64 // integer kinds (two's complement), float bit patterns, unix seconds for Time (as int64)
	Fam uint16 // address family
}

func (v Val) Desc() string {
	switch v.K {
	case KOctet, KUTF8, KIdent, KURI, KIPFilter, KQoS, KUnknown, KIPv4, KIPv6:
		if len(v.S) > 12 {
			return fmt.Sprintf("%s[len %d]", v.K, len(v.S))
		}
		return fmt.Sprintf("%s(%x)", v.K, v.S)
	case KAddr:
		return fmt.Sprintf("Address(fam %d,%x)", v.Fam, v.S)
	case KTime:
		return fmt.Sprintf("Time(%s)", time.Unix(int64(v.U), 0).UTC().Format(time.RFC3339))
	case KGroup:
		return "Grouped"
	}
	return fmt.Sprintf("%s(%#x)", v.K, v.U)
}

// Ref renders the payload with the reference codec.
func (v Val) Ref() []byte {
	switch v.K {
	case KOctet, KUTF8, KIdent, KURI, KIPFilter, KQoS, KUnknown, KIPv4, KIPv6:
		return append([]byte{}, v.S...)
	case KU32:
		return refcodec.U32(uint32(v.U))
	case KU64:
		return refcodec.U64(v.U)
	case KI32, KEnum:
		return refcodec.I32(int32(v.U))
	case KI64:
		return refcodec.I64(int64(v.U))
	case KF32:
		return refcodec.F32Bits(uint32(v.U))
	case KF64:
		return refcodec.F64Bits(v.U)
	case KTime:
		return refcodec.TimeFromUnix(int64(v.U))
	case KAddr:
		return refcodec.Address(v.Fam, v.S)
	}
	panic("atoms: Ref of " + v.K.String())
}

// Lib builds the value through the library's public datatype API.
func (v Val) Lib() datatype.Type {
	switch v.K {
	case KOctet:
		return datatype.OctetString(v.S)
	case KUTF8:
		return datatype.UTF8String(v.S)
	case KIdent:
		return datatype.DiameterIdentity(v.S)
	case KURI:
		return datatype.DiameterURI(v.S)
	case KIPFilter:
		return datatype.IPFilterRule(v.S)
	case KQoS:
		return datatype.QoSFilterRule(v.S)
	case KUnknown:
		return datatype.Unknown(guarded(v.S))
	case KU32:
		return datatype.Unsigned32(uint32(v.U))
	case KU64:
		return datatype.Unsigned64(v.U)
	case KI32:
		return datatype.Integer32(int32(v.U))
	case KEnum:
		return datatype.Enumerated(int32(v.U))
	case KI64:
		return datatype.Integer64(int64(v.U))
	case KF32:
		return datatype.Float32(math.Float32frombits(uint32(v.U)))
	case KF64:
		return datatype.Float64(math.Float64frombits(v.U))
	case KTime:
		return datatype.Time(time.Unix(int64(v.U), 0))
	case KAddr:
		switch v.Fam {
		case 1, 2:
			return datatype.Address(net.IP(guarded(v.S)))
		}
		// other families: the documented representation is family prefix + bytes
		return datatype.Address(refcodec.Address(v.Fam, v.S))
	case KIPv4:
		return datatype.IPv4(guarded(v.S))
	case KIPv6:
		return datatype.IPv6(guarded(v.S))
	}
	panic("atoms: Lib of " + v.K.String())
}

// Slice-backed values are handed to the library the way a relay would hand them over: as a
// sub-slice of a larger buffer that is still in use (the bytes behind the value belong to the
// caller). GuardsIntact reports whether the library wrote behind any value since ResetGuards.
var guards [][]byte

func guarded(b []byte) []byte {
	buf := make([]byte, len(b)+8)
	copy(buf, b)
	for i := len(b); i < len(buf); i++ {
		buf[i] = 0xA5
	}
	if len(guards) < 4096 {
		guards = append(guards, buf[len(b):])
	}
	return buf[:len(b)] // capacity reaches into the caller's bytes
}

func ResetGuards() { guards = guards[:0] }

func GuardsIntact() string {
	for _, g := range guards {
		for i, x := range g {
			if x != 0xA5 {
				return fmt.Sprintf("the library wrote into the caller's buffer behind a slice-backed value it was given (byte %d behind the value is now %#x)", i, x)
			}
		}
	}
	return ""
}

// Canon renders a decoded library value into a canonical comparable form
// (kind name + reference payload bytes) without using the library's Serialize.
func Canon(d datatype.Type) (string, []byte, bool) {
	switch x := d.(type) {
	case datatype.OctetString:
		return "OctetString", []byte(x), true
	case datatype.UTF8String:
		return "UTF8String", []byte(x), true
	case datatype.DiameterIdentity:
		return "DiameterIdentity", []byte(x), true
	case datatype.DiameterURI:
		return "DiameterURI", []byte(x), true
	case datatype.IPFilterRule:
		return "IPFilterRule", []byte(x), true
	case datatype.QoSFilterRule:
		return "QoSFilterRule", []byte(x), true
	case datatype.Unknown:
		return "Unknown", []byte(x), true
	case datatype.Unsigned32:
		return "Unsigned32", refcodec.U32(uint32(x)), true
	case datatype.Unsigned64:
		return "Unsigned64", refcodec.U64(uint64(x)), true
	case datatype.Integer32:
		return "Integer32", refcodec.I32(int32(x)), true
	case datatype.Enumerated:
		return "Enumerated", refcodec.I32(int32(x)), true
	case datatype.Integer64:
		return "Integer64", refcodec.I64(int64(x)), true
	case datatype.Float32:
		return "Float32", refcodec.F32Bits(math.Float32bits(float32(x))), true
	case datatype.Float64:
		return "Float64", refcodec.F64Bits(math.Float64bits(float64(x))), true
	case datatype.Time:
		return "Time", refcodec.TimeFromUnix(time.Time(x).Unix()), true
	case datatype.Address:
		// representation: 4 or 16 bytes = IPv4 / IPv6 address, otherwise family prefix + bytes
		switch len(x) {
		case 4:
			return "Address", refcodec.Address(1, x), true
		case 16:
			return "Address", refcodec.Address(2, x), true
		}
		return "Address", []byte(x), true
	case datatype.IPv4:
		return "IPv4", []byte(x), true
	case datatype.IPv6:
		return "IPv6", []byte(x), true
	}
	return fmt.Sprintf("%T", d), nil, false
}

// ---- value atoms -------------------------------------------------------------

func rep(b byte, n int) []byte {
	out := make([]byte, n)
	for i := range out {
		out[i] = b + byte(i%7)
	}
	return out
}

// StringLens are the payload lengths used for variable-width kinds.
func StringLens(thorough bool) []int {
	l := []int{0, 1, 2, 3, 4, 5, 7, 8, 9}
	if thorough {
		l = append(l, 255, 256, 1019, 1020, 1021, 1024, 1030)
	} else {
		l = append(l, 255, 1021)
	}
	return l
}

// Values returns the boundary-first value atoms of a kind.
func Values(k Kind, thorough bool) []Val {
	var out []Val
	u := func(vs ...uint64) {
		for _, x := range vs {
			out = append(out, Val{K: k, U: x})
		}
	}
	switch k {
	case KOctet, KUTF8, KIdent, KURI, KIPFilter, KQoS:
		for _, n := range StringLens(thorough) {
			out = append(out, Val{K: k, S: rep('a', n)})
		}
		if k == KOctet {
			out = append(out, Val{K: k, S: []byte{0, 0xff, 0x80}}, Val{K: k, S: []byte{0}})
		}
		// text that begins or ends with white space (a line end, indentation, a lone blank): data like any other
		for _, t := range []string{" lead", "trail \r\n", " ", "\ta\n", "x\x00"} {
			out = append(out, Val{K: k, S: []byte(t)})
		}
		// text that begins with (or is) a UTF-8 byte order mark, and multi-byte text: octets like any other
		for _, t := range []string{"\xef\xbb\xbfx", "\xef\xbb\xbf", "\xc3\xa9\xe2\x82\xac\xf0\x9f\x98\x80"} {
			out = append(out, Val{K: k, S: []byte(t)})
		}
	case KUnknown:
		for _, n := range []int{0, 1, 2, 3, 4, 5, 8, 9} {
			out = append(out, Val{K: k, S: rep(0xf0, n)})
		}
	case KU32:
		u(0, 1, 2001, 0x7fffffff, 0x80000000, 0xffffffff)
	case KU64:
		u(0, 1, 0xffffffff, 0x100000000, 0x7fffffffffffffff, 0x8000000000000000, 0xffffffffffffffff)
	case KI32, KEnum:
		u(0, 1, uint64(uint32(0xffffffff)), 0x7fffffff, 0x80000000)
	case KI64:
		u(0, 1, 0xffffffffffffffff, 0x7fffffffffffffff, 0x8000000000000000, 0x80000000, 0xffffffff)
	case KF32:
		u(0, 0x80000000, 0x00000001, 0x007fffff, 0x00800000, 0x7f7fffff, 0x7f800000, 0xff800000, 0x7fc00000, 0x7fa00001, 0xffc00001, 0x3f800000)
	case KF64:
		u(0, 0x8000000000000000, 1, 0x000fffffffffffff, 0x0010000000000000, 0x7fefffffffffffff, 0x7ff0000000000000,
			0xfff0000000000000, 0x7ff8000000000000, 0x7ff4000000000001, 0xfff8000000000001, 0x3ff0000000000000,
			0x36a0000000000000 /* 2^-149: a float32 denormal as float64 */, 0x47efffffe0000000 /* max float32 */, 0x3ff0000000000001)
	case KTime:
		const ntp = refcodec.NTPOffset
		for _, s := range []int64{
			0x80000000 - ntp, 0x80000001 - ntp, // 1968-01-20 03:14:08/09: first representable instants (MSB set, era 0)
			0, 1, 1700000000,
			0xffffffff - ntp, 0x100000000 - ntp, 0x100000001 - ntp, // 2036-02-07 06:28:15/16/17
			0x17fffffff - ntp, // 2104-02-26 09:42:23, last representable
		} {
			out = append(out, Val{K: k, U: uint64(s)})
		}
	case KAddr:
		out = append(out,
			Val{K: k, Fam: 1, S: []byte{10, 1, 2, 3}},
			Val{K: k, Fam: 1, S: []byte{0, 0, 0, 0}},
			Val{K: k, Fam: 2, S: []byte{0x20, 1, 0xd, 0xb8, 0, 0, 0, 0, 0, 0, 0, 0, 0, 0, 0, 1}},
			Val{K: k, Fam: 2, S: []byte{0, 0, 0, 0, 0, 0, 0, 0, 0, 0, 0xff, 0xff, 10, 1, 2, 3}}, // IPv4-mapped IPv6
			Val{K: k, Fam: 8, S: []byte("48602007060")},                                          // E.164
			Val{K: k, Fam: 8, S: []byte("1")},
			Val{K: k, Fam: 3, S: []byte{1, 2, 3}},
			Val{K: k, Fam: 8, S: []byte{0x31, 0x32}},                                              // total length 4
			Val{K: k, Fam: 0x4000, S: []byte{1, 2, 3, 4, 5, 6, 7, 8, 9, 10, 11, 12, 13, 14}},     // total length 16
			Val{K: k, Fam: 3, S: rep(1, 20)},
		)
	case KIPv4:
		out = append(out, Val{K: k, S: []byte{10, 1, 2, 3}}, Val{K: k, S: []byte{0, 0, 0, 0}}, Val{K: k, S: []byte{255, 255, 255, 255}})
	case KIPv6:
		out = append(out, Val{K: k, S: []byte{0x20, 1, 0xd, 0xb8, 0, 0, 0, 0, 0, 0, 0, 0, 0, 0, 0, 1}},
			Val{K: k, S: make([]byte, 16)},
			Val{K: k, S: []byte{0, 0, 0, 0, 0, 0, 0, 0, 0, 0, 0xff, 0xff, 10, 1, 2, 3}})
	}
	return out
}

// ---- trees -------------------------------------------------------------------

// N is an abstract AVP tree node.
type N struct {
	Code   uint32
	Flags  uint8
	Vendor uint32
	V      Val
	Kids   []N
}

func (n N) Desc() string {
	s := fmt.Sprintf("%d", n.Code)
	if n.Vendor != 0 || n.Flags&0x80 != 0 {
		s += fmt.Sprintf("/v%d", n.Vendor)
	}
	s += fmt.Sprintf("/f%02x:", n.Flags)
	if n.V.K == KGroup {
		s += "{"
		for i, k := range n.Kids {
			if i > 0 {
				s += " "
			}
			s += k.Desc()
		}
		return s + "}"
	}
	return s + n.V.Desc()
}

// Lib builds the AVP with the public constructors.
func (n N) Lib() *diam.AVP {
	if n.V.K == KGroup {
		g := &diam.GroupedAVP{}
		for _, k := range n.Kids {
			g.AddAVP(k.Lib())
		}
		return diam.NewAVP(n.Code, n.Flags, n.Vendor, g)
	}
	return diam.NewAVP(n.Code, n.Flags, n.Vendor, n.V.Lib())
}

// LibTopDown builds the same AVP in the other order of familiar steps: the grouped AVP is
// created around an empty group first (diam.NewAVP), its members are added afterwards.
func (n N) LibTopDown() *diam.AVP {
	if n.V.K == KGroup {
		g := &diam.GroupedAVP{}
		a := diam.NewAVP(n.Code, n.Flags, n.Vendor, g)
		for _, k := range n.Kids {
			g.AddAVP(k.LibTopDown())
		}
		return a
	}
	return diam.NewAVP(n.Code, n.Flags, n.Vendor, n.V.Lib())
}

// Ref builds the reference node. As the API contract says (NewAVP), a non-zero vendor
// id forces the V flag.
func (n N) Ref() refcodec.Node {
	fl := n.Flags
	if n.Vendor != 0 {
		fl |= refcodec.VBit
	}
	r := refcodec.Node{Code: n.Code, Flags: fl, Vendor: n.Vendor}
	if n.V.K == KGroup {
		r.Group = true
		for _, k := range n.Kids {
			r.Children = append(r.Children, k.Ref())
		}
		return r
	}
	r.Payload = n.V.Ref()
	return r
}

func RefNodes(ns []N) []refcodec.Node {
	var out []refcodec.Node
	for _, n := range ns {
		out = append(out, n.Ref())
	}
	return out
}
