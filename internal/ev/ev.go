// Package ev is the reporting side of every check: counters, evidence file, replay
// artefacts, VIOLATION / KNOWN-FINDING lines and the exit status.
package ev

import (
	"crypto/sha1"
	"encoding/hex"
	"encoding/json"
	"fmt"
	"os"
	"path/filepath"
	"sort"
	"strconv"
	"sync"
	"time"
)

// Known is one entry of /verif/known_findings.json.
type Known struct {
	Property string `json:"property"`
	Status   string `json:"status"` // "known" or "fixed"
	Class    string `json:"class"`  // narrow class key computed by the check from the minimised failing case
	What     string `json:"what"`
	Commit   string `json:"commit,omitempty"`
}

type Ctx struct {
	ID    string
	Tier  string
	Seed  int64
	Root  string
	Out   string // where evidence/ and replays/ are written (Root, unless VERIF_OUT redirects a scratch run)
	Level string
	start time.Time

	mu         sync.Mutex
	evals      int64
	distinct   map[uint64]struct{}
	states     int64
	trans      int64
	traces     int64
	samples    []interface{}
	maxSamples int
	Rule       string
	Exhaustive bool
	Extra      map[string]interface{}
	Assume     []string
	known      []Known
	knownHit   map[string]string
	viol       map[string]string // class -> replay path
	violCount  int
	MaxViol    int
	Caps       []string

	// sharding: a child evaluates the cases whose running index is congruent to Shard mod NShards
	Shard, NShards int
	ChildOut       string
	caseIdx        int64
	mergedDistinct int64
	childViol      []ChildViolation
}

// ChildViolation is a failing case found by a shard child, re-reported by the parent.
type ChildViolation struct {
	Class  string      `json:"class"`
	What   string      `json:"what"`
	Detail string      `json:"detail"`
	Replay interface{} `json:"replay"`
}

// ChildResult is what a shard child hands to its parent.
type ChildResult struct {
	Evals      int64                  `json:"evals"`
	Distinct   int64                  `json:"distinct"`
	States     int64                  `json:"states"`
	Trans      int64                  `json:"trans"`
	Traces     int64                  `json:"traces"`
	Samples    []interface{}          `json:"samples"`
	Extra      map[string]interface{} `json:"extra"`
	Caps       []string               `json:"caps"`
	Violations []ChildViolation       `json:"violations"`
	Rule       string                 `json:"rule"`
	Assume     []string               `json:"assume"`
}

// Mine advances the running case index and reports whether this process owns the case.
func (c *Ctx) Mine() bool {
	c.caseIdx++
	if c.NShards <= 1 {
		return true
	}
	return int((c.caseIdx-1)%int64(c.NShards)) == c.Shard
}

func New(id, tier, root string) *Ctx {
	seed, _ := strconv.ParseInt(os.Getenv("VERIF_SEED"), 10, 64)
	out := root
	if o := os.Getenv("VERIF_OUT"); o != "" {
		out = o
	}
	c := &Ctx{ID: id, Tier: tier, Seed: seed, Root: root, Out: out, Level: "model_checking", start: time.Now(),
		distinct: map[uint64]struct{}{}, maxSamples: 6, Exhaustive: true, Extra: map[string]interface{}{},
		knownHit: map[string]string{}, viol: map[string]string{}, MaxViol: 8}
	b, err := os.ReadFile(filepath.Join(root, "known_findings.json"))
	if err == nil {
		var all struct {
			Findings []Known `json:"findings"`
		}
		if err := json.Unmarshal(b, &all); err != nil {
			Infra("known_findings.json: %v", err)
		}
		for _, k := range all.Findings {
			if k.Property == id {
				c.known = append(c.known, k)
			}
		}
	}
	return c
}

// Infra reports an infrastructure error (never a verdict) and exits 2.
func Infra(format string, a ...interface{}) {
	fmt.Fprintf(os.Stderr, "INFRASTRUCTURE-ERROR: "+format+"\n", a...)
	os.Exit(2)
}

// Eval counts one evaluated case; key identifies distinct non-trivial cases (0 = trivial).
func (c *Ctx) Eval(key uint64) {
	c.mu.Lock()
	c.evals++
	if key != 0 {
		c.distinct[key] = struct{}{}
	}
	c.mu.Unlock()
}

// EvalN adds n evaluations that are not individually keyed (complete sweeps).
func (c *Ctx) EvalN(n int64, distinct int64) {
	c.mu.Lock()
	c.evals += n
	c.Extra["sweep_evaluations"] = add(c.Extra["sweep_evaluations"], n)
	c.Extra["sweep_distinct"] = add(c.Extra["sweep_distinct"], distinct)
	c.mu.Unlock()
}

func add(v interface{}, n int64) int64 {
	switch x := v.(type) {
	case int64:
		return x + n
	case float64:
		return int64(x) + n
	}
	return n
}

// AddEvals adds n evaluations of which distinct are distinct non-trivial cases.
func (c *Ctx) AddEvals(n, distinct int64) {
	c.mu.Lock()
	c.evals += n
	c.mergedDistinct += distinct
	c.mu.Unlock()
}

func (c *Ctx) AddMC(states, transitions, traces int64) {
	c.mu.Lock()
	c.states += states
	c.trans += transitions
	c.traces += traces
	c.mu.Unlock()
}

func (c *Ctx) Sample(s interface{}) {
	c.mu.Lock()
	if len(c.samples) < c.maxSamples {
		c.samples = append(c.samples, s)
	}
	c.mu.Unlock()
}

func (c *Ctx) Set(k string, v interface{}) { c.mu.Lock(); c.Extra[k] = v; c.mu.Unlock() }

func (c *Ctx) Cap(what string) {
	c.mu.Lock()
	c.Caps = append(c.Caps, what)
	c.Exhaustive = false
	c.mu.Unlock()
}

// Stop reports whether enough violations were collected to stop searching.
func (c *Ctx) Stop() bool {
	c.mu.Lock()
	defer c.mu.Unlock()
	return len(c.viol) >= c.MaxViol
}

// Report records a failing case. class is the narrow class of the minimised case ("" =
// unclassified). replay is JSON-serialisable and sufficient to re-execute the case.
// It returns true if the case is a listed known finding.
func (c *Ctx) Report(class, what, detail string, replay interface{}) bool {
	c.mu.Lock()
	defer c.mu.Unlock()
	c.violCount++
	if c.ChildOut != "" {
		key := class
		if key == "" {
			key = what
		}
		if _, seen := c.viol[key]; !seen && len(c.viol) < c.MaxViol*4 {
			c.viol[key] = "child"
			c.childViol = append(c.childViol, ChildViolation{class, what, detail, replay})
		}
		return false
	}
	if class != "" {
		for _, k := range c.known {
			if k.Status == "known" && k.Class == class {
				if _, seen := c.knownHit[class]; !seen {
					c.knownHit[class] = k.What
				}
				return true
			}
		}
	}
	key := class
	if key == "" {
		key = what
	}
	if _, seen := c.viol[key]; seen || len(c.viol) >= c.MaxViol {
		return false
	}
	js, _ := json.MarshalIndent(map[string]interface{}{"property": c.ID, "class": class, "what": what, "detail": detail, "case": replay}, "", " ")
	h := sha1.Sum(js)
	dir := filepath.Join(c.Out, "replays")
	os.MkdirAll(dir, 0o755)
	p := filepath.Join(dir, c.ID+"-"+hex.EncodeToString(h[:6])+".json")
	os.WriteFile(p, js, 0o644)
	c.viol[key] = p
	fmt.Printf("VIOLATION property=%s replay=%s\n", c.ID, p)
	fmt.Printf("  what: %s\n  detail: %s\n", what, detail)
	return false
}

func (c *Ctx) NViolations() int { c.mu.Lock(); defer c.mu.Unlock(); return len(c.viol) }

// Finish writes the evidence file, prints the summary and exits.
func (c *Ctx) Finish() {
	c.mu.Lock()
	defer c.mu.Unlock()
	if c.ChildOut != "" {
		r := ChildResult{Evals: c.evals, Distinct: int64(len(c.distinct)) + c.mergedDistinct, States: c.states, Trans: c.trans, Traces: c.traces,
			Samples: c.samples, Extra: c.Extra, Caps: c.Caps, Violations: c.childViol, Rule: c.Rule, Assume: c.Assume}
		js, err := json.Marshal(r)
		if err != nil {
			Infra("child result: %v", err)
		}
		if err := os.WriteFile(c.ChildOut, js, 0o644); err != nil {
			Infra("child result: %v", err)
		}
		os.Exit(0)
	}
	var kk []string
	for k := range c.knownHit {
		kk = append(kk, k)
	}
	sort.Strings(kk)
	for _, k := range kk {
		fmt.Printf("KNOWN-FINDING: property=%s %s [class %s]\n", c.ID, c.knownHit[k], k)
	}
	cov := map[string]interface{}{}
	for k, v := range c.Extra {
		cov[k] = v
	}
	cov["evaluations"] = c.evals
	cov["distinct_nontrivial"] = int64(len(c.distinct)) + add(c.Extra["sweep_distinct"], 0) + c.mergedDistinct
	cov["rule"] = c.Rule
	if len(c.samples) == 0 {
		c.samples = append(c.samples, "none")
	}
	cov["samples"] = c.samples
	st, tr, tv := c.states, c.trans, c.traces
	if st == 0 {
		st = int64(len(c.distinct)) + add(c.Extra["sweep_distinct"], 0) + c.mergedDistinct
	}
	if tr == 0 {
		tr = c.evals
	}
	if tv == 0 {
		tv = c.evals
	}
	cov["states"] = st
	cov["transitions"] = tr
	cov["traces_validated_against_impl"] = tv
	cov["exhaustive"] = c.Exhaustive
	if len(c.Caps) > 0 {
		cov["caps_hit"] = c.Caps
	}
	cov["known_findings_matched"] = kk
	e := map[string]interface{}{
		"property_id": c.ID, "tier": c.Tier, "seed": c.Seed, "level": c.Level,
		"coverage": cov, "assumptions": c.Assume,
		"wall_s": time.Since(c.start).Seconds(), "violations": len(c.viol),
	}
	if c.Assume == nil {
		e["assumptions"] = []string{}
	}
	js, err := json.MarshalIndent(e, "", " ")
	if err != nil {
		Infra("evidence: %v", err)
	}
	os.MkdirAll(filepath.Join(c.Out, "evidence"), 0o755)
	if err := os.WriteFile(filepath.Join(c.Out, "evidence", c.ID+".json"), js, 0o644); err != nil {
		Infra("evidence: %v", err)
	}
	fmt.Printf("%s tier=%s evaluations=%d distinct=%d states=%d transitions=%d exhaustive=%v known=%d violations=%d wall=%.1fs\n",
		c.ID, c.Tier, c.evals, cov["distinct_nontrivial"], st, tr, c.Exhaustive, len(kk), len(c.viol), time.Since(c.start).Seconds())
	if len(c.viol) > 0 {
		os.Exit(1)
	}
	os.Exit(0)
}

// Hash helpers -----------------------------------------------------------------

func H(b []byte) uint64 {
	h := uint64(14695981039346656037)
	for _, x := range b {
		h ^= uint64(x)
		h *= 1099511628211
	}
	if h == 0 {
		h = 1
	}
	return h
}

func HS(s string) uint64 { return H([]byte(s)) }

func Mix(h uint64, vs ...uint64) uint64 {
	for _, v := range vs {
		h ^= v
		h *= 1099511628211
		h ^= h >> 29
	}
	if h == 0 {
		h = 1
	}
	return h
}

// Merge folds a shard child's result into the parent context.
func (c *Ctx) Merge(r *ChildResult) {
	c.mu.Lock()
	c.evals += r.Evals
	c.mergedDistinct += r.Distinct
	c.states += r.States
	c.trans += r.Trans
	c.traces += r.Traces
	for _, s := range r.Samples {
		if len(c.samples) < c.maxSamples {
			c.samples = append(c.samples, s)
		}
	}
	for k, v := range r.Extra {
		if f, ok := v.(float64); ok { // JSON numbers: summed across shards
			if old, ok := c.Extra[k].(float64); ok {
				c.Extra[k] = old + f
			} else if old, ok := c.Extra[k].(int64); ok {
				c.Extra[k] = float64(old) + f
			} else {
				c.Extra[k] = f
			}
		} else if _, have := c.Extra[k]; !have {
			c.Extra[k] = v
		}
	}
	if len(r.Caps) > 0 {
		c.Caps = append(c.Caps, r.Caps...)
		c.Exhaustive = false
	}
	if c.Rule == "" {
		c.Rule = r.Rule
	}
	if len(c.Assume) == 0 {
		c.Assume = r.Assume
	}
	c.mu.Unlock()
	for _, v := range r.Violations {
		c.Report(v.Class, v.What, v.Detail, v.Replay)
	}
}
