// Package refcodec is an independent RFC 6733 codec written from the RFC text
// (sections 3, 4.1-4.3 and the NTP era rule of RFC 5905 section 6). It shares no code
// with the repository under verification and is the oracle for the wire-format checks.
package refcodec

import (
	"errors"
	"fmt"
	"math"
)

// Header is the 20-byte Diameter header.
type Header struct {
	Version uint8
	Length  uint32 // 24 bit
	Flags   uint8
	Code    uint32 // 24 bit
	App     uint32
	HbH     uint32
	E2E     uint32
}

func be16(v uint16) []byte { return []byte{byte(v >> 8), byte(v)} }
func be24(v uint32) []byte { return []byte{byte(v >> 16), byte(v >> 8), byte(v)} }
func be32(v uint32) []byte { return []byte{byte(v >> 24), byte(v >> 16), byte(v >> 8), byte(v)} }

// BE32 is the big-endian encoding of v.
func BE32(v uint32) []byte { return be32(v) }
func be64(v uint64) []byte {
	return append(be32(uint32(v>>32)), be32(uint32(v))...)
}
func rd24(b []byte) uint32 { return uint32(b[0])<<16 | uint32(b[1])<<8 | uint32(b[2]) }
func rd32(b []byte) uint32 {
	return uint32(b[0])<<24 | uint32(b[1])<<16 | uint32(b[2])<<8 | uint32(b[3])
}

// Pad4 rounds n up to a multiple of four.
func Pad4(n int) int {
	for n%4 != 0 {
		n++
	}
	return n
}

func EncodeHeader(h Header) []byte {
	var b []byte
	b = append(b, h.Version)
	b = append(b, be24(h.Length)...)
	b = append(b, h.Flags)
	b = append(b, be24(h.Code)...)
	b = append(b, be32(h.App)...)
	b = append(b, be32(h.HbH)...)
	b = append(b, be32(h.E2E)...)
	return b
}

func DecodeHeader(b []byte) (Header, error) {
	if len(b) < 20 {
		return Header{}, errors.New("short header")
	}
	return Header{Version: b[0], Length: rd24(b[1:4]), Flags: b[4], Code: rd24(b[5:8]),
		App: rd32(b[8:12]), HbH: rd32(b[12:16]), E2E: rd32(b[16:20])}, nil
}

// Node is an AVP to be encoded: either a leaf with Payload or a group with Children.
type Node struct {
	Code     uint32
	Flags    uint8 // the V bit (0x80) decides whether the vendor field is emitted
	Vendor   uint32
	Payload  []byte
	Group    bool
	Children []Node
}

const VBit = 0x80

// EncodeAVP encodes one AVP with zero padding to a four byte boundary.
func EncodeAVP(n Node) []byte {
	payload := n.Payload
	if n.Group {
		payload = nil
		for _, c := range n.Children {
			payload = append(payload, EncodeAVP(c)...)
		}
	}
	hl := 8
	if n.Flags&VBit != 0 {
		hl = 12
	}
	var b []byte
	b = append(b, be32(n.Code)...)
	b = append(b, n.Flags)
	b = append(b, be24(uint32(hl+len(payload)))...)
	if n.Flags&VBit != 0 {
		b = append(b, be32(n.Vendor)...)
	}
	b = append(b, payload...)
	for len(b)%4 != 0 {
		b = append(b, 0)
	}
	return b
}

// EncodeMessage encodes header + AVPs and fills in the message length.
func EncodeMessage(h Header, avps []Node) []byte {
	var body []byte
	for _, a := range avps {
		body = append(body, EncodeAVP(a)...)
	}
	h.Length = uint32(20 + len(body))
	return append(EncodeHeader(h), body...)
}

// Rec is one AVP found by the reference framer.
type Rec struct {
	Code     uint32
	Flags    uint8
	Vendor   uint32
	Length   int // declared length
	Payload  []byte
	Group    bool
	Children []Rec
}

// Frame walks region by the declared AVP lengths rounded up to four, never looking at the
// payload, and recurses into AVPs that isGroup says are Grouped. A container that ends
// inside the padding of its last AVP is accepted here and flagged (unpaddedTail): the
// property under test does not say whether that is an error, so callers accept both.
func Frame(region []byte, isGroup func(code, vendor uint32, vflag bool) bool) (out []Rec, unpaddedTail bool, err error) {
	for off := 0; off < len(region); {
		rest := region[off:]
		if len(rest) < 8 {
			return out, unpaddedTail, fmt.Errorf("offset %d: %d bytes left, AVP header needs 8", off, len(rest))
		}
		r := Rec{Code: rd32(rest[0:4]), Flags: rest[4], Length: int(rd24(rest[5:8]))}
		hl := 8
		if r.Flags&VBit != 0 {
			hl = 12
		}
		if r.Length < hl {
			return out, unpaddedTail, fmt.Errorf("offset %d: declared length %d below header size %d", off, r.Length, hl)
		}
		if r.Length > len(rest) {
			return out, unpaddedTail, fmt.Errorf("offset %d: declared length %d exceeds the %d bytes of the container", off, r.Length, len(rest))
		}
		if hl == 12 {
			r.Vendor = rd32(rest[8:12])
		}
		r.Payload = rest[hl:r.Length]
		if isGroup != nil && isGroup(r.Code, r.Vendor, hl == 12) {
			r.Group = true
			ch, ut, err := Frame(r.Payload, isGroup)
			unpaddedTail = unpaddedTail || ut
			if err != nil {
				return out, unpaddedTail, fmt.Errorf("in group %d at offset %d: %v", r.Code, off, err)
			}
			r.Children = ch
		}
		out = append(out, r)
		adv := Pad4(r.Length)
		if adv > len(rest) {
			unpaddedTail = true
			adv = len(rest)
		}
		off += adv
	}
	return out, unpaddedTail, nil
}

// SplitStream frames a byte stream into messages by the declared message length.
// It returns the complete messages and the classification of what follows them:
// "eof" (clean end), "short-header", "bad-length" (declared < 20), "short-body".
func SplitStream(b []byte) (msgs [][]byte, tail string) {
	for {
		if len(b) == 0 {
			return msgs, "eof"
		}
		if len(b) < 20 {
			return msgs, "short-header"
		}
		l := int(rd24(b[1:4]))
		if l < 20 {
			return msgs, "bad-length"
		}
		if l > len(b) {
			return msgs, "short-body"
		}
		msgs = append(msgs, b[:l])
		b = b[l:]
	}
}

// ---- typed values (RFC 6733 section 4.2, 4.3)

func U32(v uint32) []byte   { return be32(v) }
func U64(v uint64) []byte   { return be64(v) }
func I32(v int32) []byte    { return be32(uint32(v)) }
func I64(v int64) []byte    { return be64(uint64(v)) }
func F32(v float32) []byte  { return be32(math.Float32bits(v)) }
func F64(v float64) []byte  { return be64(math.Float64bits(v)) }
func F32Bits(v uint32) []byte { return be32(v) }
func F64Bits(v uint64) []byte { return be64(v) }

// NTPOffset is the number of seconds between 1900-01-01 and 1970-01-01:
// 70 years of which 17 are leap years = (70*365+17)*86400.
const NTPOffset = (70*365 + 17) * 86400

// TimeFromUnix encodes seconds since 1970 as the low 32 bits of seconds since 1900.
func TimeFromUnix(sec int64) []byte {
	return be32(uint32((sec + NTPOffset) & 0xffffffff))
}

// TimeToUnix decodes with the era rule: MSB set = era 0 (1900..2036), MSB clear = era 1
// (from 2036-02-07 06:28:16 UTC).
func TimeToUnix(b []byte) int64 {
	v := int64(rd32(b))
	if v&0x80000000 != 0 {
		return v - NTPOffset
	}
	return v + (1 << 32) - NTPOffset
}

// Address: 2-byte IANA address family followed by the address bytes.
func Address(family uint16, addr []byte) []byte { return append(be16(family), addr...) }
