// Package refdict is an independent reading of the dictionary XML (encoding/xml into
// private structs) plus the resolution order the property states. It is the reference
// model for dictionary lookups and the source of AVP alphabets for the codec checks.
package refdict

import (
	"encoding/xml"
	"fmt"
	"go/ast"
	"go/parser"
	"go/token"
	"os"
	"strconv"
	"strings"
)

type XFile struct {
	XMLName xml.Name `xml:"diameter"`
	Apps    []*XApp  `xml:"application"`
}
type XApp struct {
	ID      uint32     `xml:"id,attr"`
	Type    string     `xml:"type,attr"`
	Name    string     `xml:"name,attr"`
	Vendors []XVendor  `xml:"vendor"`
	Cmds    []*XCmd    `xml:"command"`
	AVPs    []*XAVP    `xml:"avp"`
}
type XVendor struct {
	ID   uint32 `xml:"id,attr"`
	Name string `xml:"name,attr"`
}
type XCmd struct {
	Code  uint32 `xml:"code,attr"`
	Name  string `xml:"name,attr"`
	Short string `xml:"short,attr"`
	Req   XRules `xml:"request"`
	Ans   XRules `xml:"answer"`
}
type XRules struct {
	Rules []XRule `xml:"rule"`
}
type XRule struct {
	AVP string `xml:"avp,attr"`
}
type XAVP struct {
	Name   string `xml:"name,attr"`
	Code   uint32 `xml:"code,attr"`
	Must   string `xml:"must,attr"`
	Vendor uint32 `xml:"vendor-id,attr"`
	Data   XData  `xml:"data"`
	App    uint32 `xml:"-"`
	Seq    int    `xml:"-"` // load sequence number (later wins)
}
type XData struct {
	Type string `xml:"type,attr"`
}

func Parse(x string) (*XFile, error) {
	f := new(XFile)
	if err := xml.Unmarshal([]byte(x), f); err != nil {
		return nil, err
	}
	for _, a := range f.Apps {
		for _, v := range a.AVPs {
			v.App = a.ID
		}
	}
	return f, nil
}

// Embedded is one XML dictionary string embedded in diam/dict/default.go.
type Embedded struct {
	Var  string // Go variable name, e.g. baseXML
	Name string // display name from the dictionaries table
	XML  string
}

// LoadEmbedded extracts the embedded dictionaries, in default loading order, from the
// current working tree's diam/dict/default.go.
func LoadEmbedded(repo string) ([]Embedded, error) {
	path := repo + "/diam/dict/default.go"
	src, err := os.ReadFile(path)
	if err != nil {
		return nil, err
	}
	fset := token.NewFileSet()
	f, err := parser.ParseFile(fset, path, src, 0)
	if err != nil {
		return nil, err
	}
	vars := map[string]string{}
	var order []Embedded
	ast.Inspect(f, func(n ast.Node) bool {
		switch x := n.(type) {
		case *ast.ValueSpec:
			if len(x.Names) == 1 && len(x.Values) == 1 {
				if bl, ok := x.Values[0].(*ast.BasicLit); ok && bl.Kind == token.STRING && strings.HasSuffix(x.Names[0].Name, "XML") {
					s, err := strconv.Unquote(bl.Value)
					if err == nil {
						vars[x.Names[0].Name] = s
					}
				}
			}
		case *ast.CompositeLit:
			// {"Base", baseXML}
			if len(x.Elts) == 2 {
				if bl, ok := x.Elts[0].(*ast.BasicLit); ok && bl.Kind == token.STRING {
					if id, ok := x.Elts[1].(*ast.Ident); ok && strings.HasSuffix(id.Name, "XML") {
						nm, _ := strconv.Unquote(bl.Value)
						order = append(order, Embedded{Var: id.Name, Name: nm})
					}
				}
			}
		}
		return true
	})
	if len(order) == 0 {
		return nil, fmt.Errorf("no dictionaries table found in %s", path)
	}
	for i := range order {
		x, ok := vars[order[i].Var]
		if !ok {
			return nil, fmt.Errorf("dictionary variable %s not found", order[i].Var)
		}
		order[i].XML = x
	}
	return order, nil
}

// ---- reference resolution model ------------------------------------------------

// Parents is the documented parent relation between applications.
var Parents = map[uint32]uint32{16777251: 4, 16777238: 4, 4: 1}

const AnyVendor = 4294967295

type avpKey struct {
	app    uint32
	code   uint32
	name   string
	vendor uint32
}

type Model struct {
	seq     int
	byCode  map[avpKey]*XAVP
	byName  map[avpKey]*XAVP
	Cmd     map[[2]uint32]*XCmd
	AppCode map[uint32]*XApp
	AppType map[string]*XApp // "id/type"
	Files   []*XFile
	All     []*XAVP
}

func NewModel() *Model {
	return &Model{byCode: map[avpKey]*XAVP{}, byName: map[avpKey]*XAVP{}, Cmd: map[[2]uint32]*XCmd{},
		AppCode: map[uint32]*XApp{}, AppType: map[string]*XApp{}}
}

// Load adds a dictionary; later definitions of the same key win.
func (m *Model) Load(x string) error {
	f, err := Parse(x)
	if err != nil {
		return err
	}
	m.Files = append(m.Files, f)
	for _, a := range f.Apps {
		m.AppCode[a.ID] = a
		m.AppType[fmt.Sprintf("%d/%s", a.ID, a.Type)] = a
		for _, c := range a.Cmds {
			k := [2]uint32{a.ID, c.Code}
			if _, dup := m.Cmd[k]; dup {
				return fmt.Errorf("duplicate command %d in app %d", c.Code, a.ID)
			}
			m.Cmd[k] = c
		}
		for _, v := range a.AVPs {
			m.seq++
			v.Seq = m.seq
			m.All = append(m.All, v)
			m.byCode[avpKey{app: a.ID, code: v.Code, vendor: v.Vendor}] = v
			m.byCode[avpKey{app: a.ID, code: v.Code, vendor: AnyVendor}] = v
			m.byName[avpKey{app: a.ID, name: v.Name, vendor: v.Vendor}] = v
			m.byName[avpKey{app: a.ID, name: v.Name, vendor: AnyVendor}] = v
		}
	}
	return nil
}

// Chain returns the lookup chain for an application: itself, its documented parents, base.
func Chain(app uint32) []uint32 {
	out := []uint32{app}
	for app != 0 {
		p, ok := Parents[app]
		if !ok {
			p = 0
		}
		out = append(out, p)
		app = p
	}
	return out
}

// FindCode resolves (app, code, vendor); vendor AnyVendor is the wildcard.
func (m *Model) FindCode(app, code, vendor uint32) *XAVP {
	for _, a := range Chain(app) {
		if v, ok := m.byCode[avpKey{app: a, code: code, vendor: vendor}]; ok {
			return v
		}
	}
	return nil
}

func (m *Model) FindName(app uint32, name string, vendor uint32) *XAVP {
	for _, a := range Chain(app) {
		if v, ok := m.byName[avpKey{app: a, name: name, vendor: vendor}]; ok {
			return v
		}
	}
	return nil
}

func (m *Model) FindCommand(app, code uint32) *XCmd {
	if c, ok := m.Cmd[[2]uint32{app, code}]; ok {
		return c
	}
	return m.Cmd[[2]uint32{0, code}]
}

// App resolves an application id, optionally with a type.
func (m *Model) App(id uint32, typ ...string) *XApp {
	if len(typ) > 0 {
		if a, ok := m.AppType[fmt.Sprintf("%d/%s", id, typ[0])]; ok {
			return a
		}
	}
	a := m.AppCode[id]
	if a != nil && (a.Type == "" || len(typ) == 0 || a.Type == typ[0]) {
		return a
	}
	return nil
}

// AppIDs lists every application id seen.
func (m *Model) AppIDs() []uint32 {
	var out []uint32
	seen := map[uint32]bool{}
	for _, f := range m.Files {
		for _, a := range f.Apps {
			if !seen[a.ID] {
				seen[a.ID] = true
				out = append(out, a.ID)
			}
		}
	}
	return out
}
