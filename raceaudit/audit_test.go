// Package raceaudit is an assumption audit (wired into bin/check for C07 and C08, see DESIGN 3.6). It runs free-running variants of the Engine B
// scenario bodies (real goroutines, net.Pipe, real time) under `go test -race` to audit the
// assumption that code between two visible operations is atomic, i.e. that the library is
// free of data races on these paths. A cooperative scheduler's hand-offs are happens-before
// edges, so the race detector is blind under vsched; this is the separate pass.
package raceaudit

import (
	"bytes"
	"io"
	"log"
	"net"
	"sync"
	"testing"
	"time"

	"github.com/fiorix/go-diameter/v4/diam"
	"github.com/fiorix/go-diameter/v4/diam/avp"
	"github.com/fiorix/go-diameter/v4/diam/datatype"
	"github.com/fiorix/go-diameter/v4/diam/dict"
	"github.com/fiorix/go-diameter/v4/diam/sm"
)

func init() { log.SetOutput(io.Discard) }

const iterations = 30

func drain(c net.Conn) { go io.Copy(io.Discard, c) }

type pipeListener struct {
	ch     chan net.Conn
	closed chan struct{}
	once   sync.Once
}

func (l *pipeListener) Accept() (net.Conn, error) {
	select {
	case c := <-l.ch:
		return c, nil
	case <-l.closed:
		return nil, io.EOF
	}
}
func (l *pipeListener) Close() error   { l.once.Do(func() { close(l.closed) }); return nil }
func (l *pipeListener) Addr() net.Addr { return &net.TCPAddr{IP: net.IPv4(127, 0, 0, 1), Port: 3868} }

func settings(name string) *sm.Settings {
	return &sm.Settings{OriginHost: datatype.DiameterIdentity(name), OriginRealm: "test", VendorID: 13, ProductName: "p",
		HostIPAddresses: []datatype.Address{datatype.Address(net.ParseIP("10.0.0.1"))}}
}

// three writers on one connection, a retaining reader on the other side
func TestConcurrentWriters(t *testing.T) {
	for it := 0; it < iterations; it++ {
		a, b := net.Pipe()
		drain(b)
		c, err := diam.NewConn(a, "peer", diam.NewServeMux(), dict.Default)
		if err != nil {
			t.Fatal(err)
		}
		var wg sync.WaitGroup
		for w := 0; w < 3; w++ {
			wg.Add(1)
			go func(w int) {
				defer wg.Done()
				for i := 0; i < 5; i++ {
					m := diam.NewRequest(280, 0, dict.Default)
					m.NewAVP(avp.OriginHost, avp.Mbit, 0, datatype.DiameterIdentity(bytes.Repeat([]byte{'a' + byte(w)}, 100+1000*w)))
					m.WriteTo(c)
				}
			}(w)
		}
		wg.Wait()
		c.Close()
		b.Close()
	}
}

// client handshake + watchdog against a state-machine server; CloseNotify from another goroutine; Close
func TestHandshakeWatchdogCloseNotify(t *testing.T) {
	for it := 0; it < iterations; it++ {
		lis := &pipeListener{ch: make(chan net.Conn, 4), closed: make(chan struct{})}
		srvMach := sm.New(settings("srv"))
		var retained []*diam.Message
		var mu sync.Mutex
		srvMach.HandleFunc("RAR", func(c diam.Conn, m *diam.Message) {
			mu.Lock()
			retained = append(retained, m)
			mu.Unlock()
			m.Answer(2001).WriteTo(c)
		})
		srv := &diam.Server{Handler: srvMach, Dict: dict.Default}
		go srv.Serve(lis)
		a, b := net.Pipe()
		lis.ch <- b
		cliMach := sm.New(settings("cli"))
		got := make(chan struct{}, 16)
		cliMach.HandleFunc("RAA", func(c diam.Conn, m *diam.Message) { got <- struct{}{} })
		cli := &sm.Client{Handler: cliMach, Dict: dict.Default, MaxRetransmits: 1, RetransmitInterval: 20 * time.Millisecond,
			EnableWatchdog: true, WatchdogInterval: 10 * time.Millisecond,
			AuthApplicationID: []*diam.AVP{diam.NewAVP(avp.AuthApplicationID, avp.Mbit, 0, datatype.Unsigned32(4))}}
		c, err := cli.NewConn(a, "srv")
		if err != nil {
			t.Fatal(err)
		}
		done := make(chan struct{})
		go func() { <-c.(diam.CloseNotifier).CloseNotify(); close(done) }()
		for i := 0; i < 3; i++ {
			m := diam.NewRequest(258, 0, dict.Default)
			m.NewAVP(avp.OriginHost, avp.Mbit, 0, datatype.DiameterIdentity("cli"))
			m.NewAVP(avp.OriginRealm, avp.Mbit, 0, datatype.DiameterIdentity("test"))
			m.WriteTo(c)
			select {
			case <-got:
			case <-time.After(2 * time.Second):
				t.Fatal("no RAA")
			}
		}
		time.Sleep(25 * time.Millisecond) // a couple of watchdog rounds
		c.Close()
		select {
		case <-done:
		case <-time.After(2 * time.Second):
			t.Fatal("CloseNotify did not fire after Close")
		}
		mu.Lock()
		for _, m := range retained {
			_ = m.String()
		}
		mu.Unlock()
		lis.Close()
	}
}

// two server connections with handlers, messages retained and inspected while traffic continues
func TestServerTwoConnections(t *testing.T) {
	for it := 0; it < iterations; it++ {
		lis := &pipeListener{ch: make(chan net.Conn, 4), closed: make(chan struct{})}
		mux := diam.NewServeMux()
		var mu sync.Mutex
		var kept []*diam.Message
		mux.HandleFunc("ALL", func(c diam.Conn, m *diam.Message) {
			mu.Lock()
			kept = append(kept, m)
			mu.Unlock()
			m.Answer(2001).WriteTo(c)
		})
		go (&diam.Server{Handler: mux, Dict: dict.Default}).Serve(lis)
		go func() {
			for range mux.ErrorReports() {
			}
		}()
		var wg sync.WaitGroup
		for k := 0; k < 2; k++ {
			a, b := net.Pipe()
			lis.ch <- b
			wg.Add(1)
			go func(a net.Conn, k int) {
				defer wg.Done()
				go io.Copy(io.Discard, a)
				for i := 0; i < 5; i++ {
					m := diam.NewRequest(258, 0, dict.Default)
					m.NewAVP(avp.OriginHost, avp.Mbit, 0, datatype.DiameterIdentity("c"))
					m.NewAVP(avp.HostIPAddress, avp.Mbit, 0, datatype.Address(net.ParseIP("10.0.0.9")))
					m.WriteTo(a)
				}
				time.Sleep(5 * time.Millisecond)
				mu.Lock()
				for _, m := range kept {
					_, _ = m.Serialize()
				}
				mu.Unlock()
				a.Close()
			}(a, k)
		}
		wg.Wait()
		lis.Close()
	}
}

// four goroutines dispatch four different commands through one ServeMux (name handlers, an index
// handler and a catch-all registered) while a fifth registers handlers: dispatch state must not be
// shared between concurrent dispatches without synchronisation
func TestConcurrentDispatchDifferentCommands(t *testing.T) {
	mux := diam.NewServeMux()
	var mu sync.Mutex
	wrong := 0
	expect := func(code uint32, req bool) diam.HandlerFunc {
		return func(c diam.Conn, m *diam.Message) {
			if m.Header.CommandCode != code || (m.Header.CommandFlags&0x80 != 0) != req {
				mu.Lock()
				wrong++
				mu.Unlock()
			}
		}
	}
	mux.Handle("CER", expect(257, true))
	mux.Handle("DWA", expect(280, false))
	mux.Handle("DPR", expect(282, true))
	mux.Handle("ACA", expect(271, false))
	mux.HandleIdx(diam.CommandIndex{AppID: 0, Code: 258, Request: true}, expect(258, true))
	mux.HandleFunc("ALL", func(c diam.Conn, m *diam.Message) {
		mu.Lock()
		wrong++
		mu.Unlock()
	})
	go func() {
		for range mux.ErrorReports() {
		}
	}()
	var wg sync.WaitGroup
	for _, k := range []struct {
		code  uint32
		flags uint8
	}{{257, 0x80}, {280, 0}, {282, 0x80}, {271, 0}, {258, 0x80}} {
		wg.Add(1)
		go func(code uint32, flags uint8) {
			defer wg.Done()
			for i := 0; i < 3000; i++ {
				mux.ServeDIAM(nil, diam.NewMessage(code, flags, 0, 1, 1, dict.Default))
			}
		}(k.code, k.flags)
	}
	wg.Add(1)
	go func() {
		defer wg.Done()
		for i := 0; i < 200; i++ {
			mux.HandleFunc("STR", func(diam.Conn, *diam.Message) {})
		}
	}()
	wg.Wait()
	if wrong != 0 {
		t.Errorf("%d dispatches reached a handler registered for another command (or the catch-all)", wrong)
	}
}

// TestConcurrentDecode: what two connections of one server do all the time - decode messages with
// the same dictionary at the same moment, and inspect them. The messages carry AVPs the dictionary
// does not know (fresh codes every time), known AVPs and groups.
func TestConcurrentDecode(t *testing.T) {
	var wg sync.WaitGroup
	for g := 0; g < 4; g++ {
		wg.Add(1)
		go func(g int) {
			defer wg.Done()
			for i := 0; i < 400; i++ {
				m := diam.NewMessage(257, 0x80, 0, uint32(g), uint32(i), dict.Default)
				m.NewAVP(avp.OriginHost, avp.Mbit, 0, datatype.DiameterIdentity("h.example"))
				for k := 0; k < 8; k++ {
					code := uint32(1000000 + g*100000 + i*8 + k)
					m.AddAVP(diam.NewAVP(code, 0, 0, datatype.Unknown([]byte{0, 1, byte(k), 0xff})))
					m.AddAVP(diam.NewAVP(code, avp.Vbit, uint32(7000+k), datatype.Unknown([]byte{byte(i)})))
				}
				m.NewAVP(avp.VendorSpecificApplicationID, avp.Mbit, 0, &diam.GroupedAVP{AVP: []*diam.AVP{
					diam.NewAVP(avp.VendorID, avp.Mbit, 0, datatype.Unsigned32(10415)),
					diam.NewAVP(uint32(2000000+g*100000+i), 0, 0, datatype.Unknown([]byte{9})),
				}})
				b, err := m.Serialize()
				if err != nil {
					t.Error(err)
					return
				}
				r, err := diam.ReadMessage(bytes.NewReader(b), dict.Default)
				if err != nil {
					t.Error(err)
					return
				}
				_ = r.String()
				_ = r.PrettyDump()
				_, _ = r.FindAVP(avp.OriginHost, 0)
				_, _ = r.Serialize()
				var dst struct {
					OriginHost datatype.DiameterIdentity `avp:"Origin-Host"`
				}
				_ = r.Unmarshal(&dst)
			}
		}(g)
	}
	wg.Wait()
}

// TestConcurrentMarshal: several goroutines marshal their own structs into their own messages at
// the same moment (Marshal keeps no state of its own, the statement of C18 holds per call). Each
// result is compared with the values that went in, directly and after a wire round trip.
func TestConcurrentMarshal(t *testing.T) {
	type vsa struct {
		VendorID uint32 `avp:"Vendor-Id"`
		AuthApp  uint32 `avp:"Auth-Application-Id"`
	}
	type src struct {
		OriginHost  datatype.DiameterIdentity `avp:"Origin-Host"`
		OriginRealm string                    `avp:"Origin-Realm"`
		ResultCode  uint32                    `avp:"Result-Code"`
		StateID     uint32                    `avp:"Origin-State-Id"`
		Firmware    uint32                    `avp:"Firmware-Revision"`
		VSA         []vsa                     `avp:"Vendor-Specific-Application-Id"`
	}
	var wg sync.WaitGroup
	var mu sync.Mutex
	bad := ""
	for g := 0; g < 8; g++ {
		wg.Add(1)
		go func(g int) {
			defer wg.Done()
			for i := 0; i < 3000; i++ {
				base := uint32(g*1000000 + i*10)
				in := src{OriginHost: datatype.DiameterIdentity("h" + string(rune('a'+g))), OriginRealm: "r" + string(rune('a'+g)), ResultCode: base + 1, StateID: base + 2, Firmware: base + 3,
					VSA: []vsa{{base + 4, base + 5}, {base + 6, base + 7}}}
				m := diam.NewMessage(257, 0x80, 0, uint32(g), uint32(i), dict.Default)
				if err := m.Marshal(&in); err != nil {
					t.Error(err)
					return
				}
				b, err := m.Serialize()
				if err != nil {
					t.Error(err)
					return
				}
				for _, mm := range []*diam.Message{m, nil} {
					if mm == nil {
						if mm, err = diam.ReadMessage(bytes.NewReader(b), dict.Default); err != nil {
							t.Error(err)
							return
						}
					}
					var out src
					if err := mm.Unmarshal(&out); err != nil {
						t.Error(err)
						return
					}
					if out.OriginHost != in.OriginHost || out.OriginRealm != in.OriginRealm || out.ResultCode != in.ResultCode || out.StateID != in.StateID ||
						out.Firmware != in.Firmware || len(out.VSA) != 2 || out.VSA[0] != in.VSA[0] || out.VSA[1] != in.VSA[1] {
						mu.Lock()
						if bad == "" {
							bad = "marshalled concurrently: a struct came back with values of another goroutine's struct"
						}
						mu.Unlock()
						return
					}
				}
			}
		}(g)
	}
	wg.Wait()
	if bad != "" {
		t.Error(bad)
	}
}

// TestTransportRefusedCER is not a race audit: it replays the refused-CER traces of the C11 model
// (no common application, missing Origin-Host, and an acceptable CER as control) once on a kernel
// TCP socket, the one transport class the in-memory exploration cannot instantiate. The
// observation needs no clock: when the state machine's CER handler returns, the transport of a
// refused peer is closed (any operation on it reports "use of closed network connection") and the
// transport of an accepted peer is not.
func TestTransportRefusedCER(t *testing.T) {
	for _, kind := range []string{"accepted", "no-common-application", "no-origin-host"} {
		ln, err := net.Listen("tcp", "127.0.0.1:0")
		if err != nil {
			t.Skipf("no loopback TCP in this environment: %v", err)
		}
		mach := sm.New(settings("srv"))
		state := make(chan error, 4)
		h := diam.HandlerFunc(func(c diam.Conn, m *diam.Message) {
			mach.ServeDIAM(c, m)
			if m.Header.CommandCode == 257 {
				state <- c.Connection().SetReadDeadline(time.Time{})
			}
		})
		srv := &diam.Server{Handler: h, Dict: dict.Default}
		go srv.Serve(ln)
		p, err := net.Dial("tcp", ln.Addr().String())
		if err != nil {
			t.Fatal(err)
		}
		m := diam.NewRequest(257, 0, dict.Default)
		if kind != "no-origin-host" {
			m.NewAVP(avp.OriginHost, avp.Mbit, 0, datatype.DiameterIdentity("cli"))
		}
		m.NewAVP(avp.OriginRealm, avp.Mbit, 0, datatype.DiameterIdentity("test"))
		m.NewAVP(avp.HostIPAddress, avp.Mbit, 0, datatype.Address(net.ParseIP("10.0.0.2")))
		m.NewAVP(avp.VendorID, avp.Mbit, 0, datatype.Unsigned32(13))
		m.NewAVP(avp.ProductName, 0, 0, datatype.UTF8String("p"))
		if kind == "no-common-application" {
			m.NewAVP(avp.AuthApplicationID, avp.Mbit, 0, datatype.Unsigned32(9999))
		} else {
			m.NewAVP(avp.AuthApplicationID, avp.Mbit, 0, datatype.Unsigned32(4))
		}
		if _, err := m.WriteTo(p); err != nil {
			t.Fatal(err)
		}
		serr := <-state
		if kind == "accepted" && serr != nil {
			t.Errorf("kernel TCP, accepted CER: the transport was closed (%v)", serr)
		}
		if kind != "accepted" && serr == nil {
			t.Errorf("kernel TCP, refused CER (%s): transport left open after a refused CER", kind)
		}
		p.Close()
		ln.Close()
	}
}
