// Package vnet: scripted in-memory transports on top of vsched.
package vnet

import (
	"errors"
	"io"
	"net"
	"time"

	vs "verif/vsched"
)

type Addr struct{ S string }

func (a Addr) Network() string { return "tcp" }
func (a Addr) String() string  { return a.S }

type Conn struct {
	Name    string
	in      [][]byte // fragments, read one at a time (a Read never crosses a fragment boundary)
	eof     bool
	rerr    error
	Closed  bool
	NClose  int
	Out     []byte // everything the library wrote
	OutAt   []time.Duration
	Writes  [][]byte
	Pieces  int // split each write into this many pieces with a scheduling point between
	Local   Addr
	Remote  Addr
	WScript []WOutcome // scripted write outcomes (fault injection)
	ReadPos int
	WriteDelays []time.Duration // virtual time the k-th Write takes before it returns (a slow transport / peer)
	nwrites  int
	// ErrWithData: the Read that hands out the last queued bytes also returns the pending EOF /
	// read error (n > 0 together with err != nil, as io.Reader permits and crypto/tls does)
	ErrWithData bool
	// WriteBlocked: the peer has stopped reading - a Write blocks (after the scheduling point at its
	// start) until Unblock is called or the connection is closed
	WriteBlocked bool
	InWrite      int // number of Write calls currently inside the transport
	rdl, wdl   time.Time // read / write deadline on the virtual clock (zero: none)
	NDeadlines int       // number of Set*Deadline calls
	RerrOnce bool // the pending read error is reported by one Read only (a transient condition such as an expired read deadline)
	// ClosedReadErr: what a Read returns after the local end was closed (default ErrClosed). Real
	// transports differ: net.ErrClosed for sockets, io.ErrClosedPipe for net.Pipe and io.Pipe-backed ones
	ClosedReadErr error
	NilRemote bool // RemoteAddr() returns nil (address not known)
	ClosedAt time.Duration // virtual time of the first Close
	CloseBy  string
}

type WOutcome struct {
	N   int
	Err error
}

func NewConn(name string) *Conn {
	return &Conn{Name: name, Pieces: 2, Local: Addr{"10.1.2.3:3868"}, Remote: Addr{"10.9.9.9:50000"}}
}

// ---- peer side (called from harness/env threads)

func (c *Conn) Deliver(b []byte) {
	if len(b) > 0 {
		c.in = append(c.in, append([]byte{}, b...))
	}
	vs.Touch(c, "deliver")
}
// Unblock lets blocked writes proceed (the peer reads again).
func (c *Conn) Unblock() { c.WriteBlocked = false; vs.Touch(c, "unblock") }

func (c *Conn) PeerEOF()         { c.eof = true; vs.Touch(c, "eof") }
func (c *Conn) PeerErr(e error)  { c.rerr = e; vs.Touch(c, "rerr") }

// WaitOut blocks the calling (env) thread until at least n bytes were written by the library or the conn is closed.
func (c *Conn) WaitOut(n int) bool {
	vs.BlockObj("peer.waitout", c, func() bool { return len(c.Out) >= n || c.Closed })
	return len(c.Out) >= n
}

// ---- net.Conn

var ErrClosed = errors.New("use of closed network connection")

func (c *Conn) Read(p []byte) (int, error) {
	if vs.Aborting() {
		return 0, ErrClosed
	}
	vs.BlockObj("net.read:"+c.Name, c, func() bool { return len(c.in) > 0 || c.eof || c.rerr != nil || c.Closed || expired(c.rdl) })
	if c.Closed {
		if c.ClosedReadErr != nil {
			return 0, c.ClosedReadErr
		}
		return 0, ErrClosed
	}
	if expired(c.rdl) {
		return 0, TimeoutErr{}
	}
	if len(c.in) > 0 {
		n := copy(p, c.in[0])
		if n == len(c.in[0]) {
			c.in = c.in[1:]
		} else {
			c.in[0] = c.in[0][n:]
		}
		h := uint64(n)
		for _, x := range p[:n] {
			h = h*1099511628211 ^ uint64(x)
		}
		vs.Fold(h)
		if c.ErrWithData && len(c.in) == 0 {
			if c.rerr != nil {
				return n, c.rerr
			}
			if c.eof {
				return n, io.EOF
			}
		}
		return n, nil
	}
	if c.rerr != nil {
		e := c.rerr
		if c.RerrOnce {
			c.rerr = nil
		}
		return 0, e
	}
	return 0, io.EOF
}

func (c *Conn) Write(p []byte) (int, error) {
	if vs.Aborting() {
		return 0, ErrClosed
	}
	vs.BlockObj("net.write:"+c.Name, c, func() bool { return true })
	if c.Closed {
		return 0, ErrClosed
	}
	if expired(c.wdl) {
		return 0, TimeoutErr{}
	}
	if c.WriteBlocked {
		c.InWrite++
		vs.Touch(c, "write-blocked")
		vs.BlockObj("net.write.blocked:"+c.Name, c, func() bool { return !c.WriteBlocked || c.Closed || expired(c.wdl) })
		c.InWrite--
		if c.Closed {
			return 0, ErrClosed
		}
		if c.WriteBlocked {
			return 0, TimeoutErr{}
		}
	}
	if c.nwrites < len(c.WriteDelays) && c.WriteDelays[c.nwrites] > 0 {
		d := c.WriteDelays[c.nwrites]
		c.nwrites++
		if !c.wdl.IsZero() {
			// a write deadline that expires while the transport is still stalled cuts the write off
			// half way: part of the data is out, the rest is not, and the caller gets a timeout
			if rem := c.wdl.Sub(vs.TimeNow()); rem < d {
				if rem > 0 {
					vs.TimeSleep(rem)
				}
				if c.Closed {
					return 0, ErrClosed
				}
				k := len(p) / 2
				c.Out = append(c.Out, p[:k]...)
				c.Writes = append(c.Writes, append([]byte(nil), p[:k]...))
				c.OutAt = append(c.OutAt, vs.S.Now)
				return k, TimeoutErr{}
			}
		}
		vs.TimeSleep(d) // the caller stays blocked in Write while virtual time passes
		if c.Closed {
			return 0, ErrClosed
		}
	} else {
		c.nwrites++
	}
	limit := len(p)
	var ferr error
	if len(c.WScript) > 0 {
		o := c.WScript[0]
		c.WScript = c.WScript[1:]
		if o.N < 0 { // -(k+1): index into {0, 1, n/2, n-1, n} bytes accepted of this call
			k := []int{0, 1, limit / 2, limit - 1, limit}[-o.N-1]
			if k < 0 {
				k = 0
			}
			if o.Err != nil {
				limit = k
			}
		} else if o.N < limit {
			limit = o.N
		}
		ferr = o.Err
	}
	pieces := c.Pieces
	if pieces < 1 {
		pieces = 1
	}
	done := 0
	for i := 0; i < pieces && done < limit; i++ {
		end := limit
		if i < pieces-1 {
			end = done + (limit-done+1)/2
		}
		c.Out = append(c.Out, p[done:end]...)
		done = end
		if done < limit {
			vs.BlockObj("net.write.stall:"+c.Name, c, func() bool { return true })
			if c.Closed {
				return done, ErrClosed
			}
		}
	}
	c.Writes = append(c.Writes, append([]byte(nil), p[:done]...))
	c.OutAt = append(c.OutAt, vs.S.Now)
	if ferr != nil {
		return done, ferr
	}
	return done, nil
}

func (c *Conn) Close() error {
	if vs.Aborting() {
		return nil
	}
	vs.BlockObj("net.close:"+c.Name, c, func() bool { return true })
	c.NClose++
	if !c.Closed {
		c.ClosedAt = vs.Now()
		c.CloseBy = vs.CurName()
	}
	c.Closed = true
	vs.Event("transport %s closed by %s", c.Name, "library")
	return nil
}

func (c *Conn) LocalAddr() net.Addr                { return c.Local }
func (c *Conn) RemoteAddr() net.Addr {
	if c.NilRemote {
		return nil // "the remote network address, if known": some transports look it up lazily and fail once the peer is gone
	}
	return c.Remote
}
// Deadlines run on the virtual clock. Setting one arms a wake-up timer at that instant; a Read
// (or Write) that finds its deadline reached - when it is called or while it is blocked - fails
// with a timeout error that, like the real one, says it is temporary.
func (c *Conn) SetDeadline(t time.Time) error {
	c.SetReadDeadline(t)
	return c.SetWriteDeadline(t)
}
func (c *Conn) SetReadDeadline(t time.Time) error {
	c.rdl = t
	c.arm(t)
	return nil
}
func (c *Conn) SetWriteDeadline(t time.Time) error {
	c.wdl = t
	c.arm(t)
	return nil
}

func (c *Conn) arm(t time.Time) {
	if vs.Aborting() {
		return
	}
	c.NDeadlines++
	vs.Touch(c, "deadline")
	if !t.IsZero() {
		if d := t.Sub(vs.TimeNow()); d > 0 {
			vs.TimeAfter(d) // nobody receives from it: it only makes the virtual clock reach the deadline
		}
	}
}

func expired(t time.Time) bool { return !t.IsZero() && !vs.TimeNow().Before(t) }

// TimeoutErr is what a Read or Write past its deadline returns.
type TimeoutErr struct{}

func (TimeoutErr) Error() string   { return "i/o timeout" }
func (TimeoutErr) Timeout() bool   { return true }
func (TimeoutErr) Temporary() bool { return true }
