package vnet

import (
	"errors"
	"net"
	"time"

	vs "verif/vsched"
)

// tempErr is a temporary accept error. Every other one the listener hands out is also a timeout
// (EAGAIN / ETIMEDOUT from accept(2) are both Temporary and Timeout; EMFILE is Temporary only).
type tempErr struct{ timeout bool }

func (e tempErr) Error() string {
	if e.timeout {
		return "accept: resource temporarily unavailable (injected; also a timeout)"
	}
	return "accept: too many open files (injected)"
}
func (e tempErr) Timeout() bool { return e.timeout }
func (tempErr) Temporary() bool { return true }

// AcceptItem is one scripted result of Accept.
type AcceptItem struct {
	Conn *Conn
	Temp bool
	// NetConn, when set, is what Accept returns instead of Conn (a multistream connection over
	// the SCTP backend, a *tls.Conn wrapped around a Conn, ...)
	NetConn net.Conn
}

type Listener struct {
	queue  []AcceptItem
	Closed bool
	NAccepted int
	NTemp     int // temporary accept errors handed out
}

func NewListener() *Listener { return &Listener{} }

// Offer makes a connection (or a temporary error) available to Accept.
func (l *Listener) Offer(it AcceptItem) { l.queue = append(l.queue, it); vs.Touch(l, "offer") }

func (l *Listener) Accept() (net.Conn, error) {
	if vs.Aborting() {
		return nil, errors.New("closed")
	}
	vs.BlockObj("accept", l, func() bool { return len(l.queue) > 0 || l.Closed })
	if l.Closed {
		return nil, errors.New("listener closed")
	}
	it := l.queue[0]
	l.queue = l.queue[1:]
	if it.Temp {
		l.NTemp++
		return nil, tempErr{timeout: l.NTemp%2 == 1}
	}
	l.NAccepted++
	if it.NetConn != nil {
		return it.NetConn, nil
	}
	return it.Conn, nil
}

func (l *Listener) Close() error   { l.Closed = true; vs.Touch(l, "lclose"); return nil }
func (l *Listener) Addr() net.Addr { return Addr{"10.1.2.3:3868"} }

// ---- dialling: the instrumented library's dialer.Dial(network, addr) lands here

// DialRecord is one dial the library made.
type DialRecord struct {
	Network, Addr string
	Timeout       time.Duration
	LocalAddr     net.Addr
}

var (
	DialQueue []net.Conn // what the next dials yield, in order
	Dials     []DialRecord
)

func init() {
	vs.DialFn = func(d interface{}, network, addr string) (net.Conn, error) {
		rec := DialRecord{Network: network, Addr: addr}
		if nd, ok := d.(*net.Dialer); ok {
			rec.Timeout, rec.LocalAddr = nd.Timeout, nd.LocalAddr
		}
		Dials = append(Dials, rec)
		if len(DialQueue) == 0 {
			return nil, errors.New("connection refused")
		}
		c := DialQueue[0]
		DialQueue = DialQueue[1:]
		return c, nil
	}
	vs.OnReset(func() { DialQueue, Dials = nil, nil })
}
