package vnet

import (
	"io"
	"net"

	"github.com/ishidawataru/sctp"
	vs "verif/vsched"
)

// Chunk is one SCTP data chunk as delivered by recvmsg: bytes of exactly one stream.
type Chunk struct {
	Stream uint16
	Data   []byte
}

// SCTPWrite is one recorded SCTPWrite call.
type SCTPWrite struct {
	Stream uint16
	PPID   uint32
	Data   []byte
}

// SCTP is an in-memory backend for diam.SCTPConn (hook: diam.NewSCTPConnBackend). SCTPRead
// returns at most len(b) bytes of the head chunk together with its stream number and keeps
// the remainder at the head: the partial-delivery behaviour of recvmsg on a one-to-one socket.
type SCTP struct {
	Name   string
	in     []Chunk
	eof    bool
	rerr   error
	Closed bool
	WriteBlocked bool // the peer has stopped reading: SCTPWrite blocks
	InWrite      int  // writes currently blocked inside the transport
	DeadReads int // reads answered with the terminal condition (EOF / read error)
	NClose int
	Writes []SCTPWrite
	NoInfo bool // deliver chunks without SndRcvInfo (socket not subscribed to data io events)
	// WFail: the next len(WFail) SCTPWrite calls fail with a temporary error (WFail[i] true) or
	// succeed (false); every call, failed or not, is recorded in Attempts with its stream.
	WFail    []bool
	Attempts []SCTPWrite
	// WHook, when set, decides the outcome of each SCTPWrite: accept < len(b) together with temp
	// means "accept bytes were taken, then a temporary error" (the accepted part is recorded).
	WHook func(b []byte, stream uint16) (accept int, temp bool)
	// DataErrOnce: the next read that hands out data returns it WITHOUT stream information and
	// together with this error, once (the shape sctp.SCTPRead has when the ancillary data of a
	// received chunk cannot be parsed: n > 0, info == nil, err != nil)
	DataErrOnce error
}

// TempErr is a temporary net.Error.
type TempErr struct{}

func (TempErr) Error() string   { return "temporary write error" }
func (TempErr) Timeout() bool   { return false }
func (TempErr) Temporary() bool { return true }

func NewSCTP(name string) *SCTP { return &SCTP{Name: name} }

func (s *SCTP) Deliver(stream uint16, b []byte) {
	if len(b) > 0 {
		s.in = append(s.in, Chunk{stream, append([]byte{}, b...)})
	}
	vs.Touch(s, "sctp.deliver")
}
// DeliverEmpty queues an empty read: SCTPRead answers it with (0, info of that stream, nil).
func (s *SCTP) DeliverEmpty(stream uint16) {
	s.in = append(s.in, Chunk{stream, []byte{}})
	vs.Touch(s, "sctp.deliver")
}
func (s *SCTP) PeerEOF()        { s.eof = true; vs.Touch(s, "sctp.eof") }
func (s *SCTP) PeerErr(e error) { s.rerr = e; vs.Touch(s, "sctp.rerr") }

func (s *SCTP) SCTPRead(b []byte) (int, *sctp.SndRcvInfo, error) {
	if vs.Aborting() {
		return 0, nil, ErrClosed
	}
	vs.BlockObj("sctp.read:"+s.Name, s, func() bool { return len(s.in) > 0 || s.eof || s.rerr != nil || s.Closed })
	if s.Closed {
		return 0, nil, ErrClosed
	}
	if len(s.in) > 0 {
		c := &s.in[0]
		n := copy(b, c.Data)
		st := c.Stream
		if n == len(c.Data) {
			s.in = s.in[1:]
		} else {
			c.Data = c.Data[n:]
		}
		h := uint64(st)
		for _, x := range b[:n] {
			h = h*1099511628211 ^ uint64(x)
		}
		vs.Fold(h)
		if s.DataErrOnce != nil {
			e := s.DataErrOnce
			s.DataErrOnce = nil
			return n, nil, e
		}
		if s.NoInfo {
			return n, nil, nil
		}
		return n, &sctp.SndRcvInfo{Stream: st}, nil
	}
	// the association is gone: a reader that keeps coming back for more is polling a dead socket
	// (a livelock in real time); after a few such reads the caller is parked until Close, so the
	// execution ends and the checks can see DeadReads
	s.DeadReads++
	if s.DeadReads > 8 {
		vs.BlockObj("sctp.read.polling-a-dead-association:"+s.Name, s, func() bool { return s.Closed })
		return 0, nil, ErrClosed
	}
	if s.rerr != nil {
		return 0, nil, s.rerr
	}
	return 0, nil, io.EOF
}

func (s *SCTP) SCTPWrite(b []byte, info *sctp.SndRcvInfo) (int, error) {
	if vs.Aborting() {
		return 0, ErrClosed
	}
	vs.BlockObj("sctp.write:"+s.Name, s, func() bool { return true })
	if s.Closed {
		return 0, ErrClosed
	}
	if s.WriteBlocked {
		// the peer has stopped reading: the send blocks until it reads again or the association is closed
		s.InWrite++
		vs.Touch(s, "write-blocked")
		vs.BlockObj("sctp.write.blocked:"+s.Name, s, func() bool { return !s.WriteBlocked || s.Closed })
		s.InWrite--
		if s.Closed {
			return 0, ErrClosed
		}
	}
	w := SCTPWrite{Data: append([]byte{}, b...)}
	if info != nil {
		w.Stream, w.PPID = info.Stream, info.PPID
	}
	s.Attempts = append(s.Attempts, w)
	if s.WHook != nil {
		if k, temp := s.WHook(b, w.Stream); temp {
			if k > 0 {
				w.Data = w.Data[:k]
				s.Writes = append(s.Writes, w)
			}
			return k, TempErr{}
		}
	}
	if len(s.WFail) > 0 {
		fail := s.WFail[0]
		s.WFail = s.WFail[1:]
		if fail {
			return 0, TempErr{}
		}
	}
	s.Writes = append(s.Writes, w)
	return len(b), nil
}

func (s *SCTP) Close() error {
	if vs.Aborting() {
		return nil
	}
	vs.BlockObj("sctp.close:"+s.Name, s, func() bool { return true })
	s.NClose++
	s.Closed = true
	return nil
}

func (s *SCTP) LocalAddr() net.Addr  { return Addr{"10.1.2.3:3868"} }
func (s *SCTP) RemoteAddr() net.Addr { return Addr{"10.9.9.9:50000"} }
