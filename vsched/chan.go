package vsched

import (
	"time"
)

// ---------------------------------------------------------------- channels

type chanCore struct {
	id     int
	cap    int
	closed bool
	n      int // buffered count (values kept in typed wrapper)
	epoch  uint64
}

func (c *chanCore) chanID() int { return c.id }

type Chan[T any] struct {
	chanCore
	buf   []T
	timer *timer // set for timer channels
	ephemeral bool
}

func NewChan[T any](n int) *Chan[T] {
	nextChanID++
	return &Chan[T]{chanCore: chanCore{id: nextChanID, cap: n, epoch: runEpoch}}
}

// fresh clears what an earlier execution left in a channel that outlives executions
// (package-level channels such as the default mux's error-report channel).
func (c *Chan[T]) fresh() {
	if c.epoch != runEpoch {
		c.epoch = runEpoch
		c.buf = nil
		c.closed = false
	}
}

var nextChanID int

// touchPartner: a hand-off changed a parked partner's pending result; fold the channel
// history into every thread that currently holds a deposited result from this channel.
func touchPartner(ch chanLike) {
	for _, t := range S.threads {
		if t.hasRes && !t.done {
			t.h = mix(t.h, S.objH[ch], 31)
		}
	}
}

// parked waiters on a channel (other than self)
func parkedOn(ch chanLike, send bool, self *Thread) (*Thread, *chanWait) {
	for _, t := range S.threads {
		if t == self || t.done || t.op == nil || t.hasRes {
			continue
		}
		for i := range t.op.waits {
			w := &t.op.waits[i]
			if w.ch == ch && w.send == send {
				return t, w
			}
		}
	}
	return nil, nil
}

func (c *Chan[T]) sendReady(self *Thread) bool {
	c.fresh()
	if c.closed {
		return true // will panic
	}
	if len(c.buf) < c.cap {
		return true
	}
	t, _ := parkedOn(c, false, self)
	return t != nil
}

func (c *Chan[T]) recvReady(self *Thread) bool {
	c.fresh()
	if len(c.buf) > 0 || c.closed {
		return true
	}
	t, _ := parkedOn(c, true, self)
	return t != nil
}

// doSend performs a ready send by thread self.
func (c *Chan[T]) doSend(self *Thread, v T) {
	if c.closed {
		panic("send on closed channel")
	}
	// direct hand-off to a parked receiver if buffer empty
	if len(c.buf) == 0 {
		if t, w := parkedOn(c, false, self); t != nil {
			t.res = selResult{idx: w.idx, val: v, ok: true}
			t.hasRes = true
			return
		}
	}
	if len(c.buf) < c.cap {
		c.buf = append(c.buf, v)
		return
	}
	panic("vsched: doSend on non-ready channel")
}

func (c *Chan[T]) doRecv(self *Thread) (T, bool) {
	var zero T
	if len(c.buf) > 0 {
		v := c.buf[0]
		c.buf = c.buf[1:]
		// a parked sender can now move its value into the buffer
		if t, w := parkedOn(c, true, self); t != nil && !c.closed {
			c.buf = append(c.buf, w.val.(T))
			t.res = selResult{idx: w.idx}
			t.hasRes = true
		}
		return v, true
	}
	if t, w := parkedOn(c, true, self); t != nil && !c.closed {
		v := w.val.(T)
		t.res = selResult{idx: w.idx}
		t.hasRes = true
		return v, true
	}
	if c.closed {
		return zero, false
	}
	panic("vsched: doRecv on non-ready channel")
}

func (c *Chan[T]) Send(v T) {
	if Aborting() {
		return
	}
	self := S.cur
	if c == nil {
		S.point(&Op{Kind: "send-nil", Enabled: func() bool { return false }})
		return
	}
	// phase 1: the instant the operation executes (not yet visible to partners)
	S.point(&Op{Kind: "send", Obj: c, Enabled: func() bool { return true }})
	if !c.sendReady(self) {
		// phase 2: blocked inside the send, visible as a waiting sender
		op := &Op{Kind: "send.wait", Obj: c, waits: []chanWait{{ch: c, send: true, idx: 0, val: v}}}
		op.Enabled = func() bool { return self.hasRes || c.sendReady(self) }
		S.point(op)
		if self.hasRes { // a receiver took the value while we were parked
			self.hasRes = false
			return
		}
	}
	c.doSend(self, v)
	touchPartner(c)
}

func (c *Chan[T]) Recv2() (T, bool) {
	var zero T
	if Aborting() {
		return zero, false
	}
	self := S.cur
	if c == nil {
		S.point(&Op{Kind: "recv-nil", Enabled: func() bool { return false }})
		return zero, false
	}
	S.point(&Op{Kind: "recv", Obj: c, Enabled: func() bool { return true }})
	if !c.recvReady(self) {
		op := &Op{Kind: "recv.wait", Obj: c, waits: []chanWait{{ch: c, send: false, idx: 0}}}
		op.Enabled = func() bool { return self.hasRes || c.recvReady(self) }
		S.point(op)
		if self.hasRes {
			self.hasRes = false
			return self.res.val.(T), self.res.ok
		}
	}
	defer touchPartner(c)
	return c.doRecv(self)
}

func (c *Chan[T]) Recv() T { v, _ := c.Recv2(); return v }

func Close[T any](c *Chan[T]) {
	if Aborting() {
		return
	}
	BlockObj("close", c, func() bool { return true })
	if c == nil {
		panic("close of nil channel")
	}
	c.fresh()
	if c.closed {
		panic("close of closed channel")
	}
	c.closed = true
}

// ---------------------------------------------------------------- select

type Case struct {
	ch      chanLike
	send    bool
	val     interface{}
	ready   func(self *Thread) bool
	doSend  func(self *Thread)
	doRecv  func(self *Thread) (interface{}, bool)
	cancel  func()
	isNil   bool
}

type Result struct {
	val interface{}
	ok  bool
}

func SendCase[T any](c *Chan[T], v T) Case {
	if c == nil {
		return Case{isNil: true}
	}
	return Case{ch: c, send: true, val: v,
		ready:  func(self *Thread) bool { return c.sendReady(self) },
		doSend: func(self *Thread) { c.doSend(self, v) }}
}

func RecvCase[T any](c *Chan[T]) Case {
	if c == nil {
		return Case{isNil: true}
	}
	cs := Case{ch: c,
		ready:  func(self *Thread) bool { return c.recvReady(self) },
		doRecv: func(self *Thread) (interface{}, bool) { v, ok := c.doRecv(self); return v, ok }}
	if c.ephemeral && c.timer != nil {
		tm := c.timer
		cs.cancel = func() { tm.cancelled = true }
	}
	return cs
}

func Select(hasDefault bool, cases ...Case) (int, Result) {
	if Aborting() {
		return -1, Result{}
	}
	self := S.cur
	readyList := func() []int {
		var r []int
		for i, cs := range cases {
			if !cs.isNil && cs.ready(self) {
				r = append(r, i)
			}
		}
		return r
	}
	peek := func() {
		for _, cs := range cases {
			if !cs.isNil {
				S.touch(self, cs.ch, "peek")
			}
		}
	}
	finish := func(chosen int) {
		for i, cs := range cases {
			if i != chosen && cs.cancel != nil {
				cs.cancel()
			}
		}
	}
	// phase 1: the instant the select executes
	S.point(&Op{Kind: "select", Enabled: func() bool { return true }})
	peek()
	r := readyList()
	if len(r) == 0 {
		if hasDefault {
			finish(-1)
			return -1, Result{}
		}
		// phase 2: blocked inside the select, visible as a waiting partner on every case
		op := &Op{Kind: "select.wait"}
		for i, cs := range cases {
			if !cs.isNil {
				op.waits = append(op.waits, chanWait{ch: cs.ch, send: cs.send, idx: i, val: cs.val})
			}
		}
		op.Enabled = func() bool { return self.hasRes || len(readyList()) > 0 }
		S.point(op)
		peek()
		if self.hasRes { // completed by a partner
			self.hasRes = false
			finish(self.res.idx)
			return self.res.idx, Result{self.res.val, self.res.ok}
		}
		r = readyList()
	}
	k := r[S.choose(len(r), "select")]
	cs := cases[k]
	finish(k)
	S.touch(self, cs.ch, "sel")
	defer touchPartner(cs.ch)
	if cs.send {
		cs.doSend(self)
		return k, Result{}
	}
	v, ok := cs.doRecv(self)
	return k, Result{v, ok}
}

func SelRecv[T any](c *Chan[T], r Result) T {
	if r.val == nil {
		var z T
		return z
	}
	return r.val.(T)
}

func SelRecv2[T any](c *Chan[T], r Result) (T, bool) { return SelRecv(c, r), r.ok }

// ---------------------------------------------------------------- time

var epoch = time.Date(2026, 1, 1, 0, 0, 0, 0, time.UTC)

func TimeNow() time.Time {
	if S == nil {
		return epoch
	}
	return epoch.Add(S.Now)
}

func timeAfter(d time.Duration, eph bool) *Chan[time.Time] {
	c := NewChan[time.Time](1)
	if Aborting() {
		return c
	}
	tm := &timer{id: len(S.timers), deadline: S.Now + d}
	if S.KeepTrace {
		tm.label = S.curName() + "/" + d.String()
	}
	tm.fire = func() {
		if len(c.buf) < c.cap {
			c.buf = append(c.buf, epoch.Add(S.Now))
		}
		if S.objH == nil {
			S.objH = map[interface{}]uint64{}
		}
		S.objH[chanLike(c)] = mix(S.objH[chanLike(c)]+1, 9999, uint64(tm.id))
	}
	c.timer = tm
	c.ephemeral = eph
	S.timers = append(S.timers, tm)
	return c
}

func TimeAfter(d time.Duration) *Chan[time.Time]          { return timeAfter(d, false) }
func TimeAfterEphemeral(d time.Duration) *Chan[time.Time] { return timeAfter(d, true) }
func TimeSleep(d time.Duration)                           { timeAfter(d, false).Recv() }

// IsClosed reports whether the channel was closed (harness inspection only).
func (c *Chan[T]) IsClosed() bool { return c != nil && c.closed }

// Len reports the number of buffered values (harness inspection only).
func (c *Chan[T]) Len() int { return len(c.buf) }

// TimeSince mirrors time.Since on the virtual clock.
func TimeSince(t time.Time) time.Duration { return TimeNow().Sub(t) }

// Timer mirrors time.Timer on the virtual clock.
type Timer struct {
	C  *Chan[time.Time]
	tm *timer
	f  func()
}

func TimeNewTimer(d time.Duration) *Timer {
	c := timeAfter(d, false)
	return &Timer{C: c, tm: c.timer}
}

// TimeAfterFunc runs f in its own thread once the virtual clock reaches the deadline.
func TimeAfterFunc(d time.Duration, f func()) *Timer {
	t := &Timer{f: f}
	if Aborting() {
		return t
	}
	tm := &timer{id: len(S.timers), deadline: S.Now + d, label: S.curName() + "/afterfunc/" + d.String()}
	tm.fire = func() { GoNamed("afterfunc", false, f) }
	t.tm = tm
	S.timers = append(S.timers, tm)
	return t
}

func (t *Timer) Stop() bool {
	if t.tm == nil || Aborting() {
		return false
	}
	active := !t.tm.fired && !t.tm.cancelled
	t.tm.cancelled = true
	Touch(t, "timer.stop")
	return active
}

func (t *Timer) Reset(d time.Duration) bool {
	active := t.Stop()
	if Aborting() {
		return active
	}
	if t.f != nil {
		*t = *TimeAfterFunc(d, t.f)
		return active
	}
	old := t.C
	tm := &timer{id: len(S.timers), deadline: S.Now + d, label: S.curName() + "/reset/" + d.String()}
	tm.fire = func() {
		if len(old.buf) < old.cap {
			old.buf = append(old.buf, epoch.Add(S.Now))
		}
		S.objH[chanLike(old)] = mix(S.objH[chanLike(old)]+1, 9999, uint64(tm.id))
	}
	if S.objH == nil {
		S.objH = map[interface{}]uint64{}
	}
	t.tm = tm
	old.timer = tm
	S.timers = append(S.timers, tm)
	return active
}

// Ticker mirrors time.Ticker (each tick re-arms the next one).
type Ticker struct {
	C    *Chan[time.Time]
	stop bool
}

func TimeNewTicker(d time.Duration) *Ticker {
	tk := &Ticker{C: NewChan[time.Time](1)}
	if Aborting() {
		return tk
	}
	if S.objH == nil {
		S.objH = map[interface{}]uint64{}
	}
	var arm func()
	arm = func() {
		tm := &timer{id: len(S.timers), deadline: S.Now + d, label: "ticker/" + d.String()}
		tm.fire = func() {
			if tk.stop {
				return
			}
			if len(tk.C.buf) < tk.C.cap {
				tk.C.buf = append(tk.C.buf, epoch.Add(S.Now))
			}
			S.objH[chanLike(tk.C)] = mix(S.objH[chanLike(tk.C)]+1, 9998, uint64(tm.id))
			arm()
		}
		S.timers = append(S.timers, tm)
	}
	arm()
	return tk
}

func (t *Ticker) Stop() { t.stop = true; Touch(t, "ticker.stop") }

func TimeTick(d time.Duration) *Chan[time.Time] { return TimeNewTicker(d).C }
