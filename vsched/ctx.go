package vsched

import (
	"context"
	"time"
)

// Context support for instrumented code. context.Context keeps its standard type (applications
// and un-instrumented packages see ordinary contexts), but cancellation becomes visible to the
// scheduler: the instrumenter rewrites context.WithCancel / WithTimeout / WithDeadline into the
// functions below and a receive from ctx.Done() into a receive from CtxDone(ctx), a scheduler
// channel that is closed when the context - or an ancestor created here - is cancelled or its
// deadline passes on the VIRTUAL clock.

type ctxKey struct{}

type ctxEntry struct {
	ch       *Chan[struct{}]
	done     bool
	children []*ctxEntry
	real     context.CancelFunc
}

var ctxNever *Chan[struct{}]

func (e *ctxEntry) cancel() {
	if e.done {
		return
	}
	e.done = true
	Close(e.ch)
	if e.real != nil {
		e.real()
	}
	for _, c := range e.children {
		c.cancel()
	}
}

func ctxNew(parent context.Context) (context.Context, *ctxEntry) {
	e := &ctxEntry{ch: NewChan[struct{}](0)}
	var pe *ctxEntry
	if parent != nil {
		pe, _ = parent.Value(ctxKey{}).(*ctxEntry)
	}
	real, rc := context.WithCancel(context.WithValue(parent, ctxKey{}, e))
	e.real = rc
	switch {
	case parent != nil && parent.Err() != nil:
		// the parent (possibly an ordinary context made by un-instrumented code) is over already
		e.cancel()
	case pe != nil && pe.done:
		e.cancel()
	case pe != nil:
		pe.children = append(pe.children, e)
	}
	return real, e
}

// CtxWithCancel replaces context.WithCancel.
func CtxWithCancel(parent context.Context) (context.Context, context.CancelFunc) {
	ctx, e := ctxNew(parent)
	return ctx, func() { e.cancel() }
}

// CtxWithTimeout replaces context.WithTimeout: the deadline is on the virtual clock.
func CtxWithTimeout(parent context.Context, d time.Duration) (context.Context, context.CancelFunc) {
	ctx, e := ctxNew(parent)
	if !e.done {
		if d <= 0 {
			e.cancel()
		} else {
			t := TimeAfterFunc(d, func() { e.cancel() })
			return ctx, func() { t.Stop(); e.cancel() }
		}
	}
	return ctx, func() { e.cancel() }
}

// CtxWithDeadline replaces context.WithDeadline (the time is read against the virtual clock).
func CtxWithDeadline(parent context.Context, at time.Time) (context.Context, context.CancelFunc) {
	return CtxWithTimeout(parent, at.Sub(TimeNow()))
}

// CtxDone replaces ctx.Done() where the library receives from it.
func CtxDone(ctx context.Context) *Chan[struct{}] {
	if ctx != nil {
		if e, ok := ctx.Value(ctxKey{}).(*ctxEntry); ok {
			return e.ch
		}
	}
	if ctxNever == nil {
		ctxNever = NewChan[struct{}](0)
		OnReset(func() { ctxNever = nil })
	}
	return ctxNever
}
