package vsched

import (
	"fmt"
	"time"
)

// Explorer enumerates, depth first, every schedule of Body up to a preemption bound.
type Explorer struct {
	Bound   int // preemption bound; Unbounded for none
	Horizon time.Duration
	Body    func()
	Check   func(s *Sched) string // "" if the execution satisfies the property
	Outcome func(s *Sched) string // optional: coarse outcome label (vacuity guard)
	NoCache bool                  // explore without happens-before state caching (validation runs)

	// sharding of the level-2 subtrees: this process explores the jobs with index = Shard mod NShards
	Shard, NShards int
	jobIdx         int

	// budget
	Deadline  time.Time // zero = none
	MaxExecs  int       // 0 = none
	TimedOut  bool

	Execs     int
	Steps     int
	MaxDepth  int
	Capped    int
	Pruned    int
	States    int
	Outcomes  map[string]int
	Terminal  map[uint64]int // terminal signatures (cache validation)
	Violation string
	VChoices  []int

	cache    map[uint64]int // signature -> largest remaining budget it was expanded with
	topCache map[uint64]int // same, for the unsharded top levels (identical in every shard)
}

const Unbounded = 1 << 20

func (e *Explorer) noCur() bool { return e.Bound >= Unbounded }

// Run explores the whole space (or this shard's part of it).
func (e *Explorer) Run() {
	e.cache = map[uint64]int{}
	e.topCache = map[uint64]int{}
	e.Outcomes = map[string]int{}
	e.Terminal = map[uint64]int{}
	if e.NShards <= 1 {
		e.explore(nil, 2)
		return
	}
	e.explore(nil, 0)
}

func (e *Explorer) outOfBudget() bool {
	if e.TimedOut {
		return true
	}
	if (e.MaxExecs > 0 && e.Execs >= e.MaxExecs) || (!e.Deadline.IsZero() && e.Execs%64 == 0 && time.Now().After(e.Deadline)) {
		e.TimedOut = true
	}
	return e.TimedOut
}

// explore runs the execution identified by prefix and expands every alternative after it.
// level 0 and 1 are the unsharded top of the tree (every shard runs them identically, only
// shard 0 counts them); from level 2 on a subtree belongs to exactly one shard.
func (e *Explorer) explore(prefix []int, level int) {
	if e.Violation != "" || e.outOfBudget() {
		return
	}
	counted := level >= 2 || e.Shard == 0
	s := Run(prefix, false, e.Horizon, e.noCur(), e.Body)
	if s.Diverged != "" {
		s.Teardown()
		panic("vsched: replay divergence (nondeterminism not owned by the scheduler): " + s.Diverged)
	}
	v := e.Check(s)
	if counted {
		e.Execs++
		e.Steps += len(s.Points)
		if len(s.Points) > e.MaxDepth {
			e.MaxDepth = len(s.Points)
		}
		if s.Capped {
			e.Capped++
		}
		if e.Outcome != nil {
			e.Outcomes[e.Outcome(s)]++
		}
		e.Terminal[s.signature()]++
	}
	points := s.Points
	choices := s.Choices()
	s.Teardown()
	if v != "" {
		e.Violation = v
		e.VChoices = choices
		return
	}
	cache := e.cache
	if level < 2 {
		cache = e.topCache
	}
	cost := 0
	for i := 0; i < len(points); i++ {
		p := points[i]
		if i >= len(prefix) {
			if !e.NoCache {
				rem := e.Bound - cost
				if old, ok := cache[p.Sig]; ok && old >= rem {
					if counted {
						e.Pruned++
					}
					break
				}
				if level >= 2 {
					if old, ok := e.topCache[p.Sig]; ok && old >= rem {
						e.Pruned++
						break
					}
				}
				if _, ok := cache[p.Sig]; !ok && counted {
					e.States++
				}
				cache[p.Sig] = rem
			} else if counted {
				e.States++
			}
			for alt := 1; alt < p.NEnabled; alt++ {
				c := cost
				if p.CurEnabled && !p.Free(alt) && !p.Free(0) {
					c++
				}
				if c > e.Bound {
					continue
				}
				np := append(append(make([]int, 0, i+1), choices[:i]...), alt)
				if level < 2 {
					if level == 1 {
						// a level-2 subtree: one job
						mine := e.jobIdx%e.NShards == e.Shard
						e.jobIdx++
						if !mine {
							continue
						}
					}
					e.explore(np, level+1)
				} else {
					e.explore(np, level+1)
				}
				if e.Violation != "" || e.TimedOut {
					return
				}
			}
		}
		if p.Chosen != 0 && p.CurEnabled && !p.Free(p.Chosen) && !p.Free(0) {
			cost++
		}
	}
}

// Replay runs one recorded schedule with tracing and returns the scheduler (not torn down).
func Replay(choices []int, horizon time.Duration, noCur bool, body func()) *Sched {
	return Run(choices, true, horizon, noCur, body)
}

func (e *Explorer) Summary() string {
	return fmt.Sprintf("execs=%d steps=%d states=%d pruned=%d maxdepth=%d capped=%d outcomes=%d timedout=%v",
		e.Execs, e.Steps, e.States, e.Pruned, e.MaxDepth, e.Capped, len(e.Outcomes), e.TimedOut)
}
