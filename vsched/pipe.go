package vsched

import "io"

// Pipe models io.Pipe: Write blocks until the data is consumed or the pipe is closed.
type pipe struct {
	data    []byte
	writing bool
	werr    error // set by writer close
	rerr    error // set by reader close
}

type PipeReader struct{ p *pipe }
type PipeWriter struct{ p *pipe }

func Pipe() (*PipeReader, *PipeWriter) {
	p := &pipe{}
	return &PipeReader{p}, &PipeWriter{p}
}

func (r *PipeReader) Read(b []byte) (int, error) {
	if Aborting() {
		return 0, io.ErrClosedPipe
	}
	p := r.p
	BlockObj("pipe.read", p, func() bool { return len(p.data) > 0 || p.werr != nil || p.rerr != nil })
	if p.rerr != nil {
		return 0, io.ErrClosedPipe
	}
	if len(p.data) > 0 {
		n := copy(b, p.data)
		p.data = p.data[n:]
		return n, nil
	}
	return 0, p.werr
}

func (r *PipeReader) Close() error { return r.CloseWithError(nil) }

func (r *PipeReader) CloseWithError(err error) error {
	if Aborting() {
		return nil
	}
	if err == nil {
		err = io.ErrClosedPipe
	}
	if r.p.rerr == nil {
		r.p.rerr = err
	}
	Touch(r.p, "pipe.rclose")
	return nil
}

func (w *PipeWriter) Write(b []byte) (int, error) {
	if Aborting() {
		return 0, io.ErrClosedPipe
	}
	p := w.p
	BlockObj("pipe.write", p, func() bool { return !p.writing })
	if p.werr != nil {
		return 0, io.ErrClosedPipe
	}
	if p.rerr != nil {
		return 0, p.rerr
	}
	if len(b) == 0 {
		return 0, nil
	}
	p.writing = true
	p.data = b
	BlockObj("pipe.write.wait", p, func() bool { return len(p.data) == 0 || p.rerr != nil || p.werr != nil })
	n := len(b) - len(p.data)
	p.data = nil
	p.writing = false
	if n < len(b) {
		if p.rerr != nil {
			return n, p.rerr
		}
		return n, io.ErrClosedPipe
	}
	return n, nil
}

func (w *PipeWriter) Close() error { return w.CloseWithError(nil) }

func (w *PipeWriter) CloseWithError(err error) error {
	if Aborting() {
		return nil
	}
	if err == nil {
		err = io.EOF
	}
	if w.p.werr == nil {
		w.p.werr = err
	}
	Touch(w.p, "pipe.wclose")
	return nil
}
