// Package vsched is a cooperative scheduler and stateless model checker for Go code whose
// synchronisation (sync, channels, select, go, timers, pipes, transports) has been routed
// through the shims of this package by cmd/instrument. One execution runs the real code under
// a choice sequence; the Explorer enumerates all choice sequences up to a preemption bound.
package vsched

import (
	"fmt"
	"runtime"
	"sort"
	"strings"
	"time"
)

var _ = sort.Strings

// ---------------------------------------------------------------- threads

type Thread struct {
	ID      int
	UID     uint64 // stable across linearisations: hash of (parent UID, spawn index)
	Name    string
	Env     bool // environment thread (peer, harness): switching to/from it is not a preemption
	wake    chan struct{}
	op      *Op
	done    bool
	started bool
	Panic   interface{}
	PanicAt string
	res     selResult // result deposited by a partner (rendezvous)
	hasRes  bool
	nops    int
	nspawn  int
	h       uint64
}

// Op is a pending visible operation.
type Op struct {
	Kind    string
	Obj     interface{}
	Enabled func() bool
	waits   []chanWait // channel waiting info (for rendezvous partner lookup)
	kh      uint64
}

type chanWait struct {
	ch   chanLike
	send bool
	idx  int         // select case index
	val  interface{} // value to send
}

type chanLike interface{ chanID() int }

type selResult struct {
	idx int
	val interface{}
	ok  bool
}

// ---------------------------------------------------------------- scheduler

type Point struct {
	Sig        uint64
	NEnabled   int
	Chosen     int
	CurEnabled bool // the library thread that ran last is still enabled (alternative 0)
	Labels     []string
	FreeMask   uint64 // bit i set: alternative i is free (env thread / timer / internal choice); alternatives >= 64 count as free
}

// Free reports whether alternative i is free.
func (p *Point) Free(i int) bool { return i >= 64 || p.FreeMask&(1<<uint(i)) != 0 }

type timer struct {
	id        int
	deadline  time.Duration
	fire      func()
	fired     bool
	cancelled bool
	label     string
}

type Sched struct {
	threads   []*Thread
	cur       *Thread
	lastLib   *Thread // last library (non-env) thread that ran: preemptions are counted against it
	yield     chan struct{}
	prefix    []int
	Points    []Point
	Trace     []string
	Now       time.Duration
	timers    []*timer
	aborting  bool
	MaxSteps  int
	Fatals    []string
	Capped    bool
	Horizon   time.Duration
	EndTime   time.Duration
	Diverged  string
	KeepTrace bool
	KeepLabels bool
	objH      map[interface{}]uint64
	NoCurSig  bool // leave the running thread out of state signatures (unbounded search)
	Steps     int
	tsBuf     []transition
}

func mix(h uint64, vs ...uint64) uint64 {
	for _, v := range vs {
		h ^= v
		h *= 1099511628211
		h ^= h >> 29
	}
	return h
}

func hstr(s string) uint64 {
	h := uint64(14695981039346656037)
	for i := 0; i < len(s); i++ {
		h ^= uint64(s[i])
		h *= 1099511628211
	}
	return h
}

// Touch records that the running thread performed an operation on obj (used by shims and by
// environment code that mutates shared state between its own scheduling points).
func Touch(obj interface{}, kind string) {
	if S == nil || S.aborting || S.cur == nil {
		return
	}
	S.touch(S.cur, obj, kind)
}

// Fold mixes a value produced by the environment (e.g. bytes read) into the running thread's
// history, so that state signatures distinguish executions that read different data.
func Fold(v uint64) {
	if S == nil || S.aborting || S.cur == nil {
		return
	}
	S.cur.h = mix(S.cur.h, v, 77)
}

func (s *Sched) touch(t *Thread, obj interface{}, kind string) {
	if s.objH == nil {
		s.objH = map[interface{}]uint64{}
	}
	ho := uint64(0)
	if obj != nil {
		ho = mix(s.objH[obj]+1, t.UID, uint64(t.nops))
		s.objH[obj] = ho
	}
	kh, ok := kindHashes[kind]
	if !ok {
		kh = hstr(kind)
		kindHashes[kind] = kh
	}
	t.h = mix(t.h+1, kh, ho)
}

func (s *Sched) signature() uint64 {
	// per-thread contributions are combined commutatively (sum), so the signature does not
	// depend on thread creation order and no sorting is needed
	var sum uint64
	for _, t := range s.threads {
		d := uint64(0)
		if t.done {
			d = 1
		}
		pend := uint64(0)
		if t.op != nil {
			pend = t.op.kindHash()
		}
		if t.hasRes {
			pend ^= 0x5555
		}
		sum += mix(t.UID, t.h, d, pend)
	}
	h := mix(7, sum, uint64(s.Now))
	for _, tm := range s.timers {
		st := uint64(0)
		if tm.fired {
			st = 1
		} else if tm.cancelled {
			st = 2
		}
		h = mix(h, uint64(tm.deadline), st)
	}
	if !s.NoCurSig && s.lastLib != nil && !s.lastLib.done {
		h = mix(h, s.lastLib.UID+100)
	}
	return h
}

var kindHashes = map[string]uint64{}

func (o *Op) kindHash() uint64 {
	if o.kh == 0 {
		h, ok := kindHashes[o.Kind]
		if !ok {
			h = hstr(o.Kind)
			kindHashes[o.Kind] = h
		}
		o.kh = h
	}
	return o.kh
}

// S is the scheduler of the execution in progress (nil outside executions).
var S *Sched

func (s *Sched) logf(format string, a ...interface{}) {
	if s.KeepTrace {
		s.Trace = append(s.Trace, fmt.Sprintf("[%v] ", s.Now)+fmt.Sprintf(format, a...))
	}
}

// Event records a harness-visible event in the trace (no scheduling point).
func Event(format string, a ...interface{}) {
	if S != nil && S.KeepTrace {
		S.logf(format, a...)
	}
}

// Now returns the virtual time of the execution in progress.
func Now() time.Duration {
	if S == nil {
		return 0
	}
	return S.Now
}

func newThread(name string, env bool) *Thread {
	t := &Thread{ID: len(S.threads), Name: name, Env: env, wake: make(chan struct{})}
	if S.cur != nil {
		S.cur.nspawn++
		t.UID = mix(S.cur.UID, uint64(S.cur.nspawn), 0xabcdef)
	} else {
		t.UID = mix(1, uint64(len(S.threads)), 0x123456)
	}
	t.h = t.UID
	S.threads = append(S.threads, t)
	return t
}

func startThread(t *Thread, f func()) {
	t.op = &Op{Kind: "start", Enabled: func() bool { return true }}
	s := S
	go func() {
		<-t.wake
		t.started = true
		defer func() {
			if r := recover(); r != nil {
				t.Panic = r
				buf := make([]byte, 4096)
				buf = buf[:runtime.Stack(buf, false)]
				t.PanicAt = string(buf)
				s.logf("thread %s PANIC: %v", t.Name, r)
			}
			t.done = true
			t.op = nil
			s.yield <- struct{}{}
		}()
		if s.aborting {
			return
		}
		f()
	}()
}

// Go starts a library thread.
func Go(f func()) { GoNamed("lib", false, f) }

// GoNamed starts a named thread; env threads are free to switch to.
func GoNamed(name string, env bool, f func()) *Thread {
	if S == nil {
		go f()
		return nil
	}
	if S.aborting {
		return nil
	}
	t := newThread(fmt.Sprintf("%s#%d", name, len(S.threads)), env)
	if S.KeepTrace {
		S.logf("%s spawns %s", S.curName(), t.Name)
	}
	if S.cur != nil {
		S.touch(S.cur, nil, "spawn")
	}
	startThread(t, f)
	return t
}

func (s *Sched) curName() string {
	if s.cur == nil {
		return "main"
	}
	return s.cur.Name
}

// CurName returns the name of the running thread.
func CurName() string {
	if S == nil {
		return ""
	}
	return S.curName()
}

// point parks the current thread on op until the scheduler resumes it.
func (s *Sched) point(op *Op) {
	if s.aborting {
		runtime.Goexit()
	}
	t := s.cur
	t.op = op
	t.nops++
	s.yield <- struct{}{}
	<-t.wake
	if s.aborting {
		runtime.Goexit()
	}
	t.op = nil
}

// Yield is a plain scheduling point (always enabled).
func Yield(kind string) {
	if S == nil || S.aborting {
		return
	}
	S.point(&Op{Kind: kind, Enabled: func() bool { return true }})
}

// Choose asks the scheduler for an internal (free) choice among n alternatives.
func Choose(n int, label string) int {
	if S == nil || S.aborting {
		return 0
	}
	return S.choose(n, label)
}

func (s *Sched) choose(n int, label string) int {
	if n <= 1 {
		return 0
	}
	p := Point{NEnabled: n, CurEnabled: false, Sig: mix(s.signature(), hstr(label))}
	for i := 0; i < n; i++ {
		if s.KeepLabels {
			p.Labels = append(p.Labels, fmt.Sprintf("%s:%d", label, i))
		}
	}
	p.FreeMask = ^uint64(0)
	c := 0
	if len(s.Points) < len(s.prefix) {
		c = s.prefix[len(s.Points)]
		if c >= n {
			s.Diverged = fmt.Sprintf("choice %d out of range %d at internal point %d (%s)", c, n, len(s.Points), label)
			c = 0
		}
	}
	p.Chosen = c
	s.Points = append(s.Points, p)
	if s.cur != nil {
		s.cur.h = mix(s.cur.h, uint64(c)+17)
	}
	if s.KeepTrace {
		s.logf("choice %s -> %d of %d", label, c, n)
	}
	return c
}

type transition struct {
	t     *Thread
	tm    *timer
	label string
	free  bool
}

func (s *Sched) enabled() []transition {
	ts := s.tsBuf[:0]
	add := func(t *Thread) {
		if t.done || t.op == nil {
			return
		}
		if t.hasRes || t.op.Enabled() {
			tr := transition{t: t, free: t.Env}
			if s.KeepLabels {
				tr.label = t.Name + ":" + t.op.Kind
			}
			ts = append(ts, tr)
		}
	}
	// canonical order: the library thread that ran last first (if still enabled), then by id
	first := s.lastLib
	if first != nil {
		add(first)
	}
	for _, t := range s.threads {
		if t != first {
			add(t)
		}
	}
	for _, tm := range s.timers {
		if !tm.fired && !tm.cancelled && tm.deadline <= s.Now {
			tr := transition{tm: tm, free: true}
			if s.KeepLabels {
				tr.label = "timer:" + tm.label
			}
			ts = append(ts, tr)
		}
	}
	s.tsBuf = ts
	return ts
}

// DefaultMaxSteps is the step cap of one execution (an execution that reaches it is reported as
// capped, never as a verdict); scenarios with very long single executions raise it.
var DefaultMaxSteps = 20000

// Run executes one complete execution of body under the choice prefix (choice 0 afterwards).
func Run(prefix []int, keepTrace bool, horizon time.Duration, noCurSig bool, body func()) *Sched {
	s := &Sched{yield: make(chan struct{}), prefix: prefix, MaxSteps: DefaultMaxSteps, KeepTrace: keepTrace, KeepLabels: keepTrace, Horizon: horizon, NoCurSig: noCurSig}
	s.Points = make([]Point, 0, 256)
	s.tsBuf = make([]transition, 0, 16)
	S = s
	resetGlobals()
	main := newThread("harness", true)
	startThread(main, body)
	s.cur = nil
	for {
		ts := s.enabled()
		if len(ts) == 0 {
			// nothing can run: advance virtual time to the earliest pending deadline
			var next *timer
			for _, tm := range s.timers {
				if tm.fired || tm.cancelled {
					continue
				}
				if next == nil || tm.deadline < next.deadline {
					next = tm
				}
			}
			if next == nil || (s.Horizon > 0 && next.deadline > s.Horizon) {
				break // quiescent (or beyond the horizon)
			}
			s.Now = next.deadline
			continue
		}
		s.Steps++
		if s.Steps > s.MaxSteps {
			s.Capped = true
			break
		}
		p := Point{NEnabled: len(ts), Sig: s.signature()}
		p.CurEnabled = s.lastLib != nil && ts[0].t == s.lastLib
		for i, tr := range ts {
			if s.KeepLabels {
				p.Labels = append(p.Labels, tr.label)
			}
			if tr.free && i < 64 {
				p.FreeMask |= 1 << uint(i)
			}
		}
		c := 0
		if len(s.Points) < len(s.prefix) {
			c = s.prefix[len(s.Points)]
			if c >= len(ts) {
				s.Diverged = fmt.Sprintf("choice %d out of range %d at point %d", c, len(ts), len(s.Points))
				c = 0
			}
		}
		p.Chosen = c
		s.Points = append(s.Points, p)
		tr := ts[c]
		if tr.tm != nil {
			tr.tm.fired = true
			if s.KeepTrace {
				s.logf("timer %s fires", tr.tm.label)
			}
			s.cur = nil
			tr.tm.fire()
			continue
		}
		s.cur = tr.t
		if !tr.t.Env {
			s.lastLib = tr.t
		}
		if s.KeepTrace {
			s.logf("run %s", tr.label)
		}
		if tr.t.op != nil {
			s.touch(tr.t, tr.t.op.Obj, tr.t.op.Kind)
		}
		tr.t.wake <- struct{}{}
		<-s.yield
		if s.lastLib != nil && s.lastLib.done {
			s.lastLib = nil
		}
	}
	s.cur = nil
	s.EndTime = s.Now
	return s
}

// Blocked returns the names/ops of threads that are not done at the end.
func (s *Sched) Blocked() []string {
	var out []string
	for _, t := range s.threads {
		if !t.done {
			k := "?"
			if t.op != nil {
				k = t.op.Kind
			}
			out = append(out, t.Name+":"+k)
		}
	}
	sort.Strings(out)
	return out
}

// BlockedLib returns the library (non-env) threads that are not done at the end.
func (s *Sched) BlockedLib() []string {
	var out []string
	for _, t := range s.threads {
		if !t.done && !t.Env {
			k := "?"
			if t.op != nil {
				k = t.op.Kind
			}
			out = append(out, t.Name+":"+k)
		}
	}
	sort.Strings(out)
	return out
}

// Fatal models a runtime fatal error (e.g. "sync: unlock of unlocked mutex", "concurrent map
// writes"): unlike a panic it cannot be recovered - the process is gone. It is recorded with the
// panics of the execution and the calling thread never runs again.
func Fatal(msg string) {
	if S == nil || S.aborting {
		panic("fatal error: " + msg)
	}
	S.Fatals = append(S.Fatals, fmt.Sprintf("%s: fatal error: %s (not recoverable: the whole process aborts)", S.curName(), msg))
	S.logf("thread %s FATAL: %s", S.curName(), msg)
	BlockObj("fatal", S, func() bool { return false })
}

func (s *Sched) Panics() []string {
	out := append([]string{}, s.Fatals...)
	for _, t := range s.threads {
		if t.Panic != nil {
			out = append(out, fmt.Sprintf("%s: %v", t.Name, t.Panic))
		}
	}
	return out
}

// PendingTimers reports whether a timer is still pending (horizon reached).
func (s *Sched) PendingTimers() int {
	n := 0
	for _, tm := range s.timers {
		if !tm.fired && !tm.cancelled {
			n++
		}
	}
	return n
}

// Teardown unwinds all parked threads with Goexit.
func (s *Sched) Teardown() {
	s.aborting = true
	for _, t := range s.threads {
		if !t.done {
			t.wake <- struct{}{}
			<-s.yield
		}
	}
	if S == s {
		S = nil
	}
}

func (s *Sched) Choices() []int {
	out := make([]int, len(s.Points))
	for i, p := range s.Points {
		out[i] = p.Chosen
	}
	return out
}

func (s *Sched) TraceString() string { return strings.Join(s.Trace, "\n") }
