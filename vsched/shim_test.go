package vsched_test

import (
	"fmt"
	"io"
	"sort"
	"strings"
	"testing"
	"time"

	vs "verif/vsched"
	"verif/vsched/vsync"
)

// explore runs body under every schedule (unbounded) and returns the set of outcomes.
func explore(t *testing.T, horizon time.Duration, body func(), outcome func(s *vs.Sched) string) map[string]int {
	t.Helper()
	e := &vs.Explorer{Bound: vs.Unbounded, Horizon: horizon, Body: body, Check: func(*vs.Sched) string { return "" }, Outcome: outcome}
	e.Run()
	if e.Capped > 0 {
		t.Fatalf("step cap hit")
	}
	// cache validation: the same exploration without state caching gives the same outcome set
	e2 := &vs.Explorer{Bound: vs.Unbounded, Horizon: horizon, Body: body, Check: func(*vs.Sched) string { return "" }, Outcome: outcome, NoCache: true, MaxExecs: 200000}
	e2.Run()
	if !e2.TimedOut && fmt.Sprint(keys(e.Outcomes)) != fmt.Sprint(keys(e2.Outcomes)) {
		t.Fatalf("state caching changes the outcome set: cached %v, uncached %v", keys(e.Outcomes), keys(e2.Outcomes))
	}
	return e.Outcomes
}

func keys(m map[string]int) []string {
	var k []string
	for x := range m {
		k = append(k, x)
	}
	sort.Strings(k)
	return k
}

func want(t *testing.T, got map[string]int, exp ...string) {
	t.Helper()
	sort.Strings(exp)
	if fmt.Sprint(keys(got)) != fmt.Sprint(exp) {
		t.Fatalf("outcomes %v, want %v", keys(got), exp)
	}
}

func TestUnbufferedRendezvous(t *testing.T) {
	var got int
	var order []string
	out := explore(t, 0, func() {
		got, order = 0, nil
		ch := vs.NewChan[int](0)
		vs.Go(func() { ch.Send(7); order = append(order, "sent") })
		vs.Go(func() { got = ch.Recv(); order = append(order, "received") })
	}, func(s *vs.Sched) string { return fmt.Sprintf("%d blocked=%d", got, len(s.Blocked())) })
	want(t, out, "7 blocked=0")
}

func TestBufferedFIFOAndBlocking(t *testing.T) {
	var got []int
	out := explore(t, 0, func() {
		got = nil
		ch := vs.NewChan[int](2)
		vs.Go(func() {
			for i := 1; i <= 4; i++ {
				ch.Send(i)
			}
			vs.Close(ch)
		})
		vs.Go(func() {
			for {
				v, ok := ch.Recv2()
				if !ok {
					return
				}
				got = append(got, v)
			}
		})
	}, func(s *vs.Sched) string { return fmt.Sprint(got, len(s.Blocked())) })
	want(t, out, "[1 2 3 4] 0")
}

func TestSendOnFullBufferBlocks(t *testing.T) {
	out := explore(t, 0, func() {
		ch := vs.NewChan[int](1)
		vs.Go(func() { ch.Send(1); ch.Send(2) })
	}, func(s *vs.Sched) string { return strings.Join(s.Blocked(), ",") })
	want(t, out, "lib#1:send.wait")
}

func TestCloseWakesReceiversAndPanics(t *testing.T) {
	var oks []bool
	out := explore(t, 0, func() {
		oks = nil
		ch := vs.NewChan[int](0)
		for i := 0; i < 2; i++ {
			vs.Go(func() { _, ok := ch.Recv2(); oks = append(oks, ok) })
		}
		vs.Go(func() { vs.Close(ch) })
	}, func(s *vs.Sched) string { return fmt.Sprint(oks, len(s.Blocked())) })
	want(t, out, "[false false] 0")
	out = explore(t, 0, func() {
		ch := vs.NewChan[int](0)
		vs.Go(func() { vs.Close(ch); vs.Close(ch) })
	}, func(s *vs.Sched) string { return strings.Join(s.Panics(), ";") })
	want(t, out, "lib#1: close of closed channel")
	out = explore(t, 0, func() {
		ch := vs.NewChan[int](1)
		vs.Go(func() { vs.Close(ch); ch.Send(1) })
	}, func(s *vs.Sched) string { return strings.Join(s.Panics(), ";") })
	want(t, out, "lib#1: send on closed channel")
}

func TestNilChannelBlocksForever(t *testing.T) {
	out := explore(t, 0, func() {
		var ch *vs.Chan[int]
		vs.Go(func() { ch.Recv() })
		vs.Go(func() { ch.Send(1) })
	}, func(s *vs.Sched) string { return fmt.Sprint(len(s.Blocked())) })
	want(t, out, "2")
}

// The lost-notification pattern: a non-blocking send on an unbuffered channel succeeds only
// if the receiver is already blocked INSIDE the receive. Both outcomes must be reachable.
func TestNonBlockingSendNeedsParkedReceiver(t *testing.T) {
	var delivered bool
	out := explore(t, 0, func() {
		delivered = false
		ch := vs.NewChan[int](0)
		vs.Go(func() {
			if i, _ := vs.Select(true, vs.SendCase(ch, 1)); i == 0 {
				delivered = true
			}
		})
		vs.Go(func() { vs.Select(true, vs.RecvCase(ch)) })
		vs.Go(func() { ch.Recv() })
	}, func(s *vs.Sched) string { return fmt.Sprint(delivered, " blocked=", len(s.Blocked())) })
	want(t, out, "false blocked=1", "true blocked=0")
}

func TestSelectReadyChoiceAndDefault(t *testing.T) {
	var got string
	out := explore(t, 0, func() {
		got = ""
		a, b := vs.NewChan[int](1), vs.NewChan[int](1)
		a.Send(1)
		b.Send(2)
		i, r := vs.Select(false, vs.RecvCase(a), vs.RecvCase(b))
		got = fmt.Sprint(i, vs.SelRecv(a, r))
	}, func(s *vs.Sched) string { return got })
	want(t, out, "0 1", "1 2") // Go picks uniformly among ready cases: both must be explored
	out = explore(t, 0, func() {
		a := vs.NewChan[int](0)
		i, _ := vs.Select(true, vs.RecvCase(a))
		got = fmt.Sprint(i)
	}, func(s *vs.Sched) string { return got })
	want(t, out, "-1")
}

func TestMutexExclusionAndLostUpdate(t *testing.T) {
	var n int
	run := func(locked bool) map[string]int {
		return explore(t, 0, func() {
			n = 0
			var mu vsync.Mutex
			for i := 0; i < 2; i++ {
				vs.Go(func() {
					if locked {
						mu.Lock()
					}
					v := n
					vs.Yield("between read and write")
					n = v + 1
					if locked {
						mu.Unlock()
					}
				})
			}
		}, func(s *vs.Sched) string { return fmt.Sprint(n) })
	}
	want(t, run(true), "2")
	want(t, run(false), "1", "2")
}

func TestRWMutexWriterPreference(t *testing.T) {
	// reader 1 holds the read lock; once a writer is blocked in Lock, a second RLock must
	// wait for the writer (sync.RWMutex semantics): the late reader never overtakes a parked writer.
	var order []string
	out := explore(t, 0, func() {
		order = nil
		var mu vsync.RWMutex
		release := vs.NewChan[int](0)
		mu.RLock()
		vs.Go(func() { mu.Lock(); order = append(order, "W"); mu.Unlock() })
		vs.Go(func() {
			release.Recv() // starts only after the writer is known to be parked
			mu.RLock()
			order = append(order, "R2")
			mu.RUnlock()
		})
		vs.Block("until writer parked", func() bool {
			for _, b := range vs.S.Blocked() {
				if strings.Contains(b, "wlock.wait") {
					return true
				}
			}
			return false
		})
		release.Send(1)
		vs.Yield("hold")
		mu.RUnlock()
	}, func(s *vs.Sched) string { return strings.Join(order, ">") + fmt.Sprint(" blocked=", len(s.Blocked())) })
	want(t, out, "W>R2 blocked=0")
}

func TestPipeSemantics(t *testing.T) {
	var res string
	out := explore(t, 0, func() {
		res = ""
		pr, pw := vs.Pipe()
		vs.Go(func() {
			n, err := pw.Write([]byte("hello"))
			res += fmt.Sprint("w", n, err, ";")
			pw.Close()
		})
		vs.Go(func() {
			b := make([]byte, 3)
			n1, _ := pr.Read(b)
			n2, _ := pr.Read(b)
			_, err := pr.Read(b)
			res += fmt.Sprint("r", n1, n2, err == io.EOF, ";")
		})
	}, func(s *vs.Sched) string {
		p := strings.Split(strings.TrimSuffix(res, ";"), ";")
		sort.Strings(p)
		return strings.Join(p, ";") + fmt.Sprint(" blocked=", len(s.Blocked()))
	})
	want(t, out, "r3 2 true;w5 <nil> blocked=0")
	// a writer blocked in Write is released by closing the read side
	out = explore(t, 0, func() {
		res = ""
		pr, pw := vs.Pipe()
		vs.Go(func() { _, err := pw.Write([]byte("x")); res = fmt.Sprint(err) })
		vs.Go(func() { pr.Close() })
	}, func(s *vs.Sched) string { return res + fmt.Sprint(" blocked=", len(s.Blocked())) })
	want(t, out, "io: read/write on closed pipe blocked=0")
	// nobody reads: the writer stays blocked
	out = explore(t, 0, func() {
		_, pw := vs.Pipe()
		vs.Go(func() { pw.Write([]byte("x")) })
	}, func(s *vs.Sched) string { return fmt.Sprint(len(s.Blocked())) })
	want(t, out, "1")
}

func TestVirtualTimeAndTies(t *testing.T) {
	var log []string
	out := explore(t, 0, func() {
		log = nil
		a := vs.TimeAfter(2 * time.Second)
		b := vs.TimeAfter(1 * time.Second)
		vs.Go(func() { a.Recv(); log = append(log, fmt.Sprint("a@", vs.Now())) })
		vs.Go(func() { b.Recv(); log = append(log, fmt.Sprint("b@", vs.Now())) })
	}, func(s *vs.Sched) string { return strings.Join(log, " ") })
	want(t, out, "b@1s a@2s")
	// two timers at the same instant: both orders
	out = explore(t, 0, func() {
		log = nil
		a := vs.TimeAfter(time.Second)
		b := vs.TimeAfter(time.Second)
		vs.Go(func() { a.Recv(); log = append(log, "a") })
		vs.Go(func() { b.Recv(); log = append(log, "b") })
	}, func(s *vs.Sched) string { return strings.Join(log, "") })
	want(t, out, "ab", "ba")
	// the clock does not advance while a thread can run (maximal progress), and Sleep orders
	out = explore(t, 0, func() {
		log = nil
		vs.Go(func() { vs.TimeSleep(time.Second); log = append(log, "late") })
		vs.Go(func() { vs.Yield("x"); vs.Yield("y"); log = append(log, "early") })
	}, func(s *vs.Sched) string { return strings.Join(log, ",") + s.EndTime.String() })
	want(t, out, "early,late1s")
	// ephemeral timers (time.After inside a select case) are cancelled when another case wins
	out = explore(t, 0, func() {
		ch := vs.NewChan[int](1)
		ch.Send(1)
		vs.Select(false, vs.RecvCase(ch), vs.RecvCase(vs.TimeAfterEphemeral(time.Hour)))
	}, func(s *vs.Sched) string { return s.EndTime.String() })
	want(t, out, "0s")
}

func TestPreemptionBoundOrdering(t *testing.T) {
	// with bound 0 a runnable library thread is never preempted: the lost update needs one preemption
	var n int
	body := func() {
		n = 0
		for i := 0; i < 2; i++ {
			vs.Go(func() { v := n; vs.Yield("rw"); n = v + 1 })
		}
	}
	for bound, exp := range map[int][]string{0: {"2"}, 1: {"1", "2"}} {
		e := &vs.Explorer{Bound: bound, Body: body, Check: func(*vs.Sched) string { return "" }, Outcome: func(*vs.Sched) string { return fmt.Sprint(n) }}
		e.Run()
		if fmt.Sprint(keys(e.Outcomes)) != fmt.Sprint(exp) {
			t.Fatalf("bound %d: outcomes %v want %v", bound, keys(e.Outcomes), exp)
		}
	}
}

func TestReplayIsDeterministic(t *testing.T) {
	var n int
	body := func() {
		n = 0
		ch := vs.NewChan[int](0)
		for i := 0; i < 3; i++ {
			i := i
			vs.Go(func() { vs.Select(true, vs.SendCase(ch, i)) })
		}
		vs.Go(func() { n = ch.Recv() })
	}
	e := &vs.Explorer{Bound: vs.Unbounded, Body: body, Check: func(s *vs.Sched) string {
		if n == 2 {
			return "found"
		}
		return ""
	}}
	e.Run()
	if e.Violation == "" {
		t.Fatal("target execution not found")
	}
	var traces []string
	for i := 0; i < 3; i++ {
		s := vs.Replay(e.VChoices, 0, true, body)
		if s.Diverged != "" || n != 2 {
			t.Fatalf("replay %d diverged: %q n=%d", i, s.Diverged, n)
		}
		traces = append(traces, s.TraceString())
		s.Teardown()
	}
	if traces[0] != traces[1] || traces[1] != traces[2] {
		t.Fatal("replays of one schedule produced different traces")
	}
}

func TestPoolChoice(t *testing.T) {
	var got string
	out := explore(t, 0, func() {
		vsync.PoolChoice = true
		defer func() { vsync.PoolChoice = false }()
		var p vsync.Pool
		p.New = func() interface{} { return "new" }
		p.Put("a")
		p.Put("b")
		got = p.Get().(string)
	}, func(s *vs.Sched) string { return got })
	want(t, out, "a", "b", "new")
}
