package vsched

func Aborting() bool { return S == nil || S.aborting }

// Block parks the current thread until cond holds.
func Block(kind string, cond func() bool) {
	if Aborting() {
		return
	}
	S.point(&Op{Kind: kind, Enabled: cond})
}

// BlockObj is Block with the object the operation applies to (for state signatures).
func BlockObj(kind string, obj interface{}, cond func() bool) {
	if Aborting() {
		return
	}
	S.point(&Op{Kind: kind, Obj: obj, Enabled: cond})
}

var resetFns []func()

func OnReset(f func()) { resetFns = append(resetFns, f) }

func resetGlobals() {
	for _, f := range resetFns {
		f()
	}
	randState = 1
}

var randState uint32 = 1

func RandUint32() uint32 {
	randState = randState*1664525 + 1013904223
	return randState | 1
}
