package vsched

import (
	"errors"
	"net"
)

func Aborting() bool { return S == nil || S.aborting }

// Block parks the current thread until cond holds.
func Block(kind string, cond func() bool) {
	if Aborting() {
		return
	}
	S.point(&Op{Kind: kind, Enabled: cond})
}

// BlockObj is Block with the object the operation applies to (for state signatures).
func BlockObj(kind string, obj interface{}, cond func() bool) {
	if Aborting() {
		return
	}
	S.point(&Op{Kind: kind, Obj: obj, Enabled: cond})
}

// Dial is what the instrumented library calls instead of dialer.Dial(network, addr): the harness
// decides which (in-memory) connection a dial yields.
var DialFn func(dialer interface{}, network, addr string) (net.Conn, error)

func Dial(dialer interface{}, network, addr string) (net.Conn, error) {
	if DialFn == nil {
		return nil, errors.New("vsched: no dial hook installed")
	}
	return DialFn(dialer, network, addr)
}

var resetFns []func()

func OnReset(f func()) { resetFns = append(resetFns, f) }

// epoch counts executions. Shim objects that outlive an execution (package-level mutexes,
// channels, wait groups) remember the epoch of their last use and clear the state a torn-down
// execution left behind on their first use in a later one.
var runEpoch uint64 = 1

// Epoch returns the number of the execution in progress.
func Epoch() uint64 { return runEpoch }

func resetGlobals() {
	runEpoch++
	for _, f := range resetFns {
		f()
	}
	randState = 1
}

var randState uint32 = 1

func RandUint32() uint32 {
	randState = randState*1664525 + 1013904223
	return randState | 1
}
