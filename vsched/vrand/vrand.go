package vrand

import vs "verif/vsched"

func Seed(int64)     {}
func Uint32() uint32 { return vs.RandUint32() }
