// Package vsync: scheduler-aware replacements for package sync.
package vsync

import (
	vs "verif/vsched"
)

type Mutex struct {
	locked bool
	epoch  uint64
}

// fresh clears state left behind by an execution that was torn down while the lock was held
// (only package-level mutexes outlive an execution).
func (m *Mutex) fresh() {
	if e := vs.Epoch(); m.epoch != e {
		m.epoch = e
		m.locked = false
	}
}

func (m *Mutex) Lock() {
	if vs.Aborting() {
		return
	}
	m.fresh()
	vs.BlockObj("lock", m, func() bool { return !m.locked })
	m.locked = true
}

func (m *Mutex) Unlock() {
	if vs.Aborting() {
		return
	}
	if !m.locked {
		vs.Fatal("sync: unlock of unlocked mutex")
		return
	}
	m.locked = false
	vs.Touch(m, "unlock")
}

func (m *Mutex) TryLock() bool {
	m.fresh()
	if m.locked {
		return false
	}
	m.locked = true
	return true
}

type RWMutex struct {
	writer   bool
	readers  int
	wwaiting int
	epoch    uint64
}

func (m *RWMutex) fresh() {
	if e := vs.Epoch(); m.epoch != e {
		m.epoch = e
		m.writer, m.readers, m.wwaiting = false, 0, 0
	}
}

func (m *RWMutex) Lock() {
	if vs.Aborting() {
		return
	}
	m.fresh()
	vs.BlockObj("wlock", m, func() bool { return true }) // the instant Lock executes
	if m.writer || m.readers != 0 {
		m.wwaiting++ // announced: later readers queue behind this writer
		vs.Touch(m, "wlock-announce")
		vs.BlockObj("wlock.wait", m, func() bool { return !m.writer && m.readers == 0 })
		m.wwaiting--
	}
	m.writer = true
}

func (m *RWMutex) Unlock() {
	if vs.Aborting() {
		return
	}
	if !m.writer {
		vs.Fatal("sync: Unlock of unlocked RWMutex")
		return
	}
	m.writer = false
	vs.Touch(m, "wunlock")
}

func (m *RWMutex) RLock() {
	if vs.Aborting() {
		return
	}
	m.fresh()
	// NOTE: wwaiting is only >0 while a writer is parked, which models Go's writer preference.
	vs.BlockObj("rlock", m, func() bool { return !m.writer && m.wwaiting == 0 })
	m.readers++
}

func (m *RWMutex) RUnlock() {
	if vs.Aborting() {
		return
	}
	if m.readers == 0 {
		vs.Fatal("sync: RUnlock of unlocked RWMutex")
		return
	}
	m.readers--
	vs.Touch(m, "runlock")
}

// PoolChoice makes Pool.Get an explored choice: any pooled object, or a fresh allocation.
var PoolChoice bool

// Pool: deterministic LIFO (or explored choice), reset between executions.
type Pool struct {
	New   func() interface{}
	items []interface{}
	reg   bool
}

func (p *Pool) Get() interface{} {
	if !p.reg {
		p.reg = true
		vs.OnReset(func() { p.items = nil })
	}
	if !vs.Aborting() {
		vs.BlockObj("pool.get", p, func() bool { return true })
	}
	if n := len(p.items); n > 0 {
		if PoolChoice {
			// the real sync.Pool may hand out any pooled object or none at all
			k := vs.Choose(n+1, "pool.get")
			if k < n {
				v := p.items[n-1-k]
				p.items = append(p.items[:n-1-k], p.items[n-k:]...)
				return v
			}
		} else {
			v := p.items[n-1]
			p.items = p.items[:n-1]
			return v
		}
	}
	if p.New != nil {
		return p.New()
	}
	return nil
}

func (p *Pool) Put(v interface{}) {
	if !p.reg {
		p.reg = true
		vs.OnReset(func() { p.items = nil })
	}
	p.items = append(p.items, v)
	vs.Touch(p, "pool.put")
	// A scheduling point AFTER the release: whatever the caller still does with the object it
	// has just given back can be overtaken by another thread that gets it from the pool.
	// (Only in the scenarios that explore pool behaviour - PoolChoice - to keep the other state
	// spaces small.)
	if PoolChoice && !vs.Aborting() {
		vs.BlockObj("pool.put.done", p, func() bool { return true })
	}
}

type Once struct {
	done bool
	m    Mutex
}

func (o *Once) Do(f func()) {
	if o.done {
		return
	}
	o.m.Lock()
	defer o.m.Unlock()
	if !o.done {
		defer func() { o.done = true }()
		f()
	}
}

// WaitGroup mirrors sync.WaitGroup.
type WaitGroup struct {
	n     int
	epoch uint64
}

func (w *WaitGroup) Add(d int) {
	if e := vs.Epoch(); w.epoch != e {
		w.epoch = e
		w.n = 0
	}
	w.n += d
	if w.n < 0 {
		panic("sync: negative WaitGroup counter")
	}
	vs.Touch(w, "wg.add")
}

func (w *WaitGroup) Done() { w.Add(-1) }

func (w *WaitGroup) Wait() {
	if vs.Aborting() {
		return
	}
	vs.BlockObj("wg.wait", w, func() bool { return w.n == 0 })
}

// Locker mirrors sync.Locker.
type Locker interface {
	Lock()
	Unlock()
}

// Map is a minimal sync.Map (operations are atomic between scheduling points).
type Map struct {
	m map[interface{}]interface{}
}

func (m *Map) Load(k interface{}) (interface{}, bool) {
	vs.BlockObj("map.load", m, func() bool { return true })
	v, ok := m.m[k]
	return v, ok
}

func (m *Map) Store(k, v interface{}) {
	vs.BlockObj("map.store", m, func() bool { return true })
	if m.m == nil {
		m.m = map[interface{}]interface{}{}
	}
	m.m[k] = v
}

func (m *Map) Delete(k interface{}) {
	vs.BlockObj("map.delete", m, func() bool { return true })
	delete(m.m, k)
}

func (m *Map) LoadOrStore(k, v interface{}) (interface{}, bool) {
	vs.BlockObj("map.loadorstore", m, func() bool { return true })
	if old, ok := m.m[k]; ok {
		return old, true
	}
	if m.m == nil {
		m.m = map[interface{}]interface{}{}
	}
	m.m[k] = v
	return v, false
}

func (m *Map) Range(f func(k, v interface{}) bool) {
	for k, v := range m.m {
		if !f(k, v) {
			return
		}
	}
}

// Cond mirrors sync.Cond.
type Cond struct {
	L       Locker
	waiters int
	tickets int
}

func NewCond(l Locker) *Cond { return &Cond{L: l} }

func (c *Cond) Wait() {
	if vs.Aborting() {
		return
	}
	c.waiters++
	c.L.Unlock()
	vs.BlockObj("cond.wait", c, func() bool { return c.tickets > 0 })
	c.tickets--
	c.waiters--
	c.L.Lock()
}

func (c *Cond) Signal() {
	if c.waiters > c.tickets {
		c.tickets++
	}
	vs.Touch(c, "cond.signal")
}

func (c *Cond) Broadcast() {
	c.tickets = c.waiters
	vs.Touch(c, "cond.broadcast")
}
